"""C13 — rolling filters: pewlib.process.filters.rolling_mean / rolling_median against
PewModel/Filters.lean (mechanism `meanCells*`/`medianCells*`, specification `specMean*`/`specMedian*`).

Observation points: the returned array (shape and every pixel) and the input array before/after.
Interior pixels ("at least one full window from the border") are compared with the per-pixel
definition; border pixels only with "unchanged, or within the range of the real pixels of the
window".  A pixel whose exact decision margin is below the float tolerance may take either value.

Images of more than SPARSE_ABOVE pixels (the "large" class: above 2^16 and 2^17 elements) are compared
with the specification at a pixel set instead of everywhere, because the exact specification costs
0.3-2 ms per pixel: every pixel whose output differs from the input (sampled above a cap), a random
sample, all pixels of full rows/columns (1-D: segments) near size/2, near multiples of 256/128/64
(1-D: 65536, 32768, ...) and at random places - and every pixel at which the implementation differs
from the Lean mechanism model, which (unless the case says `with_model: false`) is still compared at
ALL pixels.  The driver op `c13.at` evaluates the same Lean definitions as `c13.filter`.

Three families of cases.  The dyadic streams (`data`/`den`/`offset`): every window sum is exact in
binary64, a pixel is undetermined only within 1e-9 relative of its threshold.  The float streams
(`stream: fconst | fgen`, values given as hex floats, dtypes float64 / float32 / integer): arbitrary
doubles; a pixel is undetermined only when its exact decision margin (from the rationals the driver
returns) is within a rounding bound of the float evaluation (`FloatTol`), everything else is demanded.
In every family the clauses "constant images and infinite thresholds come back unchanged" are demanded
bit for bit wherever the Lean condition `mustBeUnchanged` holds.  pewlib does not meet that for the mean
filter on constant images whose window sums are inexact in the computing format: `known()` recognises
exactly that signature (known finding C13-constant-image-rounding; bound and exactness test from the
driver op `c13.constinfo`, theorems `rounded_mean_of_constant_within_bound` / `_exact`).

Further classes on top of the float stream machinery: `hdr` (spikes 1e8 .. 1e150 times the background; a replaced value is
demanded to the rounding of the magnitude of the NEIGHBOURS that are averaged, Lean's `rabs` / `replBound`), `ints` (every
integer dtype), `tie` (pixels exactly on the decision boundary where Lean's `meanDecisionExact` certifies that a float
evaluation is exact), big-endian storage, and `history` cases (`steps`): several calls in one process on the same array
object edited in place, on another array, on a view - each call judged like a single one (`evaluate_call`)."""
import json
import math
import os
import random
import struct
import sys
import warnings
from fractions import Fraction

import numpy as np

from harness import core
from harness.core import Prop, outcome, unrat

REL = 1e-9
SPARSE_ABOVE = 4096  # more pixels than this: compare at a requested pixel set (driver op c13.at)


def pick_lines(rng, s, quota, steps):
    """`quota` distinct indices in range(s): near s/2, near the multiples of `steps` (coarsest first), then random"""
    out = []

    def add(i):
        i = min(max(i, 0), s - 1)
        if i not in out and len(out) < quota:
            out.append(i)

    add(s // 2 + rng.randint(-4, 3))
    seen = set()
    for step in steps:
        for m in range(step, s, step):
            if m not in seen:
                seen.add(m)
                add(m + rng.randint(-4, 3))
    tries = 0
    while len(out) < min(quota, s) and tries < 10 * quota + 100:
        add(rng.randrange(s))
        tries += 1
    return out


def pick_pixels(case, shape, changed):
    """row-major flat indices at which a large image is compared (all of them when the budget allows)"""
    n = int(np.prod(shape))
    budget = case.get("px_budget")
    if not isinstance(budget, int) or budget <= 0:
        # about 3 s of exact specification: its cost per pixel grows with the window area (2-D median: area^2)
        area = int(np.prod(case["block"]))
        budget = 9000 * 25 // max(25, area) if len(shape) == 2 else 3000 * 5 // max(5, area)
    if n <= budget:
        return list(range(n))
    rng = random.Random(f"c13-px:{case.get('sample_seed', 0)}")
    chosen = set()
    if len(shape) == 2:
        n0, n1 = shape
        for i in pick_lines(rng, n0, max(1, int(0.2 * budget) // n1), (256, 128, 64)):
            chosen.update(range(i * n1, (i + 1) * n1))
        for j in pick_lines(rng, n1, max(1, int(0.2 * budget) // n0), (256, 128, 64)):
            chosen.update(range(j, n, n1))
    else:
        seg = 96
        for a in pick_lines(rng, n, max(1, int(0.4 * budget) // seg), (65536, 32768, 16384, 8192, 4096)):
            chosen.update(range(max(0, a - seg // 2), min(n, a + seg // 2)))
    ch = [int(k) for k in changed]
    cap = max(1, int(0.45 * budget))
    if len(ch) > cap:
        ch = rng.sample(ch, cap)
    chosen.update(ch)
    chosen.update(rng.sample(range(n), min(n, max(1, int(0.15 * budget)))))
    return sorted(chosen)


def thr_float(t):
    return math.inf if t == "inf" else float.fromhex(t)


def fbits(v):
    return struct.unpack("<Q", struct.pack("<d", float(v)))[0]


KNOWN_CONST = "C13-constant-image-rounding"
FLOAT_DTYPES = {"float64": (53, -1074), "float32": (24, -149)}
INT_DTYPES = ("int64", "int32", "uint8", "uint16", "uint32", "uint64", "int8", "int16")
INT_CAP = 2 ** 46  # |pixel| of an integer image: every window sum (up to 127 values) is below 2^53, exact in binary64


def int_range(dtype, cap=INT_CAP):
    """the values an integer image of this dtype is drawn from: the dtype's range, cut at +-cap"""
    ii = np.iinfo(dtype)
    return max(int(ii.min), -cap), min(int(ii.max), cap)
BYTEORDERS = ["native"] * 7 + ["big"]  # one case in eight is stored in the non-native byte order
MAX_ABS = 1e300  # |x| above ~9e307 overflows (a + b) in np.median of two pad values; squares of rounding noise may be inf


def hexf(v):
    return float(v).hex()


def case_values(case):
    """the float64 values the case describes (before the dtype cast), row-major"""
    if "stream" in case:
        if "fconst" in case:
            return [float.fromhex(case["fconst"])] * int(np.prod(case["shape"]))
        return [float.fromhex(h) for h in case["fdata"]]
    den = case["den"]
    return [float(Fraction(v, den) + case["offset"]) for v in case["data"]]


def build(case):
    """-> (vals, x, base): the exact values handed to pewlib, the array itself (dtype, memory layout,
    writeable flag of the case) and the buffer it is a view of (None when it owns its data)"""
    dtype = np.dtype(case.get("dtype", "float64"))
    arr = np.array(case_values(case), dtype=np.float64).reshape(case["shape"]).astype(dtype)
    vals = [Fraction(int(v)) if dtype.kind in "iu" else Fraction(float(v)) for v in arr.ravel()]
    if case.get("byteorder") == "big":  # the same values, stored most significant byte first (non-native here)
        dtype = dtype.newbyteorder(">")
        arr = arr.astype(dtype)
    lay = case["layout"]
    base = None
    if lay == "F":
        arr = np.asfortranarray(arr)
    elif lay == "strided":  # a non-contiguous view into a larger buffer
        fill = dtype.type(77) if dtype.kind in "iu" else dtype.type(-777.0)
        base = np.full(tuple(2 * s for s in case["shape"]), fill, dtype=dtype)
        sl = tuple(slice(0, None, 2) for _ in case["shape"])
        base[sl] = arr
        arr = base[sl]
    elif lay == "reversed":  # negative strides along every axis
        base = np.ascontiguousarray(arr[tuple(slice(None, None, -1) for _ in case["shape"])])
        arr = base[tuple(slice(None, None, -1) for _ in case["shape"])]
    if case.get("readonly"):
        if base is not None:
            base.flags.writeable = False
        arr.flags.writeable = False
    return vals, arr, base


def sqrt_bounds(q):
    """rational bounds lo <= sqrt(q) <= hi, hi - lo below 2^-90 relative"""
    if q <= 0:
        return Fraction(0), Fraction(0)
    n, d = q.numerator, q.denominator
    k = max(0, (200 - (n.bit_length() - d.bit_length())) // 2 + 1)
    r = math.isqrt((n << (2 * k)) // d)
    return Fraction(r, 1 << k), Fraction(r + 1, 1 << k)


class FloatTol:
    """rounding bounds of a float evaluation of one pixel's decision, in exact rational arithmetic.

    u = unit roundoff of the computing format, A >= every |value| of the image, N = values per window,
    P = roundings that may sit in a pad value (0 when the pixel's windows hold real pixels only).
    Mean filter: m^ = fl-mean of N values, |m^ - m| <= (N+P) u A(1+..); d^ = fl(x - m^); the masked mean likewise;
    every deviation v - mm^ is off by at most (N+P+2) u A, the root mean square moves by at most the largest
    perturbation, squaring/summing/dividing/root add (N/2+2) u relative; t*s one more rounding.  Everything is
    doubled.  Underflow of the squares (flush below 2^emin_normal) costs `tiny_sd` absolute in the spread.
    Median filter: medians are selections (exact on real windows); d^ = fl|x - med| (u relative); the MAD is the
    median of rounded deviations = rounded median (rounding is monotone), times 1.4826, times t: three roundings,
    a fourth for the float32 constant.  A pad value (mean of the two middle values of an even count) carries one
    rounding per axis; order statistics move by at most the largest perturbation."""

    def __init__(self, p, block, t, t_used, int_data=False, is_int=False):
        self.int_data = int_data  # integer pixels with N*max|x| < 2^53: every window sum is exact in binary64
        # median filter: a pad value is exact when it is a selection (odd half-window) or rounded to an integer (np.pad
        # rounds the pad values of an integer image: the mechanism model does the same)
        self.pads_exact = bool(is_int) or all((b // 2) % 2 == 1 for b in block)
        self.u = Fraction(1, 2 ** p)
        self.N = int(np.prod(block))
        self.P = sum(b // 2 for b in block) + 2
        self.t = None if math.isinf(t) else Fraction(t)
        self.inf_used = math.isinf(t_used)  # float32: a finite threshold that overflows to inf in the computing dtype
        # relative change of the threshold by its conversion to the computing dtype (0 when exactly representable)
        self.t_rel = Fraction(0) if math.isinf(t) or t == 0 or math.isinf(t_used) else abs(Fraction(t_used) - Fraction(t)) / Fraction(t)
        self.t_zeroed = (not math.isinf(t)) and t != 0 and t_used == 0  # underflow of the threshold to 0
        self.tiny_sd = Fraction(1, 2 ** 537) if p == 53 else Fraction(1, 2 ** 74)
        self.tiny = Fraction(1, 2 ** 1070) if p == 53 else Fraction(1, 2 ** 146)

    @staticmethod
    def local_maxabs(arr, halves, reach):
        """per pixel (row-major list of Fractions): the largest |value| among the real pixels within `reach`
        half-windows of it - every number the decision about that pixel is computed from is a statistic of those"""
        return [Fraction(float(v)) for v in FloatTol.local_max(np.abs(np.asarray(arr, dtype=np.float64)), halves, reach).ravel()]

    @staticmethod
    def local_max(a, halves, reach):
        """per pixel: the largest value among the real pixels within `reach` half-windows of it"""
        out = a.copy()
        for ax, h in enumerate(halves):
            r, n = reach * h, a.shape[ax]
            cur = out.copy()
            for sft in range(1, min(r, n - 1) + 1):
                lo = [slice(None)] * a.ndim
                hi = [slice(None)] * a.ndim
                lo[ax], hi[ax] = slice(0, n - sft), slice(sft, n)
                cur[tuple(lo)] = np.maximum(cur[tuple(lo)], out[tuple(hi)])
                cur[tuple(hi)] = np.maximum(cur[tuple(hi)], out[tuple(lo)])
            out = cur
        return out

    def repl_tol(self, kind, real, rabs, A, corner=True):
        """how far a replaced value may be from the exact replacement.  Mean filter: Lean's `replBound u E rabs`
        (theorems rounded_window_within_bound / rounded_mean_any_order): E = N + 2 roundings (N + P + 2 when the
        window holds pad values, themselves rounded means), rabs = the mean magnitude of the values that are
        averaged (the driver's `rabs`: the same replacement computed on the image of absolute values) - NOT the
        magnitude of the pixel that is replaced and not the largest value of the image; plus one unit of the
        smallest subnormal for the division.  Median filter: a selection, exact on real windows and on windows whose
        pad values are exact (`pads_exact`); otherwise a pad value is the mean of the two middle values of an edge
        chunk, one rounding RELATIVE to itself, and x -> x(1 +- 4u) is increasing, so the median of the window moves
        by at most 4u relative to itself (rabs = |median|); only in the corner regions of a 2-D image, where the two
        middle values may be pad values of opposite sign that cancel, the bound is relative to A (largest
        magnitude within reach)."""
        if kind == "mean":
            return 2 * (self.N + (0 if real else self.P) + 2) * self.u * (A if rabs is None else rabs) + self.tiny
        if real or self.pads_exact:
            return Fraction(0)
        return 8 * self.u * A if corner or rabs is None else 4 * self.u * rabs

    def margin(self, kind, cell, real, A, corner=True, mmax=None):
        """-> 'out' | 'in' | 'near' from the exact lhs/rhs of the cell; A >= every |value| the decision of this
        pixel can see (its window; for the median filter the windows of its window's pixels); median filter on a
        window with pad values: `corner` = the pixel is within reach of a corner region of a 2-D image, `mmax` >= the
        |window median| of every pixel of its window"""
        if cell["rhs"] is None:
            return "in"  # infinite threshold: inf*s is inf or NaN, the comparison is false
        if self.inf_used:
            return "near"
        lhs, rhs = unrat(cell["lhs"]), unrat(cell["rhs"])
        u, t = self.u, self.t
        if kind == "mean":
            if self.int_data and lhs == 0:
                # the window (pad values of an integer image are integers too) sums exactly to N*x: |x - m| is 0 in floats too
                return "in"
            if lhs == 0 and rhs == 0 and A == 0:
                return "in"  # a window of zeros: every sum is exactly 0
            n = self.N + (0 if real else self.P)
            if cell.get("rabs") is not None and unrat(cell["rabs"]) == 0:
                # every other value of the window (pad values included) is exactly 0: the window sums to x exactly, x/N
                # never rounds to x (x != 0), the spread is exactly 0 and a finite threshold times 0 is 0
                return "out" if lhs > 0 else "in"
            if cell.get("flat0"):
                # Lean's flatSpreadExact: the neighbours are copies of one value with exact multiples - their spread is
                # exactly 0 in floats and t*0 = 0 for every finite t: outlier exactly when the computed |x - m| is not 0
                if lhs == 0:
                    return "in"
                return "out" if sqrt_bounds(lhs)[0] > 2 * (n + 4) * u * A + self.tiny else "near"
            d_lo, d_hi = sqrt_bounds(lhs)
            r_lo, r_hi = sqrt_bounds(rhs)
            e = 2 * ((n + 4) * u * A * (1 + t) + (Fraction(n, 2) + 4) * u * r_hi + t * self.tiny_sd)
        else:
            exact_med = real or self.pads_exact  # every window median is a selection of exactly known values
            if exact_med and (lhs == 0 or rhs == 0) and not self.t_zeroed:
                # x - med is exact when it is 0, a float difference is 0 only then, rounding keeps the order of the
                # deviations (their median is 0 exactly when the exact one is) and 0 times anything finite is 0
                return "out" if lhs > 0 else "in"
            d_lo = d_hi = lhs
            r_lo = r_hi = rhs
            e = 2 * (u * d_hi + 6 * u * r_hi + (1 + t) * self.tiny)
            if not exact_med:
                if corner or mmax is None:
                    e += 2 * (4 + 16 * t) * u * A
                else:
                    # medians within 4u of themselves (see repl_tol): |x - med| moves by 5u|med|; the deviations of the
                    # window's pixels by u*dev + 5u*mmax each, an increasing map, so their median (and its pad values,
                    # relative roundings of non-negative numbers) by 3u*mad + 5.1u*mmax; times 1.4826 t
                    e += 2 * (5 * u * abs(unrat(cell["repl"])) + 8 * t * u * mmax + 3 * u * r_hi)
        e += 2 * self.t_rel * r_hi
        if self.t_zeroed:
            e += r_hi
        if d_lo - r_hi > e:
            return "out"
        if r_lo - d_hi >= e:
            return "in"
        return "near"


class C13(Prop):
    id = "C13"
    anchored = ["src/pewlib/process/filters.py", "src/pewlib/process/calc.py"]
    cases = {"quick": 380, "thorough": 8000}
    rule = ("25%: 1-D (n = b..60) and 2-D (sides b..max(26, 2b+3)) dyadic images: noise, ramps, plateaus, two-valued ties, constants, with "
            "isolated spikes, spike clusters and constant regions; odd windows 3..15 (1-D) / 3..15 per axis with area < 64 (2-D; equal "
            "or not, int or tuple), thresholds 0, finite, inf; C/F/strided layouts, read-only or writeable; offsets 0/1000/2^20. "
            "16%: float stream `fconst` - constant images of non-dyadic doubles (k/3, k/10, k/1000, pi-like, large offsets, "
            "1e-300..1e300, random) and of dyadic ones (few bits: window sums exact; many bits: not), windows 3..13 (1-D) / 3..9 per "
            "axis (2-D), thresholds 0, 5e-324, 1e-300, 1e-16, ..., 1, 3, 1e6, 1e300, inf, both filters, dtypes float64 / float32 / integer, "
            "C/F/strided/reversed, read-only: the input is demanded back bit for bit. 22%: float stream `fgen` - arbitrary doubles "
            "(Gaussian, uniform, log-normal, plateaus, two-valued, ramps with noise; magnitudes 1e-120..1e120; spikes, clusters, "
            "constant regions), float32 and integer dtypes: a pixel is undetermined only when its exact margin |x-centre| - t*spread "
            "(rationals from the driver) is within the rounding bound of FloatTol, computed from the magnitudes the pixel's own window "
            "holds (about (N+4)*2^-53*max|window|*(1+t)), otherwise its value is demanded; replaced values to Lean's replBound = "
            "2(N+2)*2^-53*rabs, rabs = the mean MAGNITUDE OF THE NEIGHBOURS that are averaged (driver: the mean filter on the image of "
            "absolute values), never the magnitude of the replaced pixel or of the image (mean), or exactly (median, windows without "
            "rounded pad values). 10%: `hdr` - the float stream with isolated spikes and spike clusters 1e8..1e18 (15%: ..1e60, 15%: up "
            "to |x| = 1e150) times the background (levels 1e-140..1e50; level+noise, zero-mean noise, log-normal, ramp, flat, zeros), both "
            "signs, a quarter of the spikes on the border, 1-D and 2-D, both filters, float64 / float32 (|x| <= 1e18) / int64 / int32. "
            "8%: `ints` - every integer dtype (uint8/16/32/64, int8/16/32/64), values low in the dtype's range (pixels below their "
            "window's median / mean), high in it, over the whole range (|x| <= 2^46), counts with ties, signed; spikes to the ends of "
            "the range: decisions and replacements evaluated exactly on the integer values. 7%: `history` - 2-3 calls in one process: "
            "the same array object again after in-place edits (pixels set, region overwritten, whole buffer shifted, another frame "
            "copied in) with the same / another threshold, block, filter; another array of the same shape in between; a view of the "
            "previous array; every call judged against the Lean specification of the contents at the time of the call. 5%: `tie` - "
            "mean filter, a planted window whose statistics are all exactly representable and whose centre is exactly on the decision "
            "boundary |x-m| = t*s (kept: 'more than'), or one step inside / outside; Lean's meanDecisionExact certifies per pixel that "
            "every float evaluation takes the exact decision (such pixels are demanded in every stream). 7%: `flat0` - float64/float32, both filters: windows "
            "whose neighbours are all equal (ground of exactly 0, of one value with exact multiples, of a subnormal pedestal, plateaus; "
            "median: also heavy ties) around deviating pixels, thresholds at the extreme finite ends (5e-324..1e-300, 1e150..1.7e308; "
            "float32 1.5e-45..3e38) or ordinary, deviations ordinary or subnormal: the spread is exactly 0 in floats (Lean "
            "flatSpreadExact; MAD = 0), such pixels are judged exactly - replaced iff the deviation is not 0. One case in eight (all "
            "streams but the large class) is stored big-endian. non-trivial = at least one interior pixel is replaced, or a border "
            "pixel is replaced, or the image is constant, or the threshold is 0/inf, or a pixel is exactly on the boundary; distinct by "
            "canonical case hash. "
            "Large class (targeted, data drawn from VERIF_SEED): 2-D images above 2^16 (quick and thorough) and above 2^17 "
            "(thorough) elements, 1-D signals above 2^16 / 2^17 samples, both filters, windows 3..7, integer noise / gradient / "
            "steps / banded-amplitude data (bell-shaped or uniform noise) with many spikes, thresholds 1.2..3 (many pixels a few units from the "
            "threshold, none within the float tolerance by construction of the data); 2 per quick run, 9 per thorough run; "
            "mechanism model compared at every pixel (left out for the second quick case and the 1-D 2^17 case); specification at "
            "every pixel where mechanism and implementation differ, every changed pixel (capped), a random sample and full "
            "rows/columns/segments (see module docstring). Targeted: the repo's own examples, single windows, the kernel-evaluated "
            "witnesses, 14 high-dynamic-range inputs (3e17 / 2.5e13 / 1e17 glitches on a background near 1, -1e150 on zeros, 1e-83 on "
            "1e-100), 4 histories")
    trusted = ["np.pad(mode='mean'|'median', stat_length), np.mean/np.std(where=), np.median, np.where, as_strided as documented; "
               "dyadic streams: float evaluation of |x-m| > t*s is within 1e-9 relative (+1e-12*max|x|*(1+t) absolute) of the exact "
               "value: pixels whose exact margin is smaller may take either value; replacement values compared at 1e-9 relative",
               "float streams: IEEE arithmetic follows the standard model |fl(a op b) - (a op b)| <= u*|a op b| (u = 2^-53, float32 "
               "2^-24) with correctly rounded sqrt, and NumPy sums a window with at most N-1 rounded additions in some order; the "
               "bounds of FloatTol (doubled) follow from that, every quantity in them being a statistic of the pixel's own window "
               "(for the median filter: of the windows of its window's pixels); the bound on a replaced value is Lean's replBound "
               "(theorems rounded_window_within_bound, rounded_mean_any_order: any order of summation, pad values included); x -> "
               "x(1+-4u) is increasing, so the median of a window whose pad values carry one relative rounding moves by at most 4u "
               "relative to itself; the bound inside which a changed constant image counts as the known finding is Lean's "
               "constBound (theorem rounded_mean_of_constant_within_bound) with depth h0+h1+b0*b1",
               "exact decisions: where Lean's meanDecisionExact holds (all partial sums in any order, means, deviations, squares, "
               "variance, its root and t times it are numbers of the computing format) correctly rounded IEEE operations return "
               "every intermediate result unchanged, so the float decision is the exact one - demanded also exactly on the boundary",
               "histories: the harness holds the array objects and edits them in place between the calls; object identity, views "
               "and in-place edits are harness-level facts (the Lean model is a function of the contents)",
               "the binary64 mechanism Pew.Filters.F64 (NumPy's order of evaluation) is compared with pewlib bit for bit and the "
               "agreement reported as a feature (f64-mechanism:bit-equal); it is not part of the verdict - the property fixes no order"]
    assumptions = ["odd windows; image at least one window per axis; no NaN; |x| <= 1e300 in constant images and <= 1e150 otherwise "
                   "(float32 high-dynamic-range images: <= 1e18; no overflow of a window sum, of the sum of two pad values in "
                   "np.median, or of a squared deviation)",
                   "dyadic streams: float64 images with dyadic values (window sums are exact)",
                   "float32 images: thresholds representable in float32 (NumPy converts the Python float to the array dtype); "
                   "other thresholds are tolerated through the bound, not demanded",
                   "integer images: |pixel| <= 2^46 (every window sum is exact in binary64 and every pixel converts exactly to "
                   "float64); np.pad rounds the pad values (half to even) to the integer dtype; the mechanism model does the "
                   "same (pad statistic rint o mean / rint o median, theorems interior_any_pad_*)"]

    # ------------------------------------------------------------------ generation
    def gen_data(self, rng, shape):
        n = int(np.prod(shape))
        feats = []
        style = rng.choice(["noise", "noise", "ramp", "plateau", "two", "constant", "smallnoise"])
        a = np.zeros(shape, dtype=np.int64)
        idx = np.indices(shape)
        if style == "noise":
            a = np.array([rng.randint(-40, 40) for _ in range(n)], dtype=np.int64).reshape(shape)
        elif style == "smallnoise":
            a = np.array([rng.randint(0, 3) for _ in range(n)], dtype=np.int64).reshape(shape) + 16
        elif style == "ramp":
            a = sum((k + 1) * rng.randint(-3, 3) * idx[k] for k in range(len(shape))) + rng.randint(-5, 5)
        elif style == "plateau":
            w = rng.randint(2, 6)
            lv = [rng.randint(-20, 20) for _ in range(64)]
            a = np.vectorize(lambda *ix: lv[sum(i // w for i in ix) % 64])(*idx)
        elif style == "two":
            a = np.array([rng.choice([0, 8]) for _ in range(n)], dtype=np.int64).reshape(shape)
        elif style == "constant":
            a = np.full(shape, rng.randint(-9, 9), dtype=np.int64)
        a = np.array(a, dtype=np.int64).reshape(shape)
        feats.append("data:" + style)
        if style != "constant" or rng.random() < 0.3:
            if rng.random() < 0.7:  # isolated spikes
                for _ in range(rng.randint(1, 4)):
                    p = tuple(rng.randrange(s) for s in shape)
                    a[p] += rng.choice([-1, 1]) * rng.choice([7, 50, 400, 4000])
                feats.append("spikes")
            if rng.random() < 0.35:  # a cluster of adjacent spikes
                p = [rng.randrange(s) for s in shape]
                ext = [rng.randint(1, 3) for _ in shape]
                sl = tuple(slice(q, q + e) for q, e in zip(p, ext))
                a[sl] += rng.choice([-1, 1]) * rng.choice([30, 300])
                feats.append("cluster")
            if rng.random() < 0.3:  # a constant region
                p = [rng.randrange(s) for s in shape]
                ext = [rng.randint(2, 12) for _ in shape]
                sl = tuple(slice(q, q + e) for q, e in zip(p, ext))
                a[sl] = rng.randint(-20, 20)
                feats.append("constant-region")
        return [int(v) for v in a.ravel()], feats

    # ------------------------------------------------------------------ large images (above 2^16 / 2^17 elements)
    def gen_large_data(self, rng, shape):
        n = int(np.prod(shape))
        idx = np.indices(shape)

        bell = rng.random() < 0.75  # bell-shaped integer noise: at thresholds 2..3 a few percent of the pixels are just beyond
        # the threshold and as many just inside it; uniform noise has its near-threshold pixels at 1.2..1.5

        def noise(amp):
            if bell:
                return np.array([round(rng.gauss(0.0, amp / 2.0)) for _ in range(n)], dtype=np.int64).reshape(shape)
            return np.array(rng.choices(range(-amp, amp + 1), k=n), dtype=np.int64).reshape(shape)

        style = rng.choice(["noise", "noise", "gradient", "steps", "bands"])
        if style == "noise":
            a = noise(rng.choice([5, 12, 40]))
        elif style == "gradient":
            a = sum(rng.randint(-2, 2) * idx[k] for k in range(len(shape))) + noise(rng.choice([3, 8]))
        elif style == "steps":
            w = rng.randint(16, 48)
            lv = np.array([rng.randint(-60, 60) for _ in range(64)], dtype=np.int64)
            a = lv[sum(idx[k] // w for k in range(len(shape))) % 64] + noise(rng.choice([3, 6]))
        else:  # bands of different noise amplitude along the first axis: the spread changes from window to window
            w = rng.randint(20, 90)
            lo, hi = noise(rng.choice([2, 4])), noise(rng.choice([15, 40]))
            a = np.where((idx[0] // w) % 2 == 0, lo, hi)
        a = np.array(a, dtype=np.int64).reshape(shape)
        feats = ["ldata:" + style, "lnoise:" + ("bell" if bell else "uniform")]
        if rng.random() < 0.85:  # many isolated spikes
            for _ in range(max(3, n // rng.choice([300, 1000, 3000]))):
                p = tuple(rng.randrange(s) for s in shape)
                a[p] += rng.choice([-1, 1]) * rng.choice([12, 40, 300])
            feats.append("spikes")
        if rng.random() < 0.5:  # a few clusters of adjacent spikes
            for _ in range(rng.randint(1, 6)):
                p = [rng.randrange(s) for s in shape]
                sl = tuple(slice(q, q + rng.randint(1, 3)) for q in p)
                a[sl] += rng.choice([-1, 1]) * rng.choice([30, 300])
            feats.append("cluster")
        if rng.random() < 0.4:  # a constant region
            p = [rng.randrange(s) for s in shape]
            sl = tuple(slice(q, q + rng.randint(2, 40)) for q in p)
            a[sl] = rng.randint(-20, 20)
            feats.append("constant-region")
        return [int(v) for v in a.ravel()], feats

    def gen_large(self, rng, kind, ndim, above, with_model, wide=False):
        """one image with more than `above` (2^16 or 2^17) elements"""
        if rng.random() < 0.5:
            block = [rng.choice([3, 5, 5, 7])] * ndim
        else:
            block = [rng.choice([3, 5, 7]) for _ in range(ndim)]
        if ndim == 1:
            shape = [above + rng.randint(1, 4000)]
        else:
            n1 = rng.choice([1000, 2000]) if wide else rng.choice([60, 130, 256, 256, 260, 512])
            n0 = -(-(above + rng.randint(1, 12000)) // n1)
            shape = [n0, n1]
        data, feats = self.gen_large_data(rng, shape)
        # thresholds at which the noise puts a few percent of the pixels just beyond the threshold (and as many just inside)
        thr = rng.choice([1.5, 2.0, 2.0, 2.5, 2.9, 3.0] if "lnoise:bell" in feats else [1.2, 1.2, 1.5, 1.5, 2.0])
        easy = rng.random() < 0.75
        return {"kind": kind, "shape": shape, "data": data, "den": 1 if easy else rng.choice([1, 4]),
                "offset": 0 if easy else rng.choice([0, 1000]), "block": block,
                "block_int": len(set(block)) == 1 and rng.random() < 0.5,
                "threshold": float(thr).hex(),
                "layout": rng.choice(["C", "C", "C", "F", "strided"]), "gen": ["large-targeted"] + feats,
                "with_model": with_model, "sample_seed": rng.randrange(2 ** 30)}

    def large_cases(self, tier):
        """the large class, one generator per (VERIF_SEED, tier, slot): quick = a 2-D median image plus one of
        {2-D mean, 1-D median, 1-D mean} (rotating with the seed, specification only); thorough = 9 cases"""
        seed = int(os.environ.get("VERIF_SEED", "0"))
        a16, a17 = 2 ** 16, 2 ** 17
        if tier == "quick":
            second = [("mean", 2), ("median", 1), ("mean", 1)][seed % 3]
            plan = [("median", 2, a16, True, False), (second[0], second[1], a16, False, False)]
        else:
            k17 = ["median", "mean"][seed % 2]
            plan = [("median", 2, a16, True, False), ("mean", 2, a16, True, False), ("median", 1, a16, True, False),
                    ("mean", 1, a16, True, False), ("median", 2, a17, True, False), ("mean", 2, a17, True, False),
                    ("median", 2, a16, True, True), ("median", 2, a16, True, False), (k17, 1, a17, False, False)]
        for slot, (kind, ndim, above, with_model, wide) in enumerate(plan):
            yield self.gen_large(random.Random(f"C13-large:{seed}:{tier}:{slot}"), kind, ndim, above, with_model, wide)

    def generate(self, rng, tier):
        r = rng.random()
        if r < 0.16:
            return self.gen_fconst(rng)
        if r < 0.38:
            return self.gen_fgen(rng)
        if r < 0.48:
            return self.gen_hdr(rng)
        if r < 0.56:
            return self.gen_ints(rng)
        if r < 0.63:
            return self.gen_history(rng)
        if r < 0.68:
            return self.gen_tie(rng)
        if r < 0.75:
            return self.gen_flat(rng)
        ndim = rng.choice([1, 2, 2])
        kind = rng.choice(["mean", "median"])
        if ndim == 1:
            block = [rng.choice([3, 3, 5, 5, 7, 9, 11, 13, 15])]
        else:
            while True:  # windows up to 15 along one axis; the area is kept below 64 (cost of the exact 2-D median specification)
                if rng.random() < 0.5:
                    block = [rng.choice([3, 3, 5, 5, 7])] * 2
                else:
                    block = [rng.choice([3, 5, 7, 9, 11, 13, 15]) for _ in range(2)]
                if block[0] * block[1] < 64:
                    break
        shape = []
        for b in block:
            hi = 60 if ndim == 1 else max(26, 2 * b + 3)
            r = rng.random()
            if r < 0.12:
                s = b  # exactly one window
            elif r < 0.3:
                s = rng.randint(b, min(hi, 2 * b))  # no interior pixel along this axis
            else:
                s = rng.randint(min(hi, 2 * b + 1), hi)
            shape.append(s)
        data, feats = self.gen_data(rng, shape)
        t = rng.choice(["0", "0", "1/2", "1", "3/2", "2", "3", "3", "5", "10", "inf", "inf", "r", "r"])
        if t == "inf":
            thr = "inf"
        elif t == "r":
            thr = float(rng.choice([0.1, 0.3, 0.75, 1.2, 2.5, 2.9, 4.4, 1e-3, 1e3])).hex()
        else:
            thr = float(Fraction(t)).hex()
        return {"kind": kind, "shape": shape, "data": data, "den": rng.choice([1, 1, 4, 8]),
                "offset": rng.choice([0, 0, 0, 1000, 2 ** 20]), "block": block,
                "block_int": len(set(block)) == 1 and rng.random() < 0.5,
                "threshold": thr, "layout": rng.choice(["C", "C", "F", "strided"]), "gen": feats,
                "readonly": rng.random() < 0.25, "byteorder": rng.choice(BYTEORDERS)}

    # ------------------------------------------------------------------ float streams
    F32_THR = ["0", "0", 2.0 ** -20, 0.25, 0.5, 0.75, 1.0, 1.5, 2.0, 2.5, 3.0, 3.0, 5.0, 10.0, 2.0 ** 20, "inf", "inf"]

    def gen_geometry(self, rng, ndim, wins, hi):
        if rng.random() < 0.5:
            block = [rng.choice(wins)] * ndim
        else:
            block = [rng.choice(wins) for _ in range(ndim)]
        shape = []
        for b in block:
            r = rng.random()
            if r < 0.12:
                shape.append(b)  # exactly one window
            elif r < 0.3:
                shape.append(rng.randint(b, min(hi, 2 * b)))  # no interior pixel along this axis
            else:
                shape.append(rng.randint(min(hi, 2 * b + 1), max(hi, 2 * b + 3)))
        return block, shape

    @staticmethod
    def with_interior(rng, shape, block, prob=0.8):
        """with probability `prob`: every axis long enough for pixels a full window from both borders"""
        if rng.random() < prob:
            return [max(s_, 2 * b + 1 + rng.randint(0, 3)) for s_, b in zip(shape, block)]
        return shape

    def gen_const_value(self, rng):
        cls = rng.choice(["third", "tenth", "milli", "pi-like", "offset", "tiny", "underflow-sq", "small", "huge", "random", "random",
                          "dyadic-few", "dyadic-few", "dyadic-many"])
        if cls == "third":
            c = rng.choice([1, 2, 4, 5, 7, 10, 100]) / 3
        elif cls == "tenth":
            c = rng.randint(1, 99) / 10
        elif cls == "milli":
            c = 1e-3 * rng.randint(1, 999)
        elif cls == "pi-like":
            c = rng.choice([math.pi, math.e, math.sqrt(2), math.log(2), math.pi * 1e5, math.e * 1e-7, 1 / math.pi])
        elif cls == "offset":
            c = rng.choice([1e6 + 0.1, 1e15 + 0.3, 123456.789, 2 ** 20 + 1 / 3, 1e9 + 1e-3 * rng.randint(1, 999)])
        elif cls == "tiny":
            c = (0.1 + rng.random()) * 10.0 ** -rng.randint(290, 305)
        elif cls == "underflow-sq":  # ulp(c)^2 is below the smallest double: the spread of the rounding noise is 0
            c = (0.1 + rng.random()) * 10.0 ** -rng.randint(147, 170)
        elif cls == "small":
            c = (0.1 + rng.random()) * 10.0 ** -rng.randint(20, 40)
        elif cls == "huge":
            c = (0.05 + 0.9 * rng.random()) * 10.0 ** rng.choice([300, 200, 160, 150])
        elif cls == "random":
            c = rng.choice([rng.random(), rng.uniform(-1e3, 1e3), rng.uniform(-1e6, 1e6)])
        elif cls == "dyadic-few":
            c = rng.choice([0.25, 1.25, 3 * 2.0 ** -20, 1000.5, 96.0, -7.5, 2.0 ** -40, 0.0, 5.0])
        else:
            c = rng.choice([1 + 2.0 ** -52, (2 ** 53 - 1) / 2 ** 30, 1 - 2.0 ** -53, 3 + 2.0 ** -50])
        if rng.random() < 0.25:
            c = -c
        return c, cls

    def gen_dtype(self, rng):
        return rng.choice(["float64"] * 6 + ["float32"] * 2 + [rng.choice(INT_DTYPES)])

    def gen_fconst(self, rng):
        ndim = rng.choice([1, 2, 2])
        kind = rng.choice(["mean", "mean", "median"])
        block, shape = self.gen_geometry(rng, ndim, [3, 5, 7, 7, 9, 11, 13] if ndim == 1 else [3, 5, 7, 9], 40 if ndim == 1 else 18)
        dtype = self.gen_dtype(rng)
        c, cls = self.gen_const_value(rng)
        if dtype in INT_DTYPES:
            lo_i, hi_i = int_range(dtype, 1000)
            c, cls = float(rng.randint(max(lo_i, -1000), min(hi_i, 255 if dtype.startswith("u") else 1000))), "integer"
        elif dtype == "float32":
            c = float(np.float32(c)) if abs(c) < 1e38 else float(np.float32(math.copysign(1e30, c) * (0.1 + rng.random())))
        if dtype == "float32":
            thr = rng.choice(self.F32_THR)
        else:
            thr = rng.choice(["0", "0", 5e-324, 1e-300, 1e-16, 1e-8, 0.25, 0.5, 0.9, 1.0, 1.1, 1.5, 2.0, 3.0, 3.0, 10.0, 1e6, 1e300,
                              "inf", "inf"])
        return {"stream": "fconst", "kind": kind, "shape": shape, "fconst": hexf(c), "block": block,
                "block_int": len(set(block)) == 1 and rng.random() < 0.5,
                "threshold": thr if isinstance(thr, str) and thr == "inf" else hexf(float(thr)), "dtype": dtype,
                "layout": rng.choice(["C", "C", "F", "strided", "reversed"]), "readonly": rng.random() < 0.3,
                "byteorder": rng.choice(BYTEORDERS), "gen": ["const:" + cls]}

    def gen_fgen(self, rng):
        ndim = rng.choice([1, 2, 2])
        kind = rng.choice(["mean", "median"])
        block, shape = self.gen_geometry(rng, ndim, [3, 3, 5, 5, 7, 9], 48 if ndim == 1 else 20)
        dtype = self.gen_dtype(rng)
        n = int(np.prod(shape))
        idx = np.indices(shape)
        style = rng.choice(["gauss", "gauss", "uniform", "lognormal", "plateau", "two", "ramp", "thirds", "fine"])
        if dtype in INT_DTYPES and style == "fine":
            style = "gauss"
        if style == "fine":  # structure a few hundred units in the last place above a large common level: far above the
            # rounding bound, far below any fixed relative tolerance
            c0, q = rng.choice([1.0, 1 / 3, 1e5 / 7, 1e-9 * math.pi]), 2.0 ** (-45 if dtype == "float64" else -17)
            a = np.array([c0 * (1 + rng.randint(-100, 100) * q) for _ in range(n)])
        elif style == "gauss":
            mu, sg = rng.choice([0.0, 1.0, 1e3, -5.0]), rng.choice([1.0, 1e-3, 0.1, 7.0])
            a = np.array([rng.gauss(mu, sg) for _ in range(n)])
        elif style == "uniform":
            a = np.array([rng.random() for _ in range(n)])
        elif style == "lognormal":
            a = np.array([rng.lognormvariate(0.0, 1.0) for _ in range(n)])
        elif style == "plateau":
            w = rng.randint(2, 6)
            lv = [rng.uniform(-20, 20) for _ in range(64)]
            a = np.array([lv[int(sum(i // w for i in ix)) % 64] for ix in idx.reshape(len(shape), -1).T])
        elif style == "two":
            lo, hi = rng.random(), 1 + rng.random()
            a = np.array([rng.choice([lo, hi]) for _ in range(n)])
        elif style == "ramp":
            a = sum(rng.uniform(-1, 1) * idx[k] for k in range(len(shape))).ravel() + np.array([rng.gauss(0, 0.05) for _ in range(n)])
        else:  # many ties at non-dyadic values
            a = np.array([rng.randint(0, 6) / 3 for _ in range(n)])
        a = np.array(a, dtype=np.float64).reshape(shape)
        feats = ["fdata:" + style]
        sd = float(np.std(a)) or 1.0
        if style == "fine" and dtype == "float32":
            sd = float(np.std(a.astype(np.float32).astype(np.float64))) or 1.0
        if rng.random() < 0.7:
            for _ in range(rng.randint(1, 4)):
                q = tuple(rng.randrange(s) for s in shape)
                a[q] += rng.choice([-1, 1]) * rng.choice([3.3, 11.0, 97.0, 1013.0]) * sd
            feats.append("spikes")
        if rng.random() < 0.3:
            q = [rng.randrange(s) for s in shape]
            sl = tuple(slice(v, v + rng.randint(1, 3)) for v in q)
            a[sl] += rng.choice([-1, 1]) * rng.choice([9.0, 77.0]) * sd
            feats.append("cluster")
        if rng.random() < 0.3:
            q = [rng.randrange(s) for s in shape]
            sl = tuple(slice(v, v + rng.randint(2, 12)) for v in q)
            a[sl] = rng.uniform(-3, 3)
            feats.append("constant-region")
        if dtype in INT_DTYPES:
            lo_i, hi_i = int_range(dtype, 30000)
            a = np.rint(a * rng.choice([1, 10, 100]) / max(1.0, float(np.max(np.abs(a))) / 100))
            a = np.clip(a + (100 if dtype.startswith("u") else 0), lo_i, hi_i)
        elif dtype == "float32":
            a = a * rng.choice([1.0, 1.0, 1e-3, 1e3])
        else:
            a = a * rng.choice([1.0, 1.0, 1.0, 1e-3, 1e6, 1e-120, 1e120])
        if style == "fine":  # keep the levels apart: spikes of a few hundred units too
            pass
        if dtype == "float32":
            thr = rng.choice(self.F32_THR)
        else:
            thr = rng.choice(["0", "0", 0.5, 1.0, 1.5, 2.0, 3.0, 3.0, 5.0, 10.0, "inf", 0.1, 0.3, 0.75, 1.2, 2.5, 2.9, 4.4, 1e-3, 1e3])
        return {"stream": "fgen", "kind": kind, "shape": shape, "fdata": [hexf(v) for v in a.ravel()], "block": block,
                "block_int": len(set(block)) == 1 and rng.random() < 0.5,
                "threshold": thr if isinstance(thr, str) and thr == "inf" else hexf(float(thr)), "dtype": dtype,
                "layout": rng.choice(["C", "C", "F", "strided", "reversed"]), "readonly": rng.random() < 0.3, "gen": feats,
                "byteorder": rng.choice(BYTEORDERS)}

    # ------------------------------------------------------------------ float stream, high dynamic range
    def gen_hdr(self, rng):
        """isolated spikes and spike clusters 1e8 .. 1e18 (a fifth: up to 1e150) times the background they sit
        on, both signs, anywhere (a quarter forced onto the border), 1-D and 2-D, both filters.  The replacement
        of such a pixel is a statistic of its neighbours and is demanded to the rounding of THEIR magnitude."""
        ndim = rng.choice([1, 2, 2])
        kind = rng.choice(["mean", "mean", "median"])
        block, shape = self.gen_geometry(rng, ndim, [3, 3, 5, 5, 7, 9, 11] if ndim == 1 else [3, 3, 5, 7], 40 if ndim == 1 else 15)
        shape = self.with_interior(rng, shape, block)
        dtype = rng.choice(["float64"] * 6 + ["float32"] * 2 + ["int64", "int32"])
        n = int(np.prod(shape))
        idx = np.indices(shape)
        if dtype == "float64":
            bexp, cap = rng.choice([0, 0, 0, -3, 3, -30, 30, -100, 50, -140]), 150
        elif dtype == "float32":
            bexp, cap = rng.choice([0, 0, -3, -10]), 18  # squares of |x| <= 1e18 summed over a window stay finite in binary32
        else:
            bexp, cap = 0, (13 if dtype == "int64" else 9)  # window sums stay below 2^53 (int32: below 2^31 per pixel)
        level = 10.0 ** bexp
        style = rng.choice(["level", "level", "noise", "lognormal", "ramp", "flat", "zeros"])
        if dtype in INT_DTYPES:
            a = np.array([rng.randint(0, 40) for _ in range(n)], dtype=np.float64) if style not in ("flat", "zeros") else \
                np.full(n, 0.0 if style == "zeros" else float(rng.randint(1, 40)))
        elif style == "level":
            a = np.array([level * (1 + 0.1 * rng.gauss(0, 1)) for _ in range(n)])
        elif style == "noise":
            a = np.array([level * rng.gauss(0, 1) for _ in range(n)])
        elif style == "lognormal":
            a = np.array([level * rng.lognormvariate(0.0, 0.5) for _ in range(n)])
        elif style == "ramp":
            a = level * (1 + sum(rng.uniform(-0.05, 0.05) * idx[k] for k in range(ndim)).ravel()
                         + np.array([rng.gauss(0, 0.02) for _ in range(n)]))
        elif style == "flat":
            a = np.full(n, level * rng.choice([1.0, 1 / 3, 0.7, 1.25]))
        else:
            a = np.zeros(n)
        a = np.array(a, dtype=np.float64).reshape(shape)
        feats = ["hdr", "hdr-bg:" + style]
        unit = level

        def spike():
            r = rng.random()
            lo = 8
            if r < 0.7 or cap <= 18:
                k = rng.uniform(lo, min(18, cap - bexp))
                cls = "1e8..1e18"
            elif r < 0.85:
                k = rng.uniform(18, min(60, cap - bexp))
                cls = "1e18..1e60"
            else:
                k = rng.uniform(min(60, cap - bexp - 1), cap - bexp - 0.5)
                cls = "to-1e150"
            v = rng.choice([-1.0, 1.0]) * unit * 10.0 ** k * (0.5 + 0.5 * rng.random())
            lim = 10.0 ** cap
            return max(-lim, min(lim, v)), cls

        def place(border):
            q = []
            for s_, b in zip(shape, block):
                if border or s_ <= 2 * b:
                    q.append(rng.choice([0, s_ - 1, rng.randrange(s_)]))
                else:
                    q.append(rng.randrange(b, s_ - b))
            return tuple(q)

        signs = set()
        for _ in range(rng.randint(1, 4)):  # isolated spikes
            q = place(rng.random() < 0.25)
            v, cls = spike()
            a[q] = v
            signs.add(v < 0)
            feats.append("hdr-ratio:" + cls)
        feats.append("hdr:isolated")
        if rng.random() < 0.4:  # a cluster of adjacent huge values (their windows contain each other)
            q = place(False)
            v, cls = spike()
            ext = [rng.randint(1, 3) for _ in shape]
            sl = tuple(slice(c, c + e) for c, e in zip(q, ext))
            sub = a[sl]
            a[sl] = np.array([v * rng.choice([1.0, 1.0, -1.0, 0.5, 1e-3]) * (0.5 + rng.random()) for _ in range(sub.size)]).reshape(sub.shape)
            feats += ["hdr:cluster", "hdr-ratio:" + cls]
            signs.add(v < 0)
        feats += ["hdr-sign:" + ("both" if len(signs) == 2 else "neg" if True in signs else "pos")]
        if dtype in INT_DTYPES:
            a = np.rint(a)
            if dtype == "int32":
                a = np.clip(a, -2.0e9, 2.0e9)
        if dtype == "float32":
            thr = rng.choice([0.5, 1.0, 1.5, 2.0, 3.0, 3.0, 5.0, 10.0, "0", 2.0 ** 10])
        else:
            thr = rng.choice([0.5, 1.0, 1.5, 2.0, 3.0, 3.0, 5.0, 10.0, "0", 1e3, 0.3, 2.9])
        return {"stream": "fgen", "kind": kind, "shape": shape, "fdata": [hexf(v) for v in a.ravel()], "block": block,
                "block_int": len(set(block)) == 1 and rng.random() < 0.5,
                "threshold": hexf(float(thr)), "dtype": dtype,
                "layout": rng.choice(["C", "C", "F", "strided", "reversed"]), "readonly": rng.random() < 0.3, "gen": sorted(set(feats)),
                "byteorder": rng.choice(BYTEORDERS)}

    def hdr_targeted(self):
        """deterministic high-dynamic-range inputs: a gently varying signal / image with a glitch of 3e17, 2.5e13, 1e17
        (and an ordinary spike), the window of the kernel-evaluated witness f64_subtracted_mean_cancels, a zero
        background, a negative glitch on the border"""
        base = {"stream": "fgen", "block_int": False, "layout": "C", "dtype": "float64", "readonly": False, "gen": ["targeted-float", "hdr"]}
        sig = [1.2 + 0.1 * math.sin(0.7 * i) + 0.05 * math.cos(1.3 * i) for i in range(60)]
        sig[17], sig[30], sig[43] = 3.0e17, 7.0, 2.5e13
        img = [[0.8 + 0.05 * math.sin(0.9 * y) * math.cos(0.6 * x) + 0.01 * ((y * 7 + x * 3) % 5) for x in range(23)] for y in range(19)]
        img[9][11], img[5][16] = 1.0e17, 40.0
        flat = [v for r in img for v in r]
        for kind in ("mean", "median"):
            for blk, thr in ((5, 3.0), (7, 2.0)):
                yield {**base, "kind": kind, "shape": [60], "fdata": [hexf(v) for v in sig], "block": [blk], "threshold": hexf(thr)}
            for blk, thr in (([3, 5], 3.0), ([3, 3], 1.0)):
                yield {**base, "kind": kind, "shape": [19, 23], "fdata": [hexf(v) for v in flat], "block": blk, "threshold": hexf(thr)}
            # the window 1, 1.5, 3e17, 1.25, 1 of the witness theorem, at a pixel a full window from either end
            yield {**base, "kind": kind, "shape": [17], "block": [5], "threshold": hexf(3.0), "gen": ["targeted-float", "hdr", "witness"],
                   "fdata": [hexf(v) for v in (1.0, 1.25, 1.0, 1.5, 1.25, 1.0, 1.25, 1.0, 1.5, 3.0e17, 1.25, 1.0, 1.5, 1.0, 1.25, 1.0, 1.5)]}
            z = [0.0] * 49
            z[24] = -1e150
            yield {**base, "kind": kind, "shape": [7, 7], "fdata": [hexf(v) for v in z], "block": [3, 3], "threshold": hexf(1.0)}
            e = [1e-100 * (1 + 0.01 * ((5 * i) % 7)) for i in range(25)]
            e[0], e[12] = -4e-83, 6e-88
            yield {**base, "kind": kind, "shape": [25], "fdata": [hexf(v) for v in e], "block": [5], "threshold": hexf(2.0)}

    # ------------------------------------------------------------------ pixels exactly on the decision boundary
    def gen_tie(self, rng):
        """mean filter, a window planted in integer noise whose statistics are all exactly representable: the neighbours are
        half c-g, half c+g (their mean c, their standard deviation g), the pixel is c + N*f (window mean c + f, deviation
        |f|(N-1)) and the threshold t = |f|(N-1)/g: the pixel is EXACTLY on the boundary and must be kept ('more than');
        or one step inside / outside it.  Lean's meanDecisionExact confirms per pixel that a float evaluation is exact."""
        ndim = rng.choice([1, 2, 2])
        block, shape = self.gen_geometry(rng, ndim, [3, 3, 5, 5, 7, 9, 11] if ndim == 1 else [3, 3, 5, 7], 44 if ndim == 1 else 18)
        for k in range(ndim):  # room for an interior pixel
            shape[k] = max(shape[k], 2 * block[k] + 1 + rng.randint(0, 4))
        nwin = int(np.prod(block))
        while True:
            tq = Fraction(rng.choice(["1/2", "3/4", "1", "5/4", "3/2", "2", "5/2", "3", "4", "6", "8", "1/4"]))
            f = rng.choice([-1, 1]) * rng.randint(1, 6)
            g = Fraction(abs(f) * (nwin - 1)) / tq
            if g.denominator == 1 and 1 <= g <= 4000:
                g = int(g)
                break
        c = rng.randint(-50, 50)
        step = rng.choice(["on", "on", "on", "outside", "inside"])
        # one unit of N further from / nearer to the window mean: deviation (|f| +- 1)(N-1)
        f_used = f + (0 if step == "on" else (1 if f > 0 else -1) * (1 if step == "outside" else -1))
        n = int(np.prod(shape))
        a = np.array([rng.randint(-30, 30) for _ in range(n)], dtype=np.int64).reshape(shape)
        centre = tuple(rng.randrange(b, s_ - b) for b, s_ in zip(block, shape))
        sl = tuple(slice(q - b // 2, q + b // 2 + 1) for q, b in zip(centre, block))
        half = [c - g] * ((nwin - 1) // 2) + [c + g] * ((nwin - 1) // 2)
        rng.shuffle(half)
        win = half[:nwin // 2] + [c + nwin * f_used] + half[nwin // 2:]
        a[sl] = np.array(win, dtype=np.int64).reshape(block)
        return {"kind": "mean", "shape": shape, "data": [int(v) for v in a.ravel()], "den": rng.choice([1, 1, 2, 4]),
                "offset": rng.choice([0, 0, 1000, 2 ** 20]), "block": block,
                "block_int": len(set(block)) == 1 and rng.random() < 0.5, "threshold": float(tq).hex(),
                "layout": rng.choice(["C", "C", "F", "strided"]), "gen": ["tie-class", "tie-step:" + step],
                "readonly": rng.random() < 0.25}

    # ------------------------------------------------------------------ spread exactly 0, thresholds and deviations at the ends
    F64_END_THR = [5e-324, 1e-320, 1e-310, 1e-300, 1e-200, 1e150, 1e154, 1.4e154, 1e160, 1e200, 1e300, 1.7e308]
    F32_END_THR = [1.5e-45, 1e-40, 1e-38, 1e-30, 1e19, 2e19, 1e20, 1e30, 3e38]

    def gen_flat(self, rng):
        """windows whose neighbours are all equal (spread exactly 0: flat ground of exactly 0 or of one value with exact
        multiples, plateaus, constant regions; for the median filter also heavy ties) around deviating pixels, with the
        threshold at the extreme finite ends (5e-324 .. 1e-300, 1e150 .. 1.7e308; float32: 1.5e-45 .. 3e38) or ordinary, and
        deviations ordinary or at the tiny end (subnormal, 1e-320 .. 1e-300; float32 1e-45 .. 1e-38).  The decision there is
        exact in floats (Lean flatSpreadExact / MAD = 0): replaced iff the deviation is not 0, for every finite threshold."""
        ndim = rng.choice([1, 2, 2])
        kind = rng.choice(["mean", "median"])
        block, shape = self.gen_geometry(rng, ndim, [3, 3, 5, 5, 7, 9] if ndim == 1 else [3, 3, 5], 40 if ndim == 1 else 15)
        shape = self.with_interior(rng, shape, block, 0.9)
        dtype = rng.choice(["float64", "float64", "float64", "float32"])
        f32 = dtype == "float32"
        sub = 2.0 ** (-149 if f32 else -1074)  # smallest subnormal
        ground = rng.choice(["zero", "zero", "value", "value", "sub-pedestal", "plateaus"])
        n = int(np.prod(shape))
        if ground == "zero":
            a = np.zeros(shape)
        elif ground == "value":
            a = np.full(shape, rng.choice([7.0, 1.25, -3.5, 96.0, 2.0 ** -30, -2.0 ** 40, 0.5]))
        elif ground == "sub-pedestal":
            a = np.full(shape, sub * rng.randint(1, 2000))
        else:  # two or three levels in stripes wider than a window
            lv = [rng.choice([0.0, 4.0, -2.5, 12.0, 0.75]) for _ in range(3)]
            wdt = max(block) + rng.randint(1, 4)
            idx = np.indices(shape)
            a = np.array([lv[int(i) % 3] for i in (idx[rng.randrange(ndim)] // wdt).ravel()]).reshape(shape)
        feats = ["flat0-class", "flat-ground:" + ground]
        tiny_dev = rng.random() < (0.6 if ground in ("zero", "sub-pedestal") else 0.0)
        for _ in range(rng.randint(1, 4)):
            q = tuple(rng.randrange(b, s_ - b) if s_ > 2 * b and rng.random() < 0.8 else rng.randrange(s_) for s_, b in zip(shape, block))
            if tiny_dev:
                d = rng.choice([-1, 1]) * sub * rng.choice([1, 2, 3, 1000, 10 ** 6, 10 ** 10, 2 ** 40])
            else:
                d = rng.choice([-1, 1]) * rng.choice([0.5, 3.0, 93.0, 2.0 ** -20, 1e6])
            a[q] = a[q] + d
        feats.append("flat-dev:" + ("tiny-end" if tiny_dev else "ordinary"))
        if kind == "median" and rng.random() < 0.3:  # heavy ties instead of a flat window: fewer than half of the pixels move
            for _ in range(max(1, n // 6)):
                q = tuple(rng.randrange(s_) for s_ in shape)
                a[q] = a[q] + rng.choice([-1, 1]) * (sub * rng.randint(1, 50) if tiny_dev else rng.choice([0.25, 1.0]))
            feats.append("flat:heavy-ties")
        r = rng.random()
        if r < 0.7:
            thr = float(np.float32(rng.choice(self.F32_END_THR))) if f32 else rng.choice(self.F64_END_THR)
            feats.append("thr-end:" + ("tiny" if thr < 1 else "huge"))
        else:
            thr = rng.choice([0.0, 0.5, 1.0, 3.0, 3.0, 10.0, 1e3])
        return {"stream": "fgen", "kind": kind, "shape": shape, "fdata": [hexf(v) for v in a.ravel()], "block": block,
                "block_int": len(set(block)) == 1 and rng.random() < 0.5, "threshold": hexf(float(thr)), "dtype": dtype,
                "layout": rng.choice(["C", "C", "F", "strided", "reversed"]), "readonly": rng.random() < 0.3, "gen": feats,
                "byteorder": rng.choice(BYTEORDERS)}

    def flat_targeted(self):
        base = {"stream": "fgen", "block_int": False, "layout": "C", "dtype": "float64", "readonly": False, "gen": ["targeted-float", "flat0-class"]}
        z = [0.0] * 40
        z[12], z[27] = 1e-305, -3e-306
        img = [7.0] * 144
        img[5 * 12 + 5], img[8 * 12 + 2] = 100.0, 3.0
        for kind in ("mean", "median"):
            for thr in (1e3, 1.0, 5e-324, 1e300):
                yield {**base, "kind": kind, "shape": [40], "fdata": [hexf(v) for v in z], "block": [5], "threshold": hexf(thr)}
            for thr in (3.0, 1e150, 1e160, 1e300):
                yield {**base, "kind": kind, "shape": [12, 12], "fdata": [hexf(v) for v in img], "block": [3, 3], "threshold": hexf(thr)}
            yield {**base, "kind": kind, "shape": [12, 12], "fdata": [hexf(v) for v in img], "block": [3, 3], "dtype": "float32",
                   "threshold": hexf(float(np.float32(1e20)))}

    # ------------------------------------------------------------------ integer images of every dtype
    def gen_ints(self, rng):
        """integer images: every unsigned and signed dtype, values low in the dtype's range (a pixel below its window's
        median or mean: unsigned differences would wrap), high in it (sums beyond the dtype), over the whole range, counts
        with ties; spikes to the ends of the range.  Pixels stay within +-2^46: all window sums are exact in binary64 and
        decisions / replacements are evaluated exactly on the integer values."""
        ndim = rng.choice([1, 2, 2])
        kind = rng.choice(["mean", "median", "median"])
        block, shape = self.gen_geometry(rng, ndim, [3, 3, 5, 5, 7, 9], 40 if ndim == 1 else 16)
        shape = self.with_interior(rng, shape, block)
        dtype = rng.choice(INT_DTYPES)
        lo, hi = int_range(dtype)
        n = int(np.prod(shape))
        style = rng.choice(["low", "low", "high", "full", "counts", "signed"])
        if style == "signed" and lo == 0:
            style = "low"
        span = hi - lo
        if style == "low":
            base = lo if lo == 0 else 0
            a = [base + rng.randint(0, min(60, span)) for _ in range(n)]
        elif style == "high":
            a = [hi - rng.randint(0, min(60, span)) for _ in range(n)]
        elif style == "full":
            a = [rng.randint(lo, hi) for _ in range(n)]
        elif style == "counts":
            lv = [rng.randint(0, min(9, span)) * rng.choice([1, 1, 3]) for _ in range(8)]
            a = [max(lo, 0) + rng.choice(lv) for _ in range(n)]
        else:
            m = min(100, hi)
            a = [rng.randint(-m, m) for _ in range(n)]
        a = np.array(a, dtype=object).reshape(shape)
        feats = ["ints", "ints:" + style, "ints-dtype:" + dtype]
        if rng.random() < 0.75:
            for _ in range(rng.randint(1, 4)):
                q = tuple(rng.randrange(s_) for s_ in shape)
                a[q] = rng.choice([lo, hi, hi, (lo + hi) // 2, max(lo, min(hi, int(a[q]) + rng.choice([-1, 1]) * rng.choice([9, 70, 900, 10 ** 6])))])
            feats.append("spikes")
        if rng.random() < 0.3:
            q = [rng.randrange(s_) for s_ in shape]
            sl = tuple(slice(c, c + rng.randint(1, 3)) for c in q)
            a[sl] = rng.choice([lo, hi])
            feats.append("cluster")
        if rng.random() < 0.25:
            q = [rng.randrange(s_) for s_ in shape]
            sl = tuple(slice(c, c + rng.randint(2, 10)) for c in q)
            a[sl] = rng.randint(lo, min(hi, lo + 50))
            feats.append("constant-region")
        thr = rng.choice(["0", 0.5, 1.0, 1.5, 2.0, 3.0, 3.0, 5.0, 10.0, "inf", 0.3, 1.2, 2.5, 1e3])
        return {"stream": "fgen", "kind": kind, "shape": shape, "fdata": [hexf(float(int(v))) for v in a.ravel()], "block": block,
                "block_int": len(set(block)) == 1 and rng.random() < 0.5,
                "threshold": thr if isinstance(thr, str) and thr == "inf" else hexf(float(thr)), "dtype": dtype,
                "layout": rng.choice(["C", "C", "F", "strided", "reversed"]), "readonly": rng.random() < 0.3, "gen": feats,
                "byteorder": rng.choice(BYTEORDERS)}

    # ------------------------------------------------------------------ histories
    def gen_history(self, rng):
        """2-3 calls in one process (see evaluate_history): the same array object again after in-place edits (new spikes,
        spikes removed, a region overwritten, the whole buffer shifted, another frame copied in), with the same or another
        threshold / block / filter; another array of the same shape in between; a view of the previous array"""
        ndim = rng.choice([1, 2, 2])
        dtype = rng.choice(["float64"] * 5 + ["float32", "uint16", "int32"])
        isint = dtype in INT_DTYPES
        wins = [3, 5, 5, 7] if ndim == 1 else [3, 3, 5]
        shape = [rng.randint(16, 40)] if ndim == 1 else [rng.randint(11, 16), rng.randint(11, 16)]
        n = int(np.prod(shape))

        def frame():
            lvl, sg = rng.choice([1.0, 10.0, 300.0]), rng.choice([0.05, 0.3, 1.0])
            f = np.array([lvl + sg * rng.gauss(0, 1) for _ in range(n)])
            if isint:
                f = np.rint(np.abs(f) * 10)
            for _ in range(rng.randint(1, 4)):
                f[rng.randrange(n)] += rng.choice([-1, 1]) * rng.choice([9.0, 40.0, 600.0]) * (10 if isint else sg) * (1 if not isint else 1)
            if isint:
                f = np.clip(np.rint(f), 0 if dtype.startswith("u") else -30000, 30000)
            return f

        def blk():
            if rng.random() < 0.5:
                return [rng.choice(wins)] * ndim
            return [rng.choice(wins) for _ in range(ndim)]

        def thr():
            t = rng.choice([0.5, 1.0, 1.5, 2.0, 3.0, 3.0, 5.0, "0", "inf"])
            return t if t == "inf" else hexf(float(t))

        def call(on, kind, block, t, view=None):
            st = {"op": "call", "on": on, "kind": kind, "block": block, "block_int": len(set(block)) == 1 and rng.random() < 0.4,
                  "threshold": t}
            if view is not None:
                st["view"] = view
            return st

        def edit(cur):
            how = rng.choice(["set", "set", "set", "add", "copy-other", "region"])
            if how == "set":
                at = []
                for _ in range(rng.randint(1, 5)):
                    k = rng.randrange(n)
                    v = cur[k] + rng.choice([-1, 1]) * rng.choice([30.0, 200.0, 5000.0]) if rng.random() < 0.7 else float(np.median(cur))
                    if isint:
                        v = float(min(30000, max(0 if dtype.startswith("u") else -30000, round(v))))
                    at.append([k, hexf(v)])
                return {"op": "edit", "how": "set", "at": at}
            if how == "add":
                return {"op": "edit", "how": "add", "value": hexf(float(rng.choice([1, 5, 100])) if isint else rng.choice([0.5, 3.25, 100.0]))}
            if how == "region":
                box = []
                for s_ in shape:
                    lo_ = rng.randrange(s_)
                    box.append([lo_, min(s_, lo_ + rng.randint(1, 6))])
                v = float(rng.randint(0, 50)) if isint else rng.choice([0.0, 1.5, 77.0])
                return {"op": "edit", "how": "region", "box": box, "value": hexf(v)}
            return {"op": "edit", "how": "copy-other"}

        a, b = frame(), frame()
        kind = rng.choice(["median", "median", "mean"])
        b0, t0 = blk(), thr()
        pat = rng.choice(["edit-same", "edit-same", "edit-same", "edit-thr", "edit-block", "edit-filter", "unedited-thr", "other-between",
                          "view", "three"])
        other_kind = "mean" if kind == "median" else "median"
        steps = [call("A", kind, b0, t0)]
        if pat == "edit-same":
            steps += [edit(a), call("A", kind, b0, t0)]
        elif pat == "edit-thr":
            steps += [edit(a), call("A", kind, b0, thr())]
        elif pat == "edit-block":
            steps += [edit(a), call("A", kind, blk(), t0)]
        elif pat == "edit-filter":
            steps += [edit(a), call("A", other_kind, b0, t0)]
        elif pat == "unedited-thr":
            steps += [call("A", kind, b0, thr())]
        elif pat == "other-between":
            steps += [call("B", kind, b0, t0), edit(a), call("A", kind, b0, t0)]
        elif pat == "view":
            view = []
            for s_, w in zip(shape, b0):
                opts = [[None, None, None]]
                if s_ - 1 >= w:
                    opts += [[1, None, None], [None, -1, None]]
                if (s_ + 1) // 2 >= w:
                    opts.append([None, None, 2])
                opts.append([None, None, -1])
                view.append(rng.choice(opts))
            steps += [edit(a), call("view", kind, b0, t0, view)]
            if rng.random() < 0.5:
                steps += [call("A", kind, b0, t0)]
        else:
            steps += [edit(a), call("A", kind, b0, thr()), edit(a), call("A", rng.choice([kind, other_kind]), rng.choice([b0, blk()]), t0)]
        return {"steps": steps, "shape": shape, "dtype": dtype, "layout": rng.choice(["C", "C", "C", "F", "strided"]),
                "fdata": [hexf(float(v)) for v in a], "other": [hexf(float(v)) for v in b], "gen": ["history", "hist-pattern:" + pat],
                "kind": kind, "block": b0, "byteorder": rng.choice(BYTEORDERS)}

    def history_targeted(self):
        """deterministic histories for both filters: filter, overwrite spikes in place, filter the same object again"""
        sig = [1.0 + 0.01 * ((7 * i * i) % 11) for i in range(24)]
        sig[6], sig[15] = 57.5, 1.04
        img = [1.0 + 0.01 * ((5 * i * i) % 13) for i in range(81)]
        img[40] = 30.0
        for kind in ("median", "mean"):
            for shape, data, block, at in (([24], sig, [5], [[6, hexf(1.02)], [15, hexf(41.0)]]),
                                           ([9, 9], img, [3, 3], [[40, hexf(1.05)], [22, hexf(-25.0)], [58, hexf(44.0)]])):
                c1 = {"op": "call", "on": "A", "kind": kind, "block": block, "block_int": False, "threshold": hexf(3.0)}
                yield {"steps": [c1, {"op": "edit", "how": "set", "at": at}, c1, {**c1, "threshold": hexf(1.0)}],
                       "shape": shape, "dtype": "float64", "layout": "C", "fdata": [hexf(v) for v in data],
                       "other": [hexf(v + 0.5) for v in data], "gen": ["history", "targeted"], "kind": kind, "block": block}

    def float_targeted(self):
        base = {"stream": "fconst", "block_int": False, "layout": "C", "dtype": "float64", "readonly": False, "gen": ["targeted-float"]}
        z, one, inf = hexf(0.0), hexf(1.0), "inf"
        # the kernel-evaluated witness f64_mean_changes_constant / f64_same_signal_otherwise on the real code
        for kind, blk, thr in (("mean", 7, z), ("mean", 7, one), ("mean", 7, inf), ("median", 7, z), ("mean", 3, z), ("mean", 5, z)):
            yield {**base, "kind": kind, "shape": [15], "fconst": hexf(0.1), "block": [blk], "threshold": thr, "gen": ["targeted-float", "witness"]}
        # the audit's example and its neighbours
        for kind, thr in (("mean", z), ("mean", hexf(3.0)), ("mean", inf), ("median", z)):
            yield {**base, "kind": kind, "shape": [15, 15], "fconst": hexf(1 / 3), "block": [7, 7], "threshold": thr}
        # the spread of the rounding noise underflows: every finite threshold
        yield {**base, "kind": "mean", "shape": [12, 12], "fconst": hexf(1e-300), "block": [9, 9], "threshold": hexf(3.0)}
        yield {**base, "kind": "mean", "shape": [12, 12], "fconst": hexf(1e-300), "block": [9, 9], "threshold": hexf(1e300)}
        # window sums exact: bit for bit
        yield {**base, "kind": "mean", "shape": [9, 9], "fconst": hexf(1.25), "block": [7, 7], "threshold": z}
        # dtypes, layouts, read-only
        yield {**base, "kind": "mean", "shape": [15], "fconst": hexf(float(np.float32(0.1))), "block": [7], "threshold": z, "dtype": "float32"}
        yield {**base, "kind": "mean", "shape": [7, 8], "fconst": hexf(7.0), "block": [5, 5], "threshold": z, "dtype": "int32", "readonly": True}
        d = [(7 * i * i) % 11 / 10 + (9.7 if i == 37 else 0.0) for i in range(72)]
        for kind in ("mean", "median"):
            for dtype, lay, ro, thr in (("float64", "F", True, hexf(2.0)), ("float64", "reversed", True, z), ("float32", "strided", True, hexf(2.0)),
                                        ("int32", "C", True, hexf(2.0)), ("uint8", "F", False, hexf(1.0)), ("float64", "strided", True, inf),
                                        ("int64", "reversed", True, z)):
                vals = [round(v * 10) for v in d] if dtype in INT_DTYPES else d
                yield {**base, "stream": "fgen", "kind": kind, "shape": [9, 8], "fdata": [hexf(v) for v in vals], "block": [3, 5],
                       "threshold": thr, "dtype": dtype, "layout": lay, "readonly": ro}
                yield {**base, "stream": "fgen", "kind": kind, "shape": [24], "fdata": [hexf(v) for v in vals[:24]], "block": [5],
                       "threshold": thr, "dtype": dtype, "layout": lay if lay != "F" else "C", "readonly": ro}

    def targeted(self, tier):
        # the small cases first (a gross defect is then reported, and shrunk, on a small input); the large ones after
        # them at even positions two places apart, so that the pool (chunks of two) hands them to different workers
        large = list(self.large_cases(tier))
        small = list(self.small_targeted(tier))
        k = min(len(small), max(0, len(large) - 1))
        k += (len(small) - k) % 2 if k < len(small) else 0
        head, between = small[:len(small) - k], small[len(small) - k:]
        yield from head
        for c in large:
            yield c
            if between:
                yield between.pop(0)
        yield from between

    def small_targeted(self, tier):
        base = {"den": 1, "offset": 0, "block_int": False, "layout": "C", "gen": ["targeted"]}
        # the repo's own four examples (values x10), plus the single-window, constant and inf cases
        y = [10, 11, 15, 13, 12, 11, 10, 16, 12, 13]
        for kind in ("mean", "median"):
            yield {**base, "kind": kind, "shape": [10], "data": y, "block": [5],
                   "threshold": float(3).hex()}
            d = [0] * 100
            d[55] = 100
            yield {**base, "kind": kind, "shape": [10, 10], "data": d, "block": [3, 3], "threshold": float(1).hex()}
            for thr in ("inf", float(0).hex(), float(2).hex()):
                yield {**base, "kind": kind, "shape": [3], "data": [1, 5, 2], "block": [3], "threshold": thr}
                yield {**base, "kind": kind, "shape": [7], "data": [4] * 7, "block": [3], "threshold": thr}
                yield {**base, "kind": kind, "shape": [3, 5], "data": list(range(15)), "block": [3, 5], "threshold": thr}
                yield {**base, "kind": kind, "shape": [9, 8], "data": [(7 * i * i) % 11 for i in range(72)], "block": [3, 5],
                       "threshold": thr}
                yield {**base, "kind": kind, "shape": [8, 9], "data": [(7 * i * i) % 11 for i in range(72)], "block": [5, 3],
                       "threshold": thr}
                yield {**base, "kind": kind, "shape": [23], "data": [(5 * i * i) % 13 + (90 if i == 11 else 0) for i in range(23)],
                       "block": [7], "threshold": thr}
                yield {**base, "kind": kind, "shape": [6, 6], "data": [3] * 36, "block": [3, 3], "threshold": thr, "block_int": True}
        yield from self.float_targeted()
        yield from self.hdr_targeted()
        yield from self.history_targeted()
        yield from self.flat_targeted()

    # ------------------------------------------------------------------ evaluation
    def evaluate(self, case, ctx):
        if "steps" in case:
            return self.evaluate_history(case, ctx)
        return self.evaluate_call(case, ctx)

    def evaluate_call(self, case, ctx, prebuilt=None):
        """one call of a filter, judged against the Lean specification of the array's contents at the time of the call.
        `prebuilt` = (vals, x, base): the call is made on this existing array object (history cases) instead of on a
        freshly built one; `case` then describes its current contents."""
        from pewlib.process import filters

        kind, shape, block = case["kind"], case["shape"], case["block"]
        fmode = "stream" in case  # float streams: rounding-bound tolerances instead of the dyadic 1e-9
        dtname = case.get("dtype", "float64")
        vals, x, base = build(case) if prebuilt is None else prebuilt
        t = thr_float(case["threshold"])
        # snapshots at byte level (NaN-/signed-zero-proof), of the view and of the buffer behind it
        snap = (x.tobytes(), None if base is None else base.tobytes(), x.shape, x.strides, x.dtype.str,
                x.flags.writeable, None if base is None else base.flags.writeable)
        blk = block[0] if case["block_int"] else tuple(block)
        fn = filters.rolling_mean if kind == "mean" else filters.rolling_median
        got = None
        with warnings.catch_warnings(), np.errstate(all="ignore"):
            warnings.simplefilter("ignore")
            try:
                res = fn(x, blk, threshold=t)
                out_dtype = str(np.asarray(res).dtype)
                got = np.asarray(res, dtype=np.float64)  # float32 -> float64 is exact
                impl = {"shape": list(got.shape), "out": [float(v) for v in got.ravel()], "dtype": out_dtype}
            except Exception as e:  # the quantified inputs never raise
                impl = {"raises": type(e).__name__, "msg": str(e)[:200]}
        after = (x.tobytes(), None if base is None else base.tobytes(), x.shape, x.strides, x.dtype.str,
                 x.flags.writeable, None if base is None else base.flags.writeable)
        impl["input_unchanged"] = bool(after == snap)

        n = len(vals)
        sparse = n > SPARSE_ABOVE
        is_int = np.dtype(dtname).kind in "iu"
        # integer image: np.pad rounds the pad values (half to even) to the dtype; the mechanism model does the same
        # the format pewlib computes in: float32 stays float32, integers are averaged in float64
        p_bits, emin = FLOAT_DTYPES.get(dtname, FLOAT_DTYPES["float64"])
        t_used = float(np.float32(t)) if dtname == "float32" else t  # a Python float times a float32 array is float32
        req = dict(kind=kind, shape=shape, data=[core.rat(v) for v in vals], block=block,
                   threshold=None if math.isinf(t) else core.rat(t), pad="rint" if is_int else "exact",
                   rabs=bool(fmode and kind == "mean"), p=p_bits, emin=emin)
        if sparse:
            changed = []
            if "raises" not in impl and impl["shape"] == shape:
                changed = np.flatnonzero(~(got.ravel() == np.array([float(v) for v in vals])))
            pixels = pick_pixels(case, shape, changed)
            rep = ctx.driver.call("c13.at", **req, pixels=pixels, model="all" if case.get("with_model", True) else "no")
            spec_at = dict(zip(pixels, rep["spec"]))
        else:
            rep = ctx.driver.call("c13.filter", **req)
            spec_at = rep["spec"]  # every pixel
        have_model = rep["shape"] is not None  # the whole-array mechanism may be left out for a large image
        must_unchanged = bool(rep["unchanged"])  # Lean: constant image or infinite threshold
        scale = max(1.0, max(abs(float(v)) for v in vals))
        abs_tol = 1e-12 * scale
        halves = [b // 2 for b in block]
        idx = np.indices(shape).reshape(len(shape), -1).T if n else []
        ftol = a_loc = None
        if fmode:
            maxabs = max(abs(v) for v in vals)
            # integer pixels: window sums are exact only while they stay below 2^53
            ftol = FloatTol(p_bits, block, t, t_used, is_int and int(np.prod(block)) * maxabs < 2 ** 53, is_int)
            grid = np.array([float(v) for v in vals], dtype=np.float64).reshape(shape)
            a_loc = FloatTol.local_maxabs(grid, halves, 2 if kind == "median" else 1)
        m_loc = None  # median filter: per pixel, a bound on the |window median| of the pixels of its window
        flat_loc = None  # median filter: per pixel, all real pixels within two half-windows are equal (everything is exact)
        if fmode and kind == "median" and not ftol.pads_exact:
            flat_loc = (FloatTol.local_max(grid, halves, 2) == -FloatTol.local_max(-grid, halves, 2)).ravel()
        xs = [float(v) for v in np.asarray(x, dtype=np.float64).ravel()]  # the input as floats (keeps the sign of a zero)

        def real_window(p, reach=1):  # no padded value within `reach` half-windows of pixel p
            return all(reach * h <= i < s - reach * h for i, h, s in zip(p, halves, shape))

        n_fexact = [0, 0]  # decisions taken exactly by any float evaluation; of those, exactly on the boundary

        def fexact(cell):
            """Lean's meanDecisionExact: every number a float evaluation of this pixel's decision computes is a number of
            the computing format - the exact decision is demanded, also exactly on the boundary ('more than')"""
            return bool(cell.get("fexact")) and t_used == t

        def near(cell, p):
            """exact decision margin below the float tolerance -> either value is acceptable"""
            if cell["rhs"] is None:
                return False
            if fexact(cell):
                return False
            lhs, rhs = unrat(cell["lhs"]), unrat(cell["rhs"])
            if lhs == 0 and (kind == "median" or real_window(p) or (rhs == 0 and t != 0)):
                return False  # d is exactly 0 in floats too (exact window sums, or a constant window): never an outlier
            if kind == "mean":
                a, b = math.sqrt(lhs), math.sqrt(rhs)
            else:
                a, b = float(lhs), float(rhs)
            return abs(a - b) <= REL * max(a, b) + abs_tol * (1.0 + (0.0 if math.isinf(t) else t))

        def ok_cell(v, cell, p, k):
            xv, rv = float(unrat(cell["x"])), unrat(cell["repl"])
            is_x = v == xv
            if fmode:
                real = real_window(p, 2 if kind == "median" else 1)
                if kind == "mean":
                    ra = None if cell.get("rabs") is None else unrat(cell["rabs"])
                else:
                    ra = abs(rv)
                # 2-D: within two half-windows of a row border AND of a column border (corner pads are medians of medians)
                corner = len(shape) == 2 and all(not (2 * h <= i < s_ - 2 * h) for i, h, s_ in zip(p, halves, shape))
                is_r = abs(Fraction(v) - rv) <= ftol.repl_tol(kind, real, ra, a_loc[k], corner) if math.isfinite(v) else False
                m = ftol.margin(kind, cell, real, a_loc[k], corner, None if m_loc is None else m_loc[k])
                if fexact(cell):
                    m = "out" if cell["outlier"] else "in"
                if m == "near" and flat_loc is not None and flat_loc[k] and unrat(cell["lhs"]) == 0 and not ftol.inf_used:
                    m = "in"  # every value the pixel can see is the same number c: pad values (c + c)/2, medians, deviations 0 are exact
                if m == "near":
                    return is_x or is_r, True
                return (is_r if m == "out" else is_x), False
            is_r = core.close(v, rv, rel=REL, abs_=abs_tol)
            if near(cell, p):
                return is_x or is_r, True
            return (is_r if cell["outlier"] else is_x), False

        feats = {f"ndim{len(shape)}", "kind:" + kind, "layout:" + case["layout"],
                 "block:" + ("equal" if len(set(block)) == 1 else "different"),
                 "thr:" + ("inf" if math.isinf(t) else "zero" if t == 0 else "finite")}
        feats.update(f"b{b}" for b in block)
        feats.update(case.get("gen", []))
        if fmode:
            feats.add("stream:" + case["stream"])
            if 0 < t < 1e-6:
                feats.add("thr:tiny")
        if dtname != "float64" or fmode:
            feats.add(f"dtype:{dtname}->{impl.get('dtype', 'raises')}")
        if case.get("readonly"):
            feats.add("input:read-only")
        if not x.dtype.isnative:
            feats.add("byteorder:non-native")
        if case.get("offset"):
            feats.add("offset")
        if any(s == b for s, b in zip(shape, block)):
            feats.add("size==window")
        if n > 2 ** 17:
            feats.add("large:above-2^17")
        elif n > 2 ** 16:
            feats.add("large:above-2^16")
        if sparse:
            feats.add("mechanism:evaluated" if have_model else "mechanism:left-out")
        model = {"shape": rep["shape"] if have_model else "not evaluated", "input_unchanged": True}
        spec = {"shape": shape, "input_unchanged": True}
        model_ok = spec_ok = impl.get("input_unchanged", False) and "raises" not in impl
        bad_model, bad_spec, nears = [], [], 0
        cmp_model = False
        note = {}
        constant = len(set(vals)) == 1
        if "raises" not in impl:
            if have_model and impl["shape"] != rep["shape"]:
                model_ok = False
            if impl["shape"] != shape:
                spec_ok = False
            elif must_unchanged:
                # "constant images and infinite thresholds come back unchanged": every pixel, bit for bit
                out = impl["out"]
                spec["unchanged"] = True
                changed_px = [k for k in range(n) if not (out[k] == xs[k] and math.copysign(1.0, out[k]) == math.copysign(1.0, xs[k]))]
                bad_spec = changed_px
                bad_model = list(changed_px) if have_model else []
                cmp_model = False
                feats.add("unchanged-clause:" + ("inf" if math.isinf(t) else "constant"))
                if constant:
                    feats.add("constant-image")
                    c = vals[0]
                    info = ctx.driver.call("c13.constinfo", c=core.rat(c), p=p_bits, emin=emin, n=int(np.prod(block)),
                                           depth=int(np.prod(block)) + sum(halves))
                    feats.add("const:sums-exact" if info["sums_exact"] else "const:sums-inexact")
                    spec["const"] = {"sums_exact": info["sums_exact"], "bound~": float(unrat(info["bound"]))}
                    if changed_px:
                        bound = unrat(info["bound"])
                        devs = [abs(Fraction(out[k]) - c) if math.isfinite(out[k]) else None for k in changed_px]
                        within = all(d is not None and d <= bound for d in devs)
                        ulp = math.ulp(float(c)) if p_bits == 53 else float(np.spacing(np.float32(abs(float(c))) or np.float32(1e-45)))
                        mx = max((d for d in devs if d is not None), default=Fraction(0))
                        nulp = int(round(float(mx) / ulp)) if ulp > 0 else -1
                        note["const_dev"] = {"kind": kind, "thr_finite": not math.isinf(t), "sums_exact": bool(info["sums_exact"]),
                                             "within_bound": bool(within), "max_dev_ulps": nulp, "changed": len(changed_px),
                                             "pixels": n, "only_failure": bool(impl["input_unchanged"])}
                        feats.add("const-dev:%s" % ("1ulp" if nulp == 1 else "2ulp" if nulp == 2 else "3+ulp" if within else "beyond-bound"))
                    else:
                        feats.add("const-dev:none")
            else:
                out = impl["out"]
                n_int = n_repl_int = n_repl_border = n_det = 0
                cmp_model = have_model and impl["shape"] == rep["shape"]
                if cmp_model and fmode and kind == "median" and not ftol.pads_exact:
                    med = np.array([float(unrat(c["repl"])) for c in rep["model"]], dtype=np.float64).reshape(shape)
                    m_loc = [v * (1 + Fraction(1, 2 ** 40)) for v in FloatTol.local_maxabs(med, halves, 1)]
                if cmp_model:  # the mechanism at every pixel, also of a large image
                    for k in range(n):
                        pk = tuple(int(i) for i in idx[k])
                        ok, nr = ok_cell(out[k], rep["model"][k], pk, k)
                        nears += nr
                        if not ok:
                            bad_model.append(k)
                    if sparse:  # the specification decides about the pixels where mechanism and implementation differ
                        extra = [k for k in bad_model if k not in spec_at][:300]
                        if extra:
                            rep2 = ctx.driver.call("c13.at", **req, pixels=extra, model="no")
                            spec_at.update(zip(extra, rep2["spec"]))
                for k in (sorted(spec_at) if sparse else range(n)):
                    p = tuple(int(i) for i in idx[k])
                    s = spec_at[k]
                    if s["kind"] == "exact":
                        n_int += 1
                        if fexact(s):
                            n_fexact[0] += 1
                            if s["rhs"] is not None and unrat(s["lhs"]) == unrat(s["rhs"]) != 0:
                                n_fexact[1] += 1
                        ok, nr = ok_cell(out[k], s, p, k)
                        n_det += not nr
                        if not cmp_model:  # (only a large image can be without the mechanism)
                            nears += nr
                        if s["outlier"]:
                            n_repl_int += 1
                    else:
                        xv = float(unrat(s["x"]))
                        lo, hi = unrat(s["lo"]), unrat(s["hi"])
                        if fmode:
                            # a replaced border value is a mean of values within [lo, hi]: rounding relative to that range
                            tol = ftol.repl_tol(kind, False, max(abs(lo), abs(hi)), None) if kind == "mean" else Fraction(0)
                            ok = out[k] == xv or (math.isfinite(out[k]) and lo - tol <= Fraction(out[k]) <= hi + tol)
                        else:
                            lo, hi = float(lo), float(hi)
                            tol = REL * max(abs(lo), abs(hi)) + abs_tol
                            ok = out[k] == xv or (lo - tol <= out[k] <= hi + tol)
                        if out[k] != xv:
                            n_repl_border += 1
                    if not ok:
                        bad_spec.append(k)
                if sparse:
                    spec["pixels_compared"] = len(spec_at)
                    feats.add("spec-at:all-pixels" if len(spec_at) == n else "spec-at:pixel-set")
                if n_int:
                    feats.add("has-interior")
                    if fmode:  # how much of the float stream is demanded rather than tolerated
                        frac = n_det / n_int
                        feats.add("determined:" + ("all" if n_det == n_int else ">=99%" if frac >= 0.99 else ">=90%" if frac >= 0.9
                                                    else "<90%"))
                        spec["interior_determined"] = [n_det, n_int]
                if n_fexact[0]:
                    feats.add("float-exact-decision")
                if n_fexact[1]:
                    feats.add("tie:exactly-on-the-boundary")
                if n_repl_int:
                    feats.add("interior-replaced")
                if n_repl_border:
                    feats.add("border-replaced")
                if nears:
                    feats.add("near-tie-pixel")
                if constant:
                    feats.add("constant-image")
            model_ok = model_ok and not bad_model
            spec_ok = spec_ok and not bad_spec
            # beside the verdict: does pewlib return the bits of the Lean binary64 mechanism (NumPy's order of evaluation)?
            if fmode and dtname == "float64" and n <= 1024 and impl["shape"] == shape:
                f64 = ctx.driver.call("c13.f64", kind=kind, shape=shape, block=block, bits=[fbits(v) for v in xs], tbits=fbits(t))
                feats.add("f64-mechanism:" + ("bit-equal" if f64["bits"] == [fbits(v) for v in impl["out"]] else "differs"))
        model["mismatch_pixels"] = bad_model[:20]
        spec["mismatch_pixels"] = bad_spec[:20]
        if bad_model or bad_spec:
            k = (bad_spec or bad_model)[0]
            model["first"] = {"pixel": k, "coords": [int(i) for i in idx[k]], "impl": impl["out"][k],
                              "model": rep["model"][k] if have_model and impl["shape"] == rep["shape"] else None,
                              "spec": spec_at[k] if sparse and k in spec_at or not sparse else None}
        impl_view = dict(impl)
        if "out" in impl_view and len(impl_view["out"]) > 64:
            impl_view["out"] = impl_view["out"][:64] + ["..."]
        nontrivial = feats & {"interior-replaced", "border-replaced", "constant-image", "thr:zero", "thr:inf", "tie:exactly-on-the-boundary"}
        return outcome(impl_view, model, spec, spec_ok=spec_ok, model_ok=model_ok,
                       undetermined=bool(nears) and spec_ok and model_ok,
                       features=feats if nontrivial else [], note=json.dumps(note) if note else "")

    # ------------------------------------------------------------------ histories: several calls in one process
    @staticmethod
    def exact_vals(arr):
        return [Fraction(int(v)) if arr.dtype.kind in "iu" else Fraction(float(v)) for v in np.asarray(arr).ravel()]

    def evaluate_history(self, case, ctx):
        """a sequence of calls of the filters in ONE process: on the same array object (edited in place between the
        calls), on another array of the same shape, on a view of the first array; same or different block / threshold /
        filter.  Every call is judged, like a single call, against the Lean specification of the contents the array has
        at the time of that call (the filters are functions of their arguments: nothing may survive a call)."""
        dtname = case.get("dtype", "float64")
        dtype = np.dtype(dtname)
        first = {"stream": "fgen", "shape": case["shape"], "fdata": case["fdata"], "dtype": dtname, "layout": case["layout"],
                 "byteorder": case.get("byteorder", "native")}
        _, a_arr, a_base = build(first)
        _, b_arr, _ = build({**first, "fdata": case["other"], "layout": "C"})
        outs, feats = [], {"history"}
        calls = [st for st in case["steps"] if st["op"] == "call"]
        feats.add("hist:calls-%d" % len(calls))
        edited = False
        prev = []  # (target name, block, threshold, kind, edited since) of the earlier calls
        for st in case["steps"]:
            if st["op"] == "edit":
                how = st["how"]
                if how == "set":  # single pixels: new spikes, spikes removed
                    for k, h in st["at"]:
                        a_arr[np.unravel_index(int(k), a_arr.shape)] = dtype.type(float.fromhex(h))
                elif how == "add":  # the whole buffer shifted in place
                    a_arr += dtype.type(float.fromhex(st["value"]))
                elif how == "copy-other":  # a reused acquisition buffer: the next frame copied in
                    a_arr[...] = b_arr
                elif how == "region":
                    sl = tuple(slice(lo, hi) for lo, hi in st["box"])
                    a_arr[sl] = dtype.type(float.fromhex(st["value"]))
                else:
                    raise ValueError("bad edit " + how)
                edited = True
                feats.add("hist-edit:" + how)
                continue
            on = st["on"]
            if on == "A":
                target, tbase = a_arr, a_base
            elif on == "B":
                target, tbase = b_arr, None
            else:  # a view of A (a new array object over the same memory)
                target = a_arr[tuple(slice(*v) for v in st["view"])]
                tbase = a_base if a_base is not None else a_arr
            cur = np.asarray(target)
            sub = {"stream": "fgen", "kind": st["kind"], "shape": list(cur.shape),
                   "fdata": [hexf(float(v)) for v in cur.ravel()], "block": st["block"], "block_int": st.get("block_int", False),
                   "threshold": st["threshold"], "dtype": dtname, "layout": case["layout"] if on != "B" else "C",
                   "readonly": False, "gen": []}
            o = self.evaluate_call(sub, ctx, prebuilt=(self.exact_vals(cur), target, tbase))
            outs.append((sub, o))
            key = (tuple(st["block"]), st["threshold"], st["kind"])
            for (pon, pkey, ped) in prev:
                if pon == on == "A":
                    feats.add("hist:same-object-again")
                    if edited:
                        feats.add("hist:same-object-edited")
                        feats.add("hist:edited+" + ("same-block" if pkey[0] == key[0] else "other-block"))
                        feats.add("hist:edited+" + ("same-thr" if pkey[1] == key[1] else "other-thr"))
                        feats.add("hist:edited+" + ("same-filter" if pkey[2] == key[2] else "other-filter"))
                    else:
                        feats.add("hist:unedited+" + ("same-thr" if pkey[1] == key[1] else "other-thr"))
            if on == "B" and any(pon == "A" for pon, _, _ in prev):
                feats.add("hist:other-array-same-shape")
            if on == "view":
                feats.add("hist:view-of-previous")
            if on == "A" and any(pon == "B" for pon, _, _ in prev) and any(pon == "A" for pon, _, _ in prev):
                feats.add("hist:other-array-between")
            prev.append((on, key, edited))
            if on == "A":
                edited = False
        spec_ok = all(o["spec_ok"] for _, o in outs)
        model_ok = all(o["model_ok"] for _, o in outs)
        nontrivial = any(o["features"] for _, o in outs)
        for _, o in outs:
            feats.update(f for f in o["features"] if not f.startswith(("determined:", "f64-mechanism")))
        failing = [(sub, o) for sub, o in outs if not o["spec_ok"]]
        note = ""
        if failing and all(self.known(sub, o) == KNOWN_CONST for sub, o in failing):
            note = failing[0][1]["note"]  # nothing but the known finding: let known() recognise it
        brief = lambda d: {k: v for k, v in d.items() if k != "out"} if isinstance(d, dict) else d
        impl = {"steps": [brief(o["impl"]) for _, o in outs],
                "input_unchanged": all(isinstance(o["impl"], dict) and o["impl"].get("input_unchanged", False) for _, o in outs)}
        if any(isinstance(o["impl"], dict) and "raises" in o["impl"] for _, o in outs):
            impl["raises"] = "in-step"
        bad = next((i for i, (_, o) in enumerate(outs) if not (o["spec_ok"] and o["model_ok"])), None)
        model = {"steps": [o["model"] for _, o in outs], "first_bad_call": bad}
        spec = {"steps": [o["spec"] for _, o in outs], "first_bad_call": bad}
        return outcome(impl, model, spec, spec_ok=spec_ok, model_ok=model_ok,
                       undetermined=any(o["undetermined"] for _, o in outs) and spec_ok and model_ok,
                       features=feats if nontrivial else [], note=note)

    def known(self, case, out):
        """the one accepted deviation: the MEAN filter with a FINITE threshold returns a CONSTANT image whose window
        sums are NOT exact in the computing format with pixels moved by no more than the rounding of a window mean
        (Lean bound), and nothing else is wrong (shape, input untouched, no exception)"""
        try:
            note = json.loads(out.get("note") or "{}")
        except ValueError:
            return None
        d = note.get("const_dev")
        if not d:
            return None
        imp = out.get("impl")
        if not isinstance(imp, dict) or "raises" in imp or not imp.get("input_unchanged"):
            return None
        if d["kind"] != "mean" or not d["thr_finite"] or d["sums_exact"] or not d["within_bound"] or not d["only_failure"]:
            return None
        return KNOWN_CONST

    # ------------------------------------------------------------------ shrinking
    def shrink(self, case):
        if "steps" in case:
            steps = case["steps"]
            for i in range(len(steps) - 1, -1, -1):  # a step less (at least one call stays)
                rest = steps[:i] + steps[i + 1:]
                if any(st["op"] == "call" for st in rest):
                    yield {**case, "steps": rest}
            if case["layout"] != "C":
                yield {**case, "layout": "C"}
            if case.get("dtype", "float64") != "float64":
                yield {**case, "dtype": "float64"}
            return
        shape, block = case["shape"], case["block"]
        if "stream" in case:
            arr = None if "fconst" in case else np.array(case["fdata"], dtype=object).reshape(shape)
            for ax in range(len(shape)):
                if shape[ax] > block[ax]:
                    for sl in (slice(0, shape[ax] - 1), slice(1, shape[ax])):
                        if arr is None:
                            yield {**case, "shape": [s - (1 if k == ax else 0) for k, s in enumerate(shape)]}
                        else:
                            ss = [slice(None)] * len(shape)
                            ss[ax] = sl
                            sub = arr[tuple(ss)]
                            yield {**case, "shape": list(sub.shape), "fdata": [str(v) for v in sub.ravel()]}
                        if arr is None:
                            break
            if case["layout"] != "C":
                yield {**case, "layout": "C"}
            if case.get("readonly"):
                yield {**case, "readonly": False}
            if case.get("dtype", "float64") != "float64":
                yield {**case, "dtype": "float64"}
            if case.get("block_int"):
                yield {**case, "block_int": False}
            if case.get("byteorder") == "big":
                yield {**case, "byteorder": "native"}
            return
        if len(case["data"]) > 1024:
            # a large image: every evaluation costs seconds, so cut geometrically (a half or an eighth of an axis from
            # either end), leave the whole-array mechanism out, look at fewer pixels, and simplify layout/offset/
            # denominator; no single-row cuts
            arr = np.array(case["data"], dtype=np.int64).reshape(shape)
            lean = {**case, "with_model": False, "px_budget": 4000 if len(shape) == 2 else 1500}
            for ax in range(len(shape)):
                for div in (2, 8):
                    cut = shape[ax] // div
                    if cut < 1 or shape[ax] - cut < block[ax]:
                        continue
                    for sl in (slice(0, shape[ax] - cut), slice(cut, shape[ax])):
                        s = [slice(None)] * len(shape)
                        s[ax] = sl
                        sub = arr[tuple(s)]
                        yield {**lean, "shape": list(sub.shape), "data": [int(v) for v in sub.ravel()]}
            if case["layout"] != "C":
                yield {**lean, "layout": "C"}
            if case["offset"]:
                yield {**lean, "offset": 0}
            if case["den"] != 1:
                yield {**lean, "den": 1}
            return
        arr = np.array(case["data"], dtype=object).reshape(shape)
        for ax in range(len(shape)):
            if shape[ax] > block[ax]:
                for sl in (slice(0, shape[ax] - 1), slice(1, shape[ax])):
                    s = [slice(None)] * len(shape)
                    s[ax] = sl
                    sub = arr[tuple(s)]
                    yield {**case, "shape": list(sub.shape), "data": [int(v) for v in sub.ravel()]}
        if case["layout"] != "C":
            yield {**case, "layout": "C"}
        if case.get("readonly"):
            yield {**case, "readonly": False}
        if case["offset"]:
            yield {**case, "offset": 0}
        if case["den"] != 1:
            yield {**case, "den": 1}
        vals = sorted(set(case["data"]), key=abs)
        if vals and vals[0] != 0:
            yield {**case, "data": [v - vals[0] for v in case["data"]]}
        for k, v in enumerate(case["data"]):
            if v != 0 and len(case["data"]) <= 80:
                d = list(case["data"])
                d[k] = 0
                yield {**case, "data": d}


PROP = C13()

if __name__ == "__main__":
    sys.exit(core.main(PROP, "harness.c13"))
