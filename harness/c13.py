"""C13 — rolling filters: pewlib.process.filters.rolling_mean / rolling_median against
PewModel/Filters.lean (mechanism `meanCells*`/`medianCells*`, specification `specMean*`/`specMedian*`).

Observation points: the returned array (shape and every pixel) and the input array before/after.
Interior pixels ("at least one full window from the border") are compared with the per-pixel
definition; border pixels only with "unchanged, or within the range of the real pixels of the
window".  A pixel whose exact decision margin is below the float tolerance may take either value.

Images of more than SPARSE_ABOVE pixels (the "large" class: above 2^16 and 2^17 elements) are compared
with the specification at a pixel set instead of everywhere, because the exact specification costs
0.3-2 ms per pixel: every pixel whose output differs from the input (sampled above a cap), a random
sample, all pixels of full rows/columns (1-D: segments) near size/2, near multiples of 256/128/64
(1-D: 65536, 32768, ...) and at random places - and every pixel at which the implementation differs
from the Lean mechanism model, which (unless the case says `with_model: false`) is still compared at
ALL pixels.  The driver op `c13.at` evaluates the same Lean definitions as `c13.filter`."""
import math
import os
import random
import sys
import warnings
from fractions import Fraction

import numpy as np

from harness import core
from harness.core import Prop, outcome, unrat

REL = 1e-9
SPARSE_ABOVE = 4096  # more pixels than this: compare at a requested pixel set (driver op c13.at)


def pick_lines(rng, s, quota, steps):
    """`quota` distinct indices in range(s): near s/2, near the multiples of `steps` (coarsest first), then random"""
    out = []

    def add(i):
        i = min(max(i, 0), s - 1)
        if i not in out and len(out) < quota:
            out.append(i)

    add(s // 2 + rng.randint(-4, 3))
    seen = set()
    for step in steps:
        for m in range(step, s, step):
            if m not in seen:
                seen.add(m)
                add(m + rng.randint(-4, 3))
    tries = 0
    while len(out) < min(quota, s) and tries < 10 * quota + 100:
        add(rng.randrange(s))
        tries += 1
    return out


def pick_pixels(case, shape, changed):
    """row-major flat indices at which a large image is compared (all of them when the budget allows)"""
    n = int(np.prod(shape))
    budget = case.get("px_budget")
    if not isinstance(budget, int) or budget <= 0:
        # about 3 s of exact specification: its cost per pixel grows with the window area (2-D median: area^2)
        area = int(np.prod(case["block"]))
        budget = 9000 * 25 // max(25, area) if len(shape) == 2 else 3000 * 5 // max(5, area)
    if n <= budget:
        return list(range(n))
    rng = random.Random(f"c13-px:{case.get('sample_seed', 0)}")
    chosen = set()
    if len(shape) == 2:
        n0, n1 = shape
        for i in pick_lines(rng, n0, max(1, int(0.2 * budget) // n1), (256, 128, 64)):
            chosen.update(range(i * n1, (i + 1) * n1))
        for j in pick_lines(rng, n1, max(1, int(0.2 * budget) // n0), (256, 128, 64)):
            chosen.update(range(j, n, n1))
    else:
        seg = 96
        for a in pick_lines(rng, n, max(1, int(0.4 * budget) // seg), (65536, 32768, 16384, 8192, 4096)):
            chosen.update(range(max(0, a - seg // 2), min(n, a + seg // 2)))
    ch = [int(k) for k in changed]
    cap = max(1, int(0.45 * budget))
    if len(ch) > cap:
        ch = rng.sample(ch, cap)
    chosen.update(ch)
    chosen.update(rng.sample(range(n), min(n, max(1, int(0.15 * budget)))))
    return sorted(chosen)


def thr_float(t):
    return math.inf if t == "inf" else float.fromhex(t)


def build(case):
    den = case["den"]
    arr = np.array([float(Fraction(v, den) + case["offset"]) for v in case["data"]], dtype=np.float64).reshape(case["shape"])
    vals = [Fraction(float(v)) for v in arr.ravel()]  # exactly the floats handed to pewlib
    lay = case["layout"]
    if lay == "F":
        arr = np.asfortranarray(arr)
    elif lay == "strided":  # a non-contiguous view into a larger buffer
        big = np.full(tuple(2 * s for s in case["shape"]), -777.0)
        sl = tuple(slice(0, None, 2) for _ in case["shape"])
        big[sl] = arr
        arr = big[sl]
    return vals, arr


class C13(Prop):
    id = "C13"
    anchored = ["src/pewlib/process/filters.py", "src/pewlib/process/calc.py"]
    cases = {"quick": 260, "thorough": 6000}
    rule = ("1-D (n = b..60) and 2-D (sides b..26) dyadic images: noise, ramps, plateaus, two-valued ties, constants, with isolated "
            "spikes, spike clusters and constant regions; odd windows 3..9 per axis (equal or not, int or tuple), thresholds 0, "
            "finite, inf; C/F/strided layouts; offsets 0/1000/2^20. non-trivial = at least one interior pixel is replaced, or a "
            "border pixel is replaced, or the image is constant, or the threshold is 0/inf; distinct by canonical case hash. "
            "Large class (targeted, data drawn from VERIF_SEED): 2-D images above 2^16 (quick and thorough) and above 2^17 "
            "(thorough) elements, 1-D signals above 2^16 / 2^17 samples, both filters, windows 3..7, integer noise / gradient / "
            "steps / banded-amplitude data (bell-shaped or uniform noise) with many spikes, thresholds 1.2..3 (many pixels a few units from the "
            "threshold, none within the float tolerance by construction of the data); 2 per quick run, 9 per thorough run; "
            "mechanism model compared at every pixel (left out for the second quick case and the 1-D 2^17 case); specification at "
            "every pixel where mechanism and implementation differ, every changed pixel (capped), a random sample and full "
            "rows/columns/segments (see module docstring)")
    trusted = ["np.pad(mode='mean'|'median', stat_length), np.mean/np.std(where=), np.median, np.where, as_strided as documented; "
               "float evaluation of |x-m| > t*s is within 1e-9 relative (+1e-12*max|x|*(1+t) absolute) of the exact value: pixels "
               "whose exact margin is smaller may take either value; replacement values compared at 1e-9 relative"]
    assumptions = ["float64 images with dyadic values (window sums are exact); odd windows; image at least one window per axis"]

    # ------------------------------------------------------------------ generation
    def gen_data(self, rng, shape):
        n = int(np.prod(shape))
        feats = []
        style = rng.choice(["noise", "noise", "ramp", "plateau", "two", "constant", "smallnoise"])
        a = np.zeros(shape, dtype=np.int64)
        idx = np.indices(shape)
        if style == "noise":
            a = np.array([rng.randint(-40, 40) for _ in range(n)], dtype=np.int64).reshape(shape)
        elif style == "smallnoise":
            a = np.array([rng.randint(0, 3) for _ in range(n)], dtype=np.int64).reshape(shape) + 16
        elif style == "ramp":
            a = sum((k + 1) * rng.randint(-3, 3) * idx[k] for k in range(len(shape))) + rng.randint(-5, 5)
        elif style == "plateau":
            w = rng.randint(2, 6)
            lv = [rng.randint(-20, 20) for _ in range(64)]
            a = np.vectorize(lambda *ix: lv[sum(i // w for i in ix) % 64])(*idx)
        elif style == "two":
            a = np.array([rng.choice([0, 8]) for _ in range(n)], dtype=np.int64).reshape(shape)
        elif style == "constant":
            a = np.full(shape, rng.randint(-9, 9), dtype=np.int64)
        a = np.array(a, dtype=np.int64).reshape(shape)
        feats.append("data:" + style)
        if style != "constant" or rng.random() < 0.3:
            if rng.random() < 0.7:  # isolated spikes
                for _ in range(rng.randint(1, 4)):
                    p = tuple(rng.randrange(s) for s in shape)
                    a[p] += rng.choice([-1, 1]) * rng.choice([7, 50, 400, 4000])
                feats.append("spikes")
            if rng.random() < 0.35:  # a cluster of adjacent spikes
                p = [rng.randrange(s) for s in shape]
                ext = [rng.randint(1, 3) for _ in shape]
                sl = tuple(slice(q, q + e) for q, e in zip(p, ext))
                a[sl] += rng.choice([-1, 1]) * rng.choice([30, 300])
                feats.append("cluster")
            if rng.random() < 0.3:  # a constant region
                p = [rng.randrange(s) for s in shape]
                ext = [rng.randint(2, 12) for _ in shape]
                sl = tuple(slice(q, q + e) for q, e in zip(p, ext))
                a[sl] = rng.randint(-20, 20)
                feats.append("constant-region")
        return [int(v) for v in a.ravel()], feats

    # ------------------------------------------------------------------ large images (above 2^16 / 2^17 elements)
    def gen_large_data(self, rng, shape):
        n = int(np.prod(shape))
        idx = np.indices(shape)

        bell = rng.random() < 0.75  # bell-shaped integer noise: at thresholds 2..3 a few percent of the pixels are just beyond
        # the threshold and as many just inside it; uniform noise has its near-threshold pixels at 1.2..1.5

        def noise(amp):
            if bell:
                return np.array([round(rng.gauss(0.0, amp / 2.0)) for _ in range(n)], dtype=np.int64).reshape(shape)
            return np.array(rng.choices(range(-amp, amp + 1), k=n), dtype=np.int64).reshape(shape)

        style = rng.choice(["noise", "noise", "gradient", "steps", "bands"])
        if style == "noise":
            a = noise(rng.choice([5, 12, 40]))
        elif style == "gradient":
            a = sum(rng.randint(-2, 2) * idx[k] for k in range(len(shape))) + noise(rng.choice([3, 8]))
        elif style == "steps":
            w = rng.randint(16, 48)
            lv = np.array([rng.randint(-60, 60) for _ in range(64)], dtype=np.int64)
            a = lv[sum(idx[k] // w for k in range(len(shape))) % 64] + noise(rng.choice([3, 6]))
        else:  # bands of different noise amplitude along the first axis: the spread changes from window to window
            w = rng.randint(20, 90)
            lo, hi = noise(rng.choice([2, 4])), noise(rng.choice([15, 40]))
            a = np.where((idx[0] // w) % 2 == 0, lo, hi)
        a = np.array(a, dtype=np.int64).reshape(shape)
        feats = ["ldata:" + style, "lnoise:" + ("bell" if bell else "uniform")]
        if rng.random() < 0.85:  # many isolated spikes
            for _ in range(max(3, n // rng.choice([300, 1000, 3000]))):
                p = tuple(rng.randrange(s) for s in shape)
                a[p] += rng.choice([-1, 1]) * rng.choice([12, 40, 300])
            feats.append("spikes")
        if rng.random() < 0.5:  # a few clusters of adjacent spikes
            for _ in range(rng.randint(1, 6)):
                p = [rng.randrange(s) for s in shape]
                sl = tuple(slice(q, q + rng.randint(1, 3)) for q in p)
                a[sl] += rng.choice([-1, 1]) * rng.choice([30, 300])
            feats.append("cluster")
        if rng.random() < 0.4:  # a constant region
            p = [rng.randrange(s) for s in shape]
            sl = tuple(slice(q, q + rng.randint(2, 40)) for q in p)
            a[sl] = rng.randint(-20, 20)
            feats.append("constant-region")
        return [int(v) for v in a.ravel()], feats

    def gen_large(self, rng, kind, ndim, above, with_model, wide=False):
        """one image with more than `above` (2^16 or 2^17) elements"""
        if rng.random() < 0.5:
            block = [rng.choice([3, 5, 5, 7])] * ndim
        else:
            block = [rng.choice([3, 5, 7]) for _ in range(ndim)]
        if ndim == 1:
            shape = [above + rng.randint(1, 4000)]
        else:
            n1 = rng.choice([1000, 2000]) if wide else rng.choice([60, 130, 256, 256, 260, 512])
            n0 = -(-(above + rng.randint(1, 12000)) // n1)
            shape = [n0, n1]
        data, feats = self.gen_large_data(rng, shape)
        # thresholds at which the noise puts a few percent of the pixels just beyond the threshold (and as many just inside)
        thr = rng.choice([1.5, 2.0, 2.0, 2.5, 2.9, 3.0] if "lnoise:bell" in feats else [1.2, 1.2, 1.5, 1.5, 2.0])
        easy = rng.random() < 0.75
        return {"kind": kind, "shape": shape, "data": data, "den": 1 if easy else rng.choice([1, 4]),
                "offset": 0 if easy else rng.choice([0, 1000]), "block": block,
                "block_int": len(set(block)) == 1 and rng.random() < 0.5,
                "threshold": float(thr).hex(),
                "layout": rng.choice(["C", "C", "C", "F", "strided"]), "gen": ["large-targeted"] + feats,
                "with_model": with_model, "sample_seed": rng.randrange(2 ** 30)}

    def large_cases(self, tier):
        """the large class, one generator per (VERIF_SEED, tier, slot): quick = a 2-D median image plus one of
        {2-D mean, 1-D median, 1-D mean} (rotating with the seed, specification only); thorough = 9 cases"""
        seed = int(os.environ.get("VERIF_SEED", "0"))
        a16, a17 = 2 ** 16, 2 ** 17
        if tier == "quick":
            second = [("mean", 2), ("median", 1), ("mean", 1)][seed % 3]
            plan = [("median", 2, a16, True, False), (second[0], second[1], a16, False, False)]
        else:
            k17 = ["median", "mean"][seed % 2]
            plan = [("median", 2, a16, True, False), ("mean", 2, a16, True, False), ("median", 1, a16, True, False),
                    ("mean", 1, a16, True, False), ("median", 2, a17, True, False), ("mean", 2, a17, True, False),
                    ("median", 2, a16, True, True), ("median", 2, a16, True, False), (k17, 1, a17, False, False)]
        for slot, (kind, ndim, above, with_model, wide) in enumerate(plan):
            yield self.gen_large(random.Random(f"C13-large:{seed}:{tier}:{slot}"), kind, ndim, above, with_model, wide)

    def generate(self, rng, tier):
        ndim = rng.choice([1, 2, 2])
        kind = rng.choice(["mean", "median"])
        if rng.random() < 0.5:
            b = rng.choice([3, 3, 5, 5, 7, 9])
            block = [b] * ndim
        else:
            block = [rng.choice([3, 5, 7, 9]) for _ in range(ndim)]
        shape = []
        for b in block:
            hi = 60 if ndim == 1 else 26
            r = rng.random()
            if r < 0.12:
                s = b  # exactly one window
            elif r < 0.3:
                s = rng.randint(b, min(hi, 2 * b))  # no interior pixel along this axis
            else:
                s = rng.randint(min(hi, 2 * b + 1), hi)
            shape.append(s)
        data, feats = self.gen_data(rng, shape)
        t = rng.choice(["0", "0", "1/2", "1", "3/2", "2", "3", "3", "5", "10", "inf", "inf", "r", "r"])
        if t == "inf":
            thr = "inf"
        elif t == "r":
            thr = float(rng.choice([0.1, 0.3, 0.75, 1.2, 2.5, 2.9, 4.4, 1e-3, 1e3])).hex()
        else:
            thr = float(Fraction(t)).hex()
        return {"kind": kind, "shape": shape, "data": data, "den": rng.choice([1, 1, 4, 8]),
                "offset": rng.choice([0, 0, 0, 1000, 2 ** 20]), "block": block,
                "block_int": len(set(block)) == 1 and rng.random() < 0.5,
                "threshold": thr, "layout": rng.choice(["C", "C", "F", "strided"]), "gen": feats}

    def targeted(self, tier):
        # the small cases first (a gross defect is then reported, and shrunk, on a small input); the large ones after
        # them at even positions two places apart, so that the pool (chunks of two) hands them to different workers
        large = list(self.large_cases(tier))
        small = list(self.small_targeted(tier))
        k = min(len(small), max(0, len(large) - 1))
        k += (len(small) - k) % 2 if k < len(small) else 0
        head, between = small[:len(small) - k], small[len(small) - k:]
        yield from head
        for c in large:
            yield c
            if between:
                yield between.pop(0)
        yield from between

    def small_targeted(self, tier):
        base = {"den": 1, "offset": 0, "block_int": False, "layout": "C", "gen": ["targeted"]}
        # the repo's own four examples (values x10), plus the single-window, constant and inf cases
        y = [10, 11, 15, 13, 12, 11, 10, 16, 12, 13]
        for kind in ("mean", "median"):
            yield {**base, "kind": kind, "shape": [10], "data": y, "block": [5],
                   "threshold": float(3).hex()}
            d = [0] * 100
            d[55] = 100
            yield {**base, "kind": kind, "shape": [10, 10], "data": d, "block": [3, 3], "threshold": float(1).hex()}
            for thr in ("inf", float(0).hex(), float(2).hex()):
                yield {**base, "kind": kind, "shape": [3], "data": [1, 5, 2], "block": [3], "threshold": thr}
                yield {**base, "kind": kind, "shape": [7], "data": [4] * 7, "block": [3], "threshold": thr}
                yield {**base, "kind": kind, "shape": [3, 5], "data": list(range(15)), "block": [3, 5], "threshold": thr}
                yield {**base, "kind": kind, "shape": [9, 8], "data": [(7 * i * i) % 11 for i in range(72)], "block": [3, 5],
                       "threshold": thr}
                yield {**base, "kind": kind, "shape": [8, 9], "data": [(7 * i * i) % 11 for i in range(72)], "block": [5, 3],
                       "threshold": thr}
                yield {**base, "kind": kind, "shape": [23], "data": [(5 * i * i) % 13 + (90 if i == 11 else 0) for i in range(23)],
                       "block": [7], "threshold": thr}
                yield {**base, "kind": kind, "shape": [6, 6], "data": [3] * 36, "block": [3, 3], "threshold": thr, "block_int": True}

    # ------------------------------------------------------------------ evaluation
    def evaluate(self, case, ctx):
        from pewlib.process import filters

        kind, shape, block = case["kind"], case["shape"], case["block"]
        vals, x = build(case)
        t = thr_float(case["threshold"])
        snapshot = x.copy()
        blk = block[0] if case["block_int"] else tuple(block)
        fn = filters.rolling_mean if kind == "mean" else filters.rolling_median
        with warnings.catch_warnings(), np.errstate(all="ignore"):
            warnings.simplefilter("ignore")
            try:
                res = fn(x, blk, threshold=t)
                got = np.asarray(res, dtype=np.float64)
                impl = {"shape": list(got.shape), "out": [float(v) for v in got.ravel()]}
            except Exception as e:  # the quantified inputs never raise
                impl = {"raises": type(e).__name__, "msg": str(e)[:200]}
        impl["input_unchanged"] = bool(x.shape == snapshot.shape and np.array_equal(x, snapshot))

        n = len(vals)
        sparse = n > SPARSE_ABOVE
        req = dict(kind=kind, shape=shape, data=[core.rat(v) for v in vals], block=block,
                   threshold=None if math.isinf(t) else core.rat(t))
        if sparse:
            changed = []
            if "raises" not in impl and impl["shape"] == shape:
                changed = np.flatnonzero(~(got.ravel() == snapshot.ravel()))
            pixels = pick_pixels(case, shape, changed)
            rep = ctx.driver.call("c13.at", **req, pixels=pixels, model="all" if case.get("with_model", True) else "no")
            spec_at = dict(zip(pixels, rep["spec"]))
        else:
            rep = ctx.driver.call("c13.filter", **req)
            spec_at = rep["spec"]  # every pixel
        have_model = rep["shape"] is not None  # the whole-array mechanism may be left out for a large image
        scale = max(1.0, max(abs(float(v)) for v in vals))
        abs_tol = 1e-12 * scale
        halves = [b // 2 for b in block]
        idx = np.indices(shape).reshape(len(shape), -1).T if n else []

        def real_window(p):  # no padded value in the window of pixel p
            return all(h <= i < s - h for i, h, s in zip(p, halves, shape))

        def near(cell, p):
            """exact decision margin below the float tolerance -> either value is acceptable"""
            if cell["rhs"] is None:
                return False
            lhs, rhs = unrat(cell["lhs"]), unrat(cell["rhs"])
            if lhs == 0 and (kind == "median" or real_window(p) or (rhs == 0 and t != 0)):
                return False  # d is exactly 0 in floats too (exact window sums, or a constant window): never an outlier
            if kind == "mean":
                a, b = math.sqrt(lhs), math.sqrt(rhs)
            else:
                a, b = float(lhs), float(rhs)
            return abs(a - b) <= REL * max(a, b) + abs_tol * (1.0 + (0.0 if math.isinf(t) else t))

        def ok_cell(v, cell, p):
            xv, rv = float(unrat(cell["x"])), unrat(cell["repl"])
            is_x = v == xv
            is_r = core.close(v, rv, rel=REL, abs_=abs_tol)
            if near(cell, p):
                return is_x or is_r, True
            return (is_r if cell["outlier"] else is_x), False

        feats = {f"ndim{len(shape)}", "kind:" + kind, "layout:" + case["layout"],
                 "block:" + ("equal" if len(set(block)) == 1 else "different"),
                 "thr:" + ("inf" if math.isinf(t) else "zero" if t == 0 else "finite")}
        feats.update(f"b{b}" for b in block)
        feats.update(case.get("gen", []))
        if case["offset"]:
            feats.add("offset")
        if any(s == b for s, b in zip(shape, block)):
            feats.add("size==window")
        if n > 2 ** 17:
            feats.add("large:above-2^17")
        elif n > 2 ** 16:
            feats.add("large:above-2^16")
        if sparse:
            feats.add("mechanism:evaluated" if have_model else "mechanism:left-out")
        model = {"shape": rep["shape"] if have_model else "not evaluated", "input_unchanged": True}
        spec = {"shape": shape, "input_unchanged": True}
        model_ok = spec_ok = impl.get("input_unchanged", False) and "raises" not in impl
        bad_model, bad_spec, nears = [], [], 0
        cmp_model = False
        if "raises" not in impl:
            if have_model and impl["shape"] != rep["shape"]:
                model_ok = False
            if impl["shape"] != shape:
                spec_ok = False
            else:
                out = impl["out"]
                n_int = n_repl_int = n_repl_border = 0
                cmp_model = have_model and impl["shape"] == rep["shape"]
                if cmp_model:  # the mechanism at every pixel, also of a large image
                    for k in range(n):
                        ok, nr = ok_cell(out[k], rep["model"][k], tuple(int(i) for i in idx[k]))
                        nears += nr
                        if not ok:
                            bad_model.append(k)
                    if sparse:  # the specification decides about the pixels where mechanism and implementation differ
                        extra = [k for k in bad_model if k not in spec_at][:300]
                        if extra:
                            rep2 = ctx.driver.call("c13.at", **req, pixels=extra, model="no")
                            spec_at.update(zip(extra, rep2["spec"]))
                for k in (sorted(spec_at) if sparse else range(n)):
                    p = tuple(int(i) for i in idx[k])
                    s = spec_at[k]
                    if s["kind"] == "exact":
                        n_int += 1
                        ok, nr = ok_cell(out[k], s, p)
                        if not cmp_model:  # (only a large image can be without the mechanism)
                            nears += nr
                        if s["outlier"]:
                            n_repl_int += 1
                    else:
                        xv = float(unrat(s["x"]))
                        lo, hi = float(unrat(s["lo"])), float(unrat(s["hi"]))
                        tol = REL * max(abs(lo), abs(hi)) + abs_tol
                        ok = out[k] == xv or (lo - tol <= out[k] <= hi + tol)
                        if out[k] != xv:
                            n_repl_border += 1
                    if not ok:
                        bad_spec.append(k)
                if sparse:
                    spec["pixels_compared"] = len(spec_at)
                    feats.add("spec-at:all-pixels" if len(spec_at) == n else "spec-at:pixel-set")
                if n_int:
                    feats.add("has-interior")
                if n_repl_int:
                    feats.add("interior-replaced")
                if n_repl_border:
                    feats.add("border-replaced")
                if nears:
                    feats.add("near-tie-pixel")
                if len(set(case["data"])) == 1:
                    feats.add("constant-image")
            model_ok = model_ok and not bad_model
            spec_ok = spec_ok and not bad_spec
        model["mismatch_pixels"] = bad_model[:20]
        spec["mismatch_pixels"] = bad_spec[:20]
        if bad_model or bad_spec:
            k = (bad_spec or bad_model)[0]
            model["first"] = {"pixel": k, "coords": [int(i) for i in idx[k]], "impl": impl["out"][k],
                              "model": rep["model"][k] if cmp_model else None,
                              "spec": spec_at[k] if sparse and k in spec_at or not sparse else None}
        impl_view = dict(impl)
        if "out" in impl_view and len(impl_view["out"]) > 64:
            impl_view["out"] = impl_view["out"][:64] + ["..."]
        nontrivial = feats & {"interior-replaced", "border-replaced", "constant-image", "thr:zero", "thr:inf"}
        return outcome(impl_view, model, spec, spec_ok=spec_ok, model_ok=model_ok,
                       undetermined=bool(nears) and spec_ok and model_ok,
                       features=feats if nontrivial else [])

    # ------------------------------------------------------------------ shrinking
    def shrink(self, case):
        shape, block = case["shape"], case["block"]
        if len(case["data"]) > 1024:
            # a large image: every evaluation costs seconds, so cut geometrically (a half or an eighth of an axis from
            # either end), leave the whole-array mechanism out, look at fewer pixels, and simplify layout/offset/
            # denominator; no single-row cuts
            arr = np.array(case["data"], dtype=np.int64).reshape(shape)
            lean = {**case, "with_model": False, "px_budget": 4000 if len(shape) == 2 else 1500}
            for ax in range(len(shape)):
                for div in (2, 8):
                    cut = shape[ax] // div
                    if cut < 1 or shape[ax] - cut < block[ax]:
                        continue
                    for sl in (slice(0, shape[ax] - cut), slice(cut, shape[ax])):
                        s = [slice(None)] * len(shape)
                        s[ax] = sl
                        sub = arr[tuple(s)]
                        yield {**lean, "shape": list(sub.shape), "data": [int(v) for v in sub.ravel()]}
            if case["layout"] != "C":
                yield {**lean, "layout": "C"}
            if case["offset"]:
                yield {**lean, "offset": 0}
            if case["den"] != 1:
                yield {**lean, "den": 1}
            return
        arr = np.array(case["data"], dtype=object).reshape(shape)
        for ax in range(len(shape)):
            if shape[ax] > block[ax]:
                for sl in (slice(0, shape[ax] - 1), slice(1, shape[ax])):
                    s = [slice(None)] * len(shape)
                    s[ax] = sl
                    sub = arr[tuple(s)]
                    yield {**case, "shape": list(sub.shape), "data": [int(v) for v in sub.ravel()]}
        if case["layout"] != "C":
            yield {**case, "layout": "C"}
        if case["offset"]:
            yield {**case, "offset": 0}
        if case["den"] != 1:
            yield {**case, "den": 1}
        vals = sorted(set(case["data"]), key=abs)
        if vals and vals[0] != 0:
            yield {**case, "data": [v - vals[0] for v in case["data"]]}
        for k, v in enumerate(case["data"]):
            if v != 0 and len(case["data"]) <= 80:
                d = list(case["data"])
                d[k] = 0
                yield {**case, "data": d}


PROP = C13()

if __name__ == "__main__":
    sys.exit(core.main(PROP, "harness.c13"))
