"""C03 — Thermo iCap CSV import is exact and identical for rows and columns exports:
pewlib.io.thermo.icap_csv_{rows,columns}_read_data / _read_params / icap_csv_sample_format / load
against PewModel/Thermo.lean (mechanisms `readRows`, `readCols`, `readParams`, `sniff`, `load`, `gfSplit`;
specification `specImg`, `specParams`/`specScantime`, `otherFile`/`specSniffOther`).  Both layouts are written from one
acquisition; every specification value comes from the driver (computed from the acquisition, never from a reader).
Texts outside the export format (kind "text") are compared with the model only.
A '#' is data everywhere (the readers call np.genfromtxt with comments=None since e68affa; corpus fixed-e68affa-*.json).
"""
import logging
import math
import sys
import warnings
from fractions import Fraction

from harness import core, gen_thermo
from harness.core import Prop, outcome, InternalError

MARGIN = Fraction(1, 10 ** 6)
ERR = {"raises": "error"}


def fhex(v) -> str:
    v = float(v)
    if math.isnan(v):
        return "nan"
    if v == 0.0:
        return "0"
    return v.hex()


def img_impl(data, n=None, m=None):
    names = [str(x) for x in (data.dtype.names or [])]
    if data.ndim != 2:
        return {"names": names, "bad_shape": list(data.shape)}
    planes = [[[core.orat(float(v)) for v in row] for row in data[nm]] for nm in data.dtype.names]
    return {"names": names, "planes": planes}


def img_driver(j):
    if "raises" in j:
        return dict(ERR)
    return {"names": j["names"], "planes": j["planes"]}


def pval(j):
    """-> (canonical float, undetermined?)"""
    q = core.unrat(j["val"])
    m = core.unrat(j["margin"])
    return ("nan" if q is None else fhex(float(q))), (m is not None and m < MARGIN)


def params_impl(p):
    import numpy as np

    if not p:
        return {}
    out = {}
    for k, v in p.items():
        if k == "times":
            out[k] = [[core.orat(float(x)) for x in row] for row in np.asarray(v)]
        else:
            out[str(k)] = fhex(v)
    return out


def params_driver(j):
    if "raises" in j:
        return dict(ERR), False
    if not j:
        return {}, False
    st, und = pval(j["scantime"])
    return {"times": j["times"], "scantime": st}, und


def spec_params(rep):
    """the specification of the parameters as the driver computed it from the acquisition: times of the first element
    and the rounded mean interval of the Time channel"""
    st, und = pval(rep["spec_params"]["scantime"])
    return {"times": rep["spec_params"]["times"], "scantime": st}, und


def with_eol(table):
    """the Lean tables keep the line terminator in the last field of every line"""
    return [r[:-1] + [r[-1] + "\n"] for r in table]


def soft_cmp(a, b) -> str:
    """'same' / 'both-raise' / 'differ' (both import, different results) / 'import-differs' (one side raises or cannot read
    the parameters where the other can)"""
    def unread(v):
        return v == ERR or v == {}

    if unread(a) or unread(b):
        return "both-raise" if a == b else "import-differs"
    if isinstance(a, dict) and isinstance(b, dict) and set(a) == {"image", "params"} == set(b):
        vs = {soft_cmp(a["image"], b["image"]), soft_cmp(a["params"], b["params"])}
        return "differ" if "differ" in vs else "import-differs" if "import-differs" in vs else "same"
    return "same" if core.canon(a) == core.canon(b) else "differ"


DECODE_LIMIT = 20000    # characters; the model's line splitter is structurally recursive


def text_lines(ctx, path, feats=None):
    """the lines of the file as Python's text layer hands them to pewlib (codec utf-8-sig, universal newlines).  For files of
    fewer than DECODE_LIMIT characters the Lean model of that layer (`decodeLines`: byte order mark, \\r\\n and \\r, lines with
    their terminator) gets the characters of the file (bytes decoded as plain UTF-8) and must hand out the same lines."""
    with path.open("r", encoding="utf-8-sig") as fp:
        lines = list(fp)
    raw = path.read_bytes().decode("utf-8")
    if len(raw) < DECODE_LIMIT:
        rep = ctx.driver.call("c03.decode", chars=raw)
        if rep["lines"] != lines:
            raise InternalError("the Lean model of the text layer (decodeLines) and Python's text layer disagree")
        if feats is not None:
            feats.add("text-layer:modelled")
    elif feats is not None:
        feats.add("text-layer:trusted (long file)")
    return lines


def canon_call(c) -> str:
    return core.canon(c)


def call(f, *a, **k):
    try:
        return f(*a, **k)
    except Exception as e:  # noqa: BLE001 - every exception class is the same observation here
        return e


class C03(Prop):
    id = "C03"
    anchored = ["src/pewlib/io/thermo.py"]
    cases = {"quick": 400, "thorough": 8000}
    rule = ("one random acquisition (1..6 samples, 2..11 scans, 1..4 elements with spaces/brackets/'#'/32-character labels, "
            "sample names with '#' ('Sample #1', '#3'), any subset of the channels X/Y/Time/Analog/Counter, numbers with signs "
            "and exponents, now and then a '#' text in a field of the X/Y channels) written in both layouts with "
            "',' or ';' and '.' or ',' decimals, BOM on/off, CRLF/LF; explicit readers for every channel, params, sniffing, "
            "and load (use_analog on/off), every one compared with the specification the driver computes from the acquisition "
            "(pixels, element order, times of the first element, rounded mean interval, layout name); 14% of the cases: exports "
            "whose first 13..72 lines carry no decimal mark (integral values "
            "written as 0/12/-3/1e5 for the first records of the columns layout and/or the first samples of the rows layout), "
            "fractional values only later; 10%: non-export text files for the sniffer (specification: the constant 'unknown' on "
            "every text whose first and third line do not mention MainRuns); 18%: texts outside the export format (kind 'text': a "
            "small export edited line by line — blank lines and lines starting with '#', rows cut short or too long, missing sample rows or header "
            "lines, missing trailing delimiters or final terminator, '#' and blanks in names, non-integer/negative/missing scan "
            "numbers, ragged MainRuns lines, single selected lines, names with one line), where the property is silent and pewlib "
            "is compared with the model only; 10%: histories (kind 'history': 3..7 steps on up to three paths, each step optionally "
            "writes an export of either layout / another delimiter-decimal pair / a text that is no export onto the path — modification "
            "time kept by os.utime, carried over by os.replace, stamped by the file system, moved on, or one coarse second — and then "
            "calls the sniffer, load (full on/off), the data and params readers; every call judged by the Lean specification of what the "
            "path holds at that moment); the export stream also draws 30..120 elements, non-ASCII / quoted / str.splitlines-separator "
            "names, irregular Time channels, values at the ends of the binary64 range, str paths, positional arguments, "
            "comma_decimal=True on comma-free exports, load(full=False); non-trivial = every export, history and text case")
    trusted = [
        "float()/int()/str() and the field conversion of np.genfromtxt: a field parses to float(token) (NaN when that fails, "
        "loose mode), a scan field of the columns layout to int(token) (-1 when that fails); "
        "fixed-width unicode storage truncates; np.unique(return_index)+argsort = order of first appearance; "
        "boolean-mask and usecols selection = filtering the zipped columns; structured assignment broadcasts a single column; "
        "np.genfromtxt(comments=None) line handling as modelled by `gfSplit` (no comment character: '#' is data; "
        "strip(' \\r\\n'), empty lines skipped, "
        "equal field counts without usecols, a row valid with usecols once it reaches the last selected column)",
        "UTF-8 decoding of the bytes; BOM removal, universal newlines and line splitting as modelled by `decodeLines` (compared with "
        "Python's text layer on every file under 20000 characters, trusted beyond); both layouts start with the delimiter",
        "histories: os.utime / os.replace / shutil.copyfile put the files where the events sent to the driver say they are",
        "the files written by harness/gen_thermo.py are compared in every case, field by field and (read back through Python's "
        "text layer) line by line, with the tables and the text rendered by the Lean model; the model's readers run on that "
        "text split again (lines under 20000 characters) or on the table (longer lines)",
        "scantime: exact rational mean of differences; a value within 1e-6 of a rounding tie at the 4th decimal is not compared",
    ]
    assumptions = [
        "labels: non-empty, at most 32 characters; labels and sample names: no delimiter, no ',', not containing a channel "
        "name or 'MainRuns' (a '#' is allowed anywhere: sample names, labels, fields); sample names of the columns layout "
        "non-empty; every line ends with the delimiter (as Qtegra writes it)",
        "a channel that was not exported: the readers raise (compared with the model only, the property is silent)",
        "histories: load and the readers are not called on a text that is no export, a reader is only called for the layout / "
        "decimal mark / delimiter of the file its path holds (the property is silent otherwise)",
        "texts outside the export format (kind 'text'): compared with the model only. strict (rows layout, edits that only "
        "exercise str.split of the header rows and np.genfromtxt(usecols) on the sample rows; unedited columns exports): "
        "every reader, the sniffer and load equal the model, exceptions included. soft (everything else): a correspondence "
        "failure only when pewlib and the model both import and differ; a difference in whether they import is counted in the "
        "evidence (feature text:soft:import-differs) and is not a violation, because a rewrite of the readers that keeps every "
        "export importing exactly may change it; header rows of unequal number or length (three header lines, one row without its "
        "trailing delimiter or with an extra field) are soft as well (DESIGN 13.2: broadcasting of masks raises, a zip over the rows "
        "stops at the shortest — harmless rewrite C03-r4)",
    ]

    def generate(self, rng, tier):
        r = rng.random()
        if r < 0.1:
            return gen_thermo.generate_other(rng)
        if r < 0.24:    # integral values written without a decimal mark for the whole head of the file
            return gen_thermo.generate_late(rng, tier)
        if r < 0.42:    # texts outside the export format, compared with the model only
            return gen_thermo.generate_text(rng, tier)
        if r < 0.52:    # several calls in one process on paths that are rewritten in between
            return gen_thermo.generate_history(rng, tier)
        return gen_thermo.generate(rng, tier)

    def targeted(self, tier):
        import random

        # the two repaired defects: a single sample in the rows layout; files shorter than three lines
        for n, m, k in ((1, 2, 1), (1, 3, 2), (2, 2, 1), (1, 2, 3)):
            rng = random.Random(f"C03-targeted-{n}-{m}-{k}")
            c = gen_thermo.generate(rng, tier)
            while (len(c["acq"]["samples"]), c["acq"]["nscans"], len(c["acq"]["elements"])) != (n, m, k):
                c = gen_thermo.generate(rng, tier)
            for kind in ("readers", "load"):
                for ua in (False, True):
                    yield {**c, "kind": kind, "use_analog": ua}
        # '#' is data (e68affa): in sample names (first, middle, last sample), in labels, in the fields of a channel that is
        # not read; every delimiter/decimal pair, explicit readers and load, Counter and Analog
        for combo in ((",", "."), (";", "."), (";", ",")):
            for samples, elements in ((["S#1", "S2"], ["31P"]), (["S1", "S#2", "S3"], ["31P", "153Eu"]), (["1", "Sample #2"], ["#31P", "44Ca#"]),
                                      (["#"], ["31P"]), (["Sample 1", "Sample 2"], ["44Ca#"]), (["a # b #", "#3", "S#"], ["#", "63Cu #2"])):
                chans = ["X [u]", "Time", "Analog", "Counter"]
                dec = (lambda t: t.replace(".", ",")) if combo[1] == "," else (lambda t: t)
                toks = [[[[dec("#N/A" if (i + s + e) % 2 else "1.5 # x"), dec(f"{0.2 + 0.4 * e + 0.25 * s:.4f}"), dec(f"-0.{i}{s}{e}5"),
                           dec(f"{100 * i + 10 * s + e}.5")] for e in range(len(elements))] for s in range(2)] for i in range(len(samples))]
                for kind, ua in (("readers", False), ("load", False), ("load", True)):
                    yield {"kind": kind, "use_analog": ua, "delimiter": combo[0], "decimal": combo[1], "bom": False, "eol": "\r\n",
                           "explicit_delimiter": kind == "readers" and combo[0] == ";",
                           "acq": {"samples": samples, "nscans": 2, "elements": elements, "channels": chans, "tokens": toks}}
        # many samples (lines): the two header lines of the columns layout are longer than 4096 / 8192 / 16384 characters, so the
        # first MainRuns line starts beyond any fixed read-ahead window
        for nbig, combo, kind in ((180, (",", "."), "load"), (400, (";", ","), "readers"), (400, (",", "."), "load"), (900, (";", "."), "load")):
            dec = (lambda t: t.replace(".", ",")) if combo[1] == "," else (lambda t: t)
            toks = [[[[dec(f"{0.25 * s + 0.001 * (i % 7):.3f}"), dec(f"{(i * 37 + s * 11) % 1000}.5")]] for s in range(2)] for i in range(nbig)]
            yield {"kind": kind, "use_analog": False, "delimiter": combo[0], "decimal": combo[1], "bom": nbig == 400, "eol": "\r\n",
                   "explicit_delimiter": False,
                   "acq": {"samples": [f"Sample {i + 1}" for i in range(nbig)], "nscans": 2, "elements": ["31P"], "channels": ["Time", "Counter"],
                           "tokens": toks}}
        # more than 10000 scans: scan numbers with five digits
        toks = [[[[str((7 * s) % 11)]] for s in range(10001)]]
        yield {"kind": "readers", "use_analog": False, "delimiter": ",", "decimal": ".", "bom": False, "eol": "\r\n",
               "explicit_delimiter": False,
               "acq": {"samples": ["1"], "nscans": 10001, "elements": ["31P"], "channels": ["Counter"], "tokens": toks}}
        if tier == "thorough":
            # more than 65536 MainRuns lines (10 elements x 5 channels x 1400 scans) / more than 65536 scans
            for n, m, k, chans, kind in ((1, 1400, 10, ["X [u]", "Y", "Time", "Analog", "Counter"], "load"), (1, 66000, 1, ["Counter"], "readers")):
                toks = [[[[f"{0.25 * s + 0.01 * e:.2f}" if ch == "Time" else f"{(i * 7 + s * 3 + e + c) % 1000}.5" for c, ch in enumerate(chans)]
                          for e in range(k)] for s in range(m)] for i in range(n)]
                yield {"kind": kind, "use_analog": False, "delimiter": ",", "decimal": ".", "bom": False, "eol": "\r\n", "explicit_delimiter": False,
                       "acq": {"samples": [f"S{i}" for i in range(n)], "nscans": m, "elements": [f"{10 + e}X" for e in range(k)], "channels": chans,
                               "tokens": toks}}
        # no decimal mark in the first 16/17/33/65 lines (zero counts written as `0`), fractional values only later:
        # the Counter-only export of a low-abundance first isotope, each layout in turn, every delimiter/decimal pair
        for combo in ((";", ","), (";", "."), (",", ".")):
            for target in ("cols", "rows", "both"):
                for lead in (16, 17, 33, 65) if combo == (";", ",") else (17,):
                    for kind, co in (("load", True), ("load", False), ("readers", True)):
                        rng = random.Random(f"C03-late-{combo}-{target}-{lead}-{kind}-{co}")
                        yield gen_thermo.generate_late(rng, tier, target=target, lead=lead, combo=combo, kind=kind,
                                                       counter_only=co, use_analog=False if co else None)
        # every edit of the text stream once per layout (the off-domain branches of the readers)
        for lay, eds in (("rows", gen_thermo.TEXT_EDITS_ROWS + gen_thermo.TEXT_EDITS_ROWS_SOFT), ("cols", gen_thermo.TEXT_EDITS_COLS)):
            for e in eds:
                yield gen_thermo.generate_text(random.Random(f"C03-text-{lay}-{e}"), tier, layout=lay, edits=[e])
        # histories: the same path holds a rows export, then a columns export, then a text that is no export (and the reverse,
        # and the other delimiter / decimal mark), written so that the modification time stays / moves / is stamped anew;
        # sniff -> load -> readers on each; the same file twice; two paths in turn
        for how in ("keep", "replace-keep", "natural", "bump"):
            for order in (("rows", "cols", "other", "rows"), ("cols", "rows", "other-same-size", "cols"), ("other", "rows", "cols", "same"),
                          ("rows", "rows", "cols", "cols")):
                rng = random.Random(f"C03-history-{how}-{order}")
                script = [{"path": 0, "what": w, "acq": q, "how": how, "calls": cs, "mutate": q in (1, 3)}
                          for q, (w, cs) in enumerate(zip(order, (["sniff", "load"], ["sniff", "load", "data", "params"], ["load", "sniff"], ["load", "load"])))]
                yield gen_thermo.generate_history(rng, tier, script=script)
        # one path, one layout, the three delimiter / decimal-mark pairs one after the other (every order of the pairs comes up over
        # the six scripts), imported through load and through the readers each time
        for how in ("keep", "replace-keep", "clock-1s"):
            for lay in ("rows", "cols"):
                rng = random.Random(f"C03-history-decimal-{how}-{lay}")
                script = [{"path": 0, "what": lay, "acq": q % 3, "how": how, "calls": ["load", "data"] if q % 2 else ["load", "params", "load"],
                           "mutate": False} for q in range(7)]
                yield gen_thermo.generate_history(rng, tier, script=script, nacq=3)
        for order in (("rows", "cols"), ("cols", "other"), ("other", "rows")):
            rng = random.Random(f"C03-history-alternate-{order}")
            script = [{"path": q % 2, "what": order[q % 2] if q < 2 else (None if q < 4 else order[(q + 1) % 2]), "acq": q % 2, "how": "keep",
                       "calls": ["sniff", "load"], "mutate": False} for q in range(6)]
            yield gen_thermo.generate_history(rng, tier, script=script)
        for lines in ([], [""], ["A,B"], ["1,2", "3,4"], ["x", "MainRuns,0,A,Counter,1,"], ["a", "b", "c"],
                      ["a", "MainRuns", "c", "MainRuns"]):
            for final in (True, False):
                yield {"kind": "sniff_other", "lines": lines, "eol": "\n", "bom": False, "final_eol": final}

    # ------------------------------------------------------------------ evaluation
    def evaluate(self, case, ctx):
        from pewlib.io import thermo

        d = ctx.tmpdir()
        if case["kind"] == "sniff_other":
            p = d / "other.csv"
            body = case["eol"].join(case["lines"]) + (case["eol"] if case["final_eol"] and case["lines"] else "")
            p.write_bytes((b"\xef\xbb\xbf" if case["bom"] else b"") + body.encode("utf-8"))
            r = call(thermo.icap_csv_sample_format, p)
            impl = {"raises": type(r).__name__} if isinstance(r, Exception) else str(r)
            fs = set()
            decoded = text_lines(ctx, p, fs)
            # the model gets the lines as the text layer hands them to pewlib
            rep = ctx.driver.call("c03.sniff", lines=decoded)
            nl = len(case["lines"])
            feats = ["other-file", "short-file" if nl < 3 else "long-file", "bom" if case["bom"] else "no-bom"] + sorted(fs)
            if case.get("shifted"):
                feats.append("other-file:export-after-title-or-blank-lines")
            if rep["other"]:
                # "anything else": neither the first nor the third line mentions MainRuns; the specification is the constant
                # the driver returns for such a file ('unknown'), not the model's output
                return outcome(impl, rep["model"], rep["spec"], features=feats)
            # a text that mentions MainRuns where an export does, without being one (only a shrinker or a corpus file gets
            # here): the property does not say what it is called
            return outcome(impl, rep["model"], impl, hyp=False, features=feats + ["mentions-MainRuns"])
        if case["kind"] == "text":
            return self.evaluate_text(case, ctx, d)
        if case["kind"] == "history":
            return self.evaluate_history(case, ctx, d)
        a = case["acq"]
        delim = case["delimiter"]
        # comma_decimal=True may also be passed for a ';'-delimited export with decimal points: it holds no comma at all
        comma_flag = bool(case.get("comma_flag")) and delim == ";" and case["decimal"] == "."
        comma = case["decimal"] == "," or comma_flag
        trows, tcols = gen_thermo.table_rows(a), gen_thermo.table_cols(a)
        prow, pcol = d / "rows.csv", d / "cols.csv"
        gen_thermo.write(prow, trows, delim, case["eol"], case["bom"])
        gen_thermo.write(pcol, tcols, delim, case["eol"], case["bom"])
        toks = sorted({t for ps in a["tokens"] for pe in ps for pc in pe for t in pc})
        table = {}
        for t in toks:
            table[t] = core.orat(gen_thermo.value_of(t))
            table[t.replace(",", ".")] = core.orat(gen_thermo.value_of(t.replace(",", ".")))
        missing = [c for c in ("Time", "Analog", "Counter") if c not in a["channels"]]
        rep = ctx.driver.call("c03.acq", samples=a["samples"], nscans=a["nscans"], elements=a["elements"], channels=a["channels"],
                              tokens=a["tokens"], comma=comma, delimiter=delim, parse=[[k, v] for k, v in table.items()],
                              missing=missing, explicit_delimiter=bool(case["explicit_delimiter"]))
        if rep["table_rows"] != with_eol(trows) or rep["table_cols"] != with_eol(tcols):
            raise InternalError("Python table writer and Lean renderer disagree")
        # the files as Python's text layer hands them to pewlib (codec, universal newlines) are, line by line, the text
        # the Lean model rendered (and split again for its readers)
        tl_feats = set()
        for path, key in ((prow, "text_rows"), (pcol, "text_cols")):
            if text_lines(ctx, path, tl_feats) != rep[key]:
                raise InternalError("the file written and the text rendered by the Lean model disagree")
        dl = delim if case["explicit_delimiter"] else None
        impl, model, spec = {}, {}, {}
        und = False
        n, m = len(a["samples"]), a["nscans"]
        feats = {f"n{n}" if n <= 2 else "n>=3", f"m{m}" if m <= 2 else "m>=3", f"k{len(a['elements'])}" if len(a["elements"]) <= 2 else "k>=3",
                 f"delim{delim}dec{case['decimal']}", "bom" if case["bom"] else "no-bom", "crlf" if case["eol"] == "\r\n" else "lf",
                 "explicit-delimiter" if dl else "auto-delimiter", "channels:" + "+".join(c[0] for c in a["channels"]), case["kind"],
                 "model-splits-the-text" if rep["resplit"] else "model-reads-the-table"} | tl_feats
        if any("#" in x for x in a["samples"]):
            feats.add("hash:sample-name")
            feats.add("hash:sample-name:" + ("first" if "#" in a["samples"][0] else "later"))
        if any("#" in x for x in a["elements"]):
            feats.add("hash:label")
        if any("#" in t for t in toks):
            feats.add("hash:field-of-unread-channel")
        # lines of each layout before the first value written with the decimal mark (when there is one at all)
        for lay, t, hdr, lab in (("rows", trows, 4, 2), ("cols", tcols, 2, 4)):
            first = next((j for j, r in enumerate(t) if j >= hdr and any(case["decimal"] in f for f in r[lab:])), None)
            if first is not None and first >= 16:
                feats.add(f"{lay}:no-decimal-mark-in-first-{max(T for T in (16, 32, 64) if first >= T)}-lines")
                feats.add(f"unmarked-leading-run:delim{delim}dec{case['decimal']}:{case['kind']}")
            elif first is None:
                feats.add("no-decimal-mark-at-all")
        bychan = {c["channel"]: c for c in rep["channels"]}
        if comma_flag and case["kind"] == "readers":
            feats.add("comma_decimal=True-on-an-export-without-commas")
        if any(ord(ch) > 127 for x in a["samples"] + a["elements"] for ch in x):
            feats.add("names:non-ascii")
        if any(ch in x for x in a["samples"] + a["elements"] for ch in "\"'\t"):
            feats.add("names:quotes-or-tabs")
        if any(ch in x for x in a["samples"] + a["elements"] for ch in "\x0b\x0c\x1c\x85\u2028"):
            feats.add("names:separators-of-str.splitlines")
        if any(x != x.strip() or "  " in x for x in a["samples"] + a["elements"]):
            feats.add("names:leading-trailing-double-blanks")
        if len(set(a["samples"])) < len(a["samples"]):
            feats.add("names:repeated-sample-name")
        if len(a["elements"]) >= 30:
            feats.add("k>=30")
        if n >= 20 and m >= 20:
            feats.add("n>=20-and-m>=20")
        if "Time" in a["channels"]:
            ti = a["channels"].index("Time")
            first = [[gen_thermo.value_of(a["tokens"][i][s][0][ti].replace(",", ".")) for s in range(m)] for i in range(n)]
            ivs = {round(r[s + 1] - r[s], 3) for r in first for s in range(m - 1)}
            if len(ivs) > 2:
                feats.add("time:irregular-intervals")
            if any(r[s + 1] <= r[s] for r in first for s in range(m - 1)):
                feats.add("time:repeated-or-earlier-stamp")
            if n > 1 and len({tuple(round(r[s + 1] - r[s], 3) for s in range(m - 1)) for r in first}) > 1:
                feats.add("time:intervals-differ-between-samples")
        vals = [abs(gen_thermo.value_of(t.replace(",", "."))) for t in toks]
        if any(v >= 1e200 for v in vals if v == v):
            feats.add("values:>=1e200")
        if any(0 < v <= 1e-200 for v in vals if v == v):
            feats.add("values:<=1e-200")
        if any(len([ch for ch in t.split("E")[0].split("e")[0] if ch.isdigit()]) >= 17 for t in toks):
            feats.add("values:17-digits")
        as_path = (lambda q: str(q)) if case.get("path_str") else (lambda q: q)
        positional = bool(case.get("positional"))
        if case.get("path_str"):
            feats.add("call:path-as-str")
        if positional:
            feats.add("call:positional-arguments")
        with warnings.catch_warnings():
            warnings.simplefilter("ignore")
            logging.disable(logging.WARNING)
            try:
                if case["kind"] == "readers":
                    for lay, path, rd, rp in (("rows", prow, thermo.icap_csv_rows_read_data, thermo.icap_csv_rows_read_params),
                                              ("cols", pcol, thermo.icap_csv_columns_read_data, thermo.icap_csv_columns_read_params)):
                        for ua, ch in ((False, "Counter"), (True, "Analog")):
                            r = (call(rd, as_path(path), dl, comma, ua) if positional
                                 else call(rd, as_path(path), delimiter=dl, comma_decimal=comma, use_analog=ua))
                            key = f"{lay}.data.{ch}"
                            impl[key] = dict(ERR) if isinstance(r, Exception) else img_impl(r)
                            if ch in bychan:
                                model[key], spec[key] = img_driver(bychan[ch][lay]), img_driver(bychan[ch]["spec"])
                            else:  # not exported: the property is silent, the model says the reader raises
                                mm = next(x for x in rep["missing"] if x["channel"] == ch)
                                model[key] = img_driver(mm[lay])
                                spec[key] = impl[key]
                                feats.add("channel-not-exported")
                        r = call(rp, as_path(path), dl, comma) if positional else call(rp, as_path(path), delimiter=dl, comma_decimal=comma)
                        key = f"{lay}.params"
                        impl[key] = dict(ERR) if isinstance(r, Exception) else params_impl(r)
                        model[key], u1 = params_driver(rep["params_" + lay])
                        if "Time" in bychan:
                            spec[key], u2 = spec_params(rep)
                            und = und or u1 or u2
                        else:
                            spec[key] = impl[key]
                        r = call(thermo.icap_csv_sample_format, as_path(path))
                        key = f"{lay}.format"
                        impl[key] = dict(ERR) if isinstance(r, Exception) else str(r)
                        model[key] = rep["sniff_" + lay]
                        spec[key] = rep["spec_sniff_" + lay]
                        if rep["other_" + lay]:
                            raise InternalError("an export counted as 'anything else'")
                else:
                    ua = case["use_analog"]
                    ch = "Analog" if ua else "Counter"
                    for lay, path in (("rows", prow), ("cols", pcol)):
                        # full=False: the array alone
                        r = call(thermo.load, as_path(path), ua, False) if positional else call(thermo.load, as_path(path), use_analog=ua, full=False)
                        key = f"{lay}.load-data.{ch}"
                        mj = rep[f"loaddata_{lay}" + ("_analog" if ua else "")]
                        if isinstance(r, Exception):
                            impl[key] = dict(ERR)
                        elif isinstance(r, tuple):
                            impl[key] = {"bad_return": "tuple"}
                        else:
                            impl[key] = {"image": img_impl(r)}
                        model[key] = dict(ERR) if "raises" in mj else {"image": img_driver(mj["image"])}
                        spec[key] = {"image": img_driver(bychan[ch]["spec"])} if ch in bychan else impl[key]
                        r = call(thermo.load, as_path(path), ua, True) if positional else call(thermo.load, as_path(path), use_analog=ua, full=True)
                        key = f"{lay}.load.{ch}"
                        mj = rep[f"load_{lay}" + ("_analog" if ua else "")]
                        if isinstance(r, Exception):
                            impl[key] = dict(ERR)
                        else:
                            impl[key] = {"image": img_impl(r[0]), "params": params_impl(r[1])}
                        if "raises" in mj:
                            model[key] = dict(ERR)
                        else:
                            pm, u1 = params_driver(mj["params"])
                            model[key] = {"image": img_driver(mj["image"]), "params": pm}
                            und = und or u1
                        if ch in bychan:
                            sp = {"image": img_driver(bychan[ch]["spec"]), "params": {}}
                            if "Time" in bychan:
                                sp["params"], u2 = spec_params(rep)
                                und = und or u2
                            spec[key] = sp
                        else:
                            spec[key] = impl[key]
                            feats.add("channel-not-exported")
            finally:
                logging.disable(logging.NOTSET)
        if und:  # the 4th-decimal rounding of the scan time is too close to a tie: do not compare it
            feats.add("scantime-near-rounding-tie")
            for r in (impl, model, spec):
                for v in r.values():
                    if isinstance(v, dict):
                        for pd in (v, v.get("params") if isinstance(v.get("params"), dict) else None):
                            if pd and "scantime" in pd:
                                pd["scantime"] = "~"
        return outcome(impl, model, spec, features=feats)

    def evaluate_text(self, case, ctx, d):
        """a text outside the export format: every reader, the sniffer and load on the file, compared with the model
        alone (the property is silent); the model gets the lines exactly as Python's text layer hands them to pewlib"""
        from pewlib.io import thermo

        p = d / "text.csv"
        eol = case["eol"]
        body = eol.join(case["lines"]) + (eol if case["final_eol"] and case["lines"] else "")
        p.write_bytes((b"\xef\xbb\xbf" if case["bom"] else b"") + body.encode("utf-8"))
        tl_feats = set()
        lines = text_lines(ctx, p, tl_feats)    # codec and universal newlines: Python's (and the Lean model of them), not pewlib's
        dl = case["delimiter"] if case["explicit_delimiter"] else None
        comma = case["decimal"] == "," and case["delimiter"] != ","
        fields = ctx.driver.call("c03.fields", lines=lines, delimiter=dl)["fields"]
        parse, ints = [], []
        for f in fields:
            v = gen_thermo.value_of(f)
            if math.isinf(v):
                raise InternalError("an infinite value in a text case")
            parse.append([f, core.orat(v)])
            try:
                ints.append([f, int(f)])
            except ValueError:
                ints.append([f, None])
        rep = ctx.driver.call("c03.text", lines=lines, delimiter=dl, comma=comma, parse=parse, ints=ints)
        impl, model = {}, {}
        und = False
        big = 0.0
        with warnings.catch_warnings():
            warnings.simplefilter("ignore")
            logging.disable(logging.WARNING)
            try:
                for lay, rd, rp in (("rows", thermo.icap_csv_rows_read_data, thermo.icap_csv_rows_read_params),
                                    ("cols", thermo.icap_csv_columns_read_data, thermo.icap_csv_columns_read_params)):
                    for ua, ch in ((False, "Counter"), (True, "Analog")):
                        r = call(rd, p, delimiter=dl, comma_decimal=comma, use_analog=ua)
                        key = f"{lay}.data.{ch}"
                        impl[key] = dict(ERR) if isinstance(r, Exception) else img_impl(r)
                        model[key] = img_driver(rep[key])
                    r = call(rp, p, delimiter=dl, comma_decimal=comma)
                    key = f"{lay}.params"
                    impl[key] = dict(ERR) if isinstance(r, Exception) else params_impl(r)
                    model[key], u1 = params_driver(rep[key])
                    und = und or u1
                r = call(thermo.icap_csv_sample_format, p)
                impl["format"] = dict(ERR) if isinstance(r, Exception) else str(r)
                model["format"] = rep["format"]
                for ua, ch in ((False, "Counter"), (True, "Analog")):
                    r = call(thermo.load, p, use_analog=ua, full=True)
                    key = f"load.{ch}"
                    impl[key] = dict(ERR) if isinstance(r, Exception) else {"image": img_impl(r[0]), "params": params_impl(r[1])}
                    mj = rep[key]
                    if "raises" in mj:
                        model[key] = dict(ERR)
                    else:
                        pm, u1 = params_driver(mj["params"])
                        model[key] = {"image": img_driver(mj["image"]), "params": pm}
                        und = und or u1
            finally:
                logging.disable(logging.NOTSET)
        # scan time: pewlib rounds a float mean, the model an exact one; not compared close to a rounding tie or when the
        # times are large enough for the float mean to move by more than the margin
        for v in model.values():
            for pd in ((v, v.get("params")) if isinstance(v, dict) else ()):
                if isinstance(pd, dict) and "times" in pd:
                    for row in pd["times"]:
                        for q in row:
                            if q is not None:
                                big = max(big, abs(float(core.unrat(q))))
        if und or big > 1e4:
            for r in (impl, model):
                for v in r.values():
                    if isinstance(v, dict):
                        for pd in (v, v.get("params") if isinstance(v.get("params"), dict) else None):
                            if pd and "scantime" in pd:
                                pd["scantime"] = "~"
        edits = case["edits"]
        feats = {"text", f"text:{case['layout']}", "explicit-delimiter" if dl else "auto-delimiter"} | {f"text:{case['layout']}:{e}" for e in edits} | tl_feats
        reads = [k for k, v in impl.items() if k != "format" and soft_cmp(v, v) == "same"]
        feats.add("text:something-imports" if reads else "text:nothing-imports")
        if gen_thermo.is_strict(case):
            feats.add("text:strict")
            return outcome(impl, model, impl, hyp=False, features=feats)
        # soft: a correspondence failure only where both sides import and differ (see harness/gen_thermo.py)
        verdicts = {k: soft_cmp(impl[k], model[k]) for k in impl}
        if any(v == "differ" for v in verdicts.values()):
            feats.add("text:soft")
            return outcome(impl, model, impl, hyp=False, features=feats)
        skipped = sorted(k for k, v in verdicts.items() if v == "import-differs")
        feats.add("text:soft:import-differs" if skipped else "text:soft:equal")
        if skipped and set(edits) & gen_thermo.HEADER_SHAPE_EDITS:
            feats.add("text:header-rows-of-unequal-length:import-differs (recorded only)")
        return outcome(impl, impl, impl, hyp=False, features=feats,
                       note=("pewlib and the model differ in whether they import: " + ", ".join(skipped)) if skipped else "")


    def evaluate_history(self, case, ctx, d):
        """several calls in one process on one or two paths that are written again in between (other layout, other
        delimiter / decimal mark, a text that is no export; modification time kept, stamped by the file system or moved on).
        The driver gets what was exported where and when (`c03.history`): its model reads the text the path holds at the time
        of each call, its specification judges each call by what was last exported to the path."""
        import os
        import shutil

        from pewlib.io import thermo

        contents, steps = case["contents"], case["steps"]
        stage = d / "stage"
        stage.mkdir()
        toks = set()
        jcont, decoded = [], []
        for i, c in enumerate(contents):
            f = stage / f"c{i}.csv"
            if c["kind"] == "other":
                body = c["eol"].join(c["lines"]) + (c["eol"] if c["final_eol"] and c["lines"] else "")
                f.write_bytes((b"\xef\xbb\xbf" if c["bom"] else b"") + body.encode("utf-8"))
            else:
                a = c["acq"]
                gen_thermo.write(f, gen_thermo.table_rows(a) if c["kind"] == "rows" else gen_thermo.table_cols(a), c["delimiter"], c["eol"], c["bom"])
                toks |= {t for ps in a["tokens"] for pe in ps for pc in pe for t in pc}
            decoded.append(text_lines(ctx, f))
            if c["kind"] == "other":
                jcont.append({"kind": "other", "lines": decoded[-1]})
            else:
                a = c["acq"]
                jcont.append({"kind": c["kind"], "delimiter": c["delimiter"], "comma": c["decimal"] == ",", "samples": a["samples"],
                              "nscans": a["nscans"], "elements": a["elements"], "channels": a["channels"], "tokens": a["tokens"]})
        table = {}
        for t in sorted(toks):
            table[t] = core.orat(gen_thermo.value_of(t))
            table[t.replace(",", ".")] = core.orat(gen_thermo.value_of(t.replace(",", ".")))
        # the events: a call on a path that was never written (only a shrinker gets there) is left out
        events, plan = [], []
        cur, label, fresh = {}, {}, 0
        for q, st in enumerate(steps):
            p, w = st["path"], st["write"]
            if w is not None:
                if not (0 <= w < len(contents)):
                    raise InternalError("history: content index out of range")
                if p not in (0, 1, 2):
                    raise InternalError("history: unknown path")
                first = p not in cur
                how = st["how"] if (not first or st["how"] == "clock-1s") else "natural"
                oldlabel = label.get(p)
                if how == "clock-1s":
                    label[p] = 0
                elif how not in ("keep", "replace-keep"):
                    fresh += 1
                    label[p] = fresh
                events.append({"path": p, "write": w, "mtime": label[p]})
                plan.append(("write", p, w, how, cur.get(p), oldlabel == label[p]))
                cur[p] = w
            if p not in cur:
                continue
            for ci, c in enumerate(st["calls"]):
                k = contents[cur[p]]
                if c["fn"] != "sniff":
                    if k["kind"] == "other":
                        continue            # load / readers on a text that is no export: the property is silent
                    if c["fn"] in ("data", "params") and (c["rows"] != (k["kind"] == "rows") or c["comma"] != (k["decimal"] == ",")
                                                          or c["delimiter"] not in (None, k["delimiter"])):
                        continue            # a reader for another kind of file (a shrinker removed the write): silent
                events.append({"path": p, "call": c})
                plan.append(("call", p, c, f"{q}.{ci}.{c['fn']}", st["mutate"], cur[p]))
        rep = ctx.driver.call("c03.history", contents=jcont, events=events, parse=[[k, v] for k, v in table.items()])
        for i, c in enumerate(contents):
            if rep["texts"][i] != decoded[i]:
                raise InternalError("the file written and the text rendered by the Lean model disagree")
        results = list(rep["results"])
        impl, model, spec = {}, {}, {}
        und = False
        feats = {"history", f"history:steps:{min(len(steps), 6)}{'+' if len(steps) >= 6 else ''}"}
        (d / "run2").mkdir()
        paths = {0: d / "export0.csv", 1: d / "export1.csv", 2: d / "run2" / "export0.csv"}
        sniffed = {}          # path -> layout names a call has seen there (what a stale answer could come from)

        def kindname(i):
            return contents[i]["kind"]

        def run_call(c, path):
            if c["fn"] == "sniff":
                r = call(thermo.icap_csv_sample_format, path)
                return (dict(ERR) if isinstance(r, Exception) else str(r)), r
            if c["fn"] == "load":
                r = call(thermo.load, path, use_analog=c["use_analog"], full=c["full"])
                if isinstance(r, Exception):
                    return dict(ERR), r
                if c["full"]:
                    if not (isinstance(r, tuple) and len(r) == 2):
                        return {"bad_return": type(r).__name__}, r
                    return {"image": img_impl(r[0]), "params": params_impl(r[1])}, r
                if isinstance(r, tuple):
                    return {"bad_return": "tuple"}, r
                return {"image": img_impl(r)}, r
            rows = c["rows"]
            if c["fn"] == "data":
                f = thermo.icap_csv_rows_read_data if rows else thermo.icap_csv_columns_read_data
                r = call(f, path, delimiter=c["delimiter"], comma_decimal=c["comma"], use_analog=c["use_analog"])
                return (dict(ERR) if isinstance(r, Exception) else img_impl(r)), r
            f = thermo.icap_csv_rows_read_params if rows else thermo.icap_csv_columns_read_params
            r = call(f, path, delimiter=c["delimiter"], comma_decimal=c["comma"])
            return (dict(ERR) if isinstance(r, Exception) else params_impl(r)), r

        def scrub(r):
            """the caller edits what it was handed (its own arrays): a later import must not see that"""
            import numpy as np

            for v in (r if isinstance(r, tuple) else (r,)):
                if isinstance(v, np.ndarray) and v.dtype.names:
                    for nm in v.dtype.names:
                        v[nm] = -7.0
                elif isinstance(v, dict):
                    for vv in v.values():
                        if isinstance(vv, np.ndarray):
                            vv[...] = -7.0
                    v["scantime"] = -7.0

        def driver_out(c, j):
            if j is None:
                return None, False
            if c["fn"] == "sniff":
                return j, False
            if c["fn"] == "load":
                if "raises" in j:
                    return dict(ERR), False
                o, u = {"image": img_driver(j["image"])}, False
                if "params" in j:
                    o["params"], u = params_driver(j["params"])
                return o, u
            if c["fn"] == "data":
                return img_driver(j), False
            return params_driver(j)

        with warnings.catch_warnings():
            warnings.simplefilter("ignore")
            logging.disable(logging.WARNING)
            try:
                for item in plan:
                    if item[0] == "write":
                        _, p, w, how, before, kept = item
                        path = paths[p]
                        src = stage / f"c{w}.csv"
                        old = os.stat(path) if path.exists() else None
                        if how == "replace-keep":
                            tmp = d / "incoming.csv"
                            shutil.copyfile(src, tmp)
                            os.utime(tmp, ns=(old.st_atime_ns, old.st_mtime_ns))
                            os.replace(tmp, path)
                        else:
                            shutil.copyfile(src, path)
                            if how == "keep":
                                os.utime(path, ns=(old.st_atime_ns, old.st_mtime_ns))
                            elif how == "bump" and old is not None:
                                os.utime(path, ns=(old.st_atime_ns, old.st_mtime_ns + 10 ** 9))
                            elif how == "clock-1s":
                                os.utime(path, ns=(1_700_000_000 * 10 ** 9, 1_700_000_000 * 10 ** 9))
                        if before is not None:
                            a, b = kindname(before), kindname(w)
                            if before == w or contents[before] == contents[w]:
                                feats.add("history:rewrite:same-content")
                            else:
                                feats.add(f"history:rewrite:{a}->{b}")
                                if "other" not in (a, b) and (contents[before]["delimiter"], contents[before]["decimal"]) != (contents[w]["delimiter"], contents[w]["decimal"]):
                                    feats.add("history:rewrite:other-delimiter-or-decimal")
                                    if kept and (contents[before]["decimal"] == ",") != (contents[w]["decimal"] == ","):
                                        feats.add("history:rewrite:other-decimal-mark-same-mtime")
                                if a != b and a in sniffed.get(p, ()):
                                    feats.add("history:stale-answer-possible:" + ("mtime-kept" if kept else "mtime-" + how))
                                if gen_thermo.content_size(contents[before]) == gen_thermo.content_size(contents[w]) and kept:
                                    feats.add("history:rewrite:same-size-same-mtime")
                        feats.add(f"history:write:{how}")
                        continue
                    _, p, c, key, mutate, at = item
                    j = results.pop(0)
                    as_str = (len(impl) % 3) == 2      # the path as a str instead of a Path, every third call
                    got, raw = run_call(c, str(paths[p]) if as_str else paths[p])
                    impl[key] = got
                    model[key], u1 = driver_out(c, j["model"])
                    sp, u2 = driver_out(c, j["spec"])
                    und = und or u1 or u2
                    if sp is None:      # a channel that was not exported: the property is silent, the model says the call raises
                        spec[key] = got
                        feats.add("channel-not-exported")
                    else:
                        spec[key] = sp
                    if c["fn"] in ("sniff", "load"):
                        sniffed.setdefault(p, set()).add(kindname(at))
                    feats.add(f"history:call:{c['fn']}" + (":full=False" if c["fn"] == "load" and not c["full"] else ""))
                    if mutate and not isinstance(raw, (Exception, str)):
                        scrub(raw)
                        feats.add("history:caller-edits-result")
            finally:
                logging.disable(logging.NOTSET)
        if results:
            raise InternalError("history: calls and results out of step")
        seen = {}
        for item in plan:
            if item[0] == "call":
                k = (item[1], item[5], canon_call(item[2]))
                seen[k] = seen.get(k, 0) + 1
        if any(v > 1 for v in seen.values()):
            feats.add("history:same-call-twice-on-one-file")
        if len({item[1] for item in plan}) > 1:
            feats.add("history:two-paths")
        if und:
            feats.add("scantime-near-rounding-tie")
            for r in (impl, model, spec):
                for v in r.values():
                    if isinstance(v, dict):
                        for pd in (v, v.get("params") if isinstance(v.get("params"), dict) else None):
                            if pd and "scantime" in pd:
                                pd["scantime"] = "~"
        return outcome(impl, model, spec, features=feats)

    def shrink(self, case):
        if case["kind"] == "sniff_other":
            ls = case["lines"]
            for i in range(len(ls)):
                yield {**case, "lines": ls[:i] + ls[i + 1:]}
            return
        if case["kind"] == "text":      # compared with the model only: never shrunk towards another text
            return
        if case["kind"] == "history":
            st = case["steps"]
            for i in range(len(st)):
                if len(st) > 1:
                    yield {**case, "steps": st[:i] + st[i + 1:]}
            for i in range(len(st)):
                cs = st[i]["calls"]
                for j in range(len(cs)):
                    if len(cs) > 1:
                        yield {**case, "steps": st[:i] + [{**st[i], "calls": cs[:j] + cs[j + 1:]}] + st[i + 1:]}
                if st[i]["mutate"]:
                    yield {**case, "steps": st[:i] + [{**st[i], "mutate": False}] + st[i + 1:]}
            return
        a = case["acq"]
        n, m, k, C = len(a["samples"]), a["nscans"], len(a["elements"]), len(a["channels"])
        T = a["tokens"]
        if n > 8:      # long unmarked runs: halve from either end before going one by one
            yield {**case, "acq": {**a, "samples": a["samples"][:n // 2], "tokens": T[:n // 2]}}
            yield {**case, "acq": {**a, "samples": a["samples"][n // 2:], "tokens": T[n // 2:]}}
        if m > 8:
            yield {**case, "acq": {**a, "nscans": m // 2, "tokens": [ps[:m // 2] for ps in T]}}
        if n > 1:
            yield {**case, "acq": {**a, "samples": a["samples"][:-1], "tokens": T[:-1]}}
            yield {**case, "acq": {**a, "samples": a["samples"][1:], "tokens": T[1:]}}
        if m > 2:
            yield {**case, "acq": {**a, "nscans": m - 1, "tokens": [ps[:-1] for ps in T]}}
        if k > 1:
            for e in range(k):
                yield {**case, "acq": {**a, "elements": a["elements"][:e] + a["elements"][e + 1:],
                                       "tokens": [[pe[:e] + pe[e + 1:] for pe in ps] for ps in T]}}
        if C > 1:
            for c in range(C):
                yield {**case, "acq": {**a, "channels": a["channels"][:c] + a["channels"][c + 1:],
                                       "tokens": [[[pc[:c] + pc[c + 1:] for pc in pe] for pe in ps] for ps in T]}}
        if case["bom"]:
            yield {**case, "bom": False}


PROP = C03()

if __name__ == "__main__":
    sys.exit(core.main(PROP, "harness.c03"))
