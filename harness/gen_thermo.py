"""Synthetic Qtegra iCap CSV exports, both layouts written from ONE acquisition, and the C03 case generator.

acquisition (JSON): {"samples": [names], "nscans": m, "elements": [labels], "channels": [exported channels, export order],
                     "tokens": [sample][scan][element][channel] -> text exactly as written (decimal mark included)}
Layouts (see /repo/tests/data/thermo):
  columns: <d><d><d><d>S1<d>S2<d>...<d>            one "MainRuns,<scan>,<element>,<channel>,v1,v2,...," line per
           <d><d><d><d><Identifier><d>...<d>        element, channel, scan (in that nesting order)
  rows:    four header rows (MainRuns / scan / element / channel per column; two leading empty fields), then one
           row per sample: <name><d><Identifier><d>values...<d>; columns nested scan, element, channel
Every line ends with the delimiter, as Qtegra writes it.
A '#' is an ordinary character of a sample name, a label or a field (pewlib reads the files with comments=None since e68affa):
SAMPLES and LABELS hold such names, `hash_field` writes fields of the X / Y channels (which no reader asks for) that are
nothing but a '#' text.
"""
from __future__ import annotations

import math

CHANNELS = ["X", "Y", "Time", "Analog", "Counter"]
LABELS = ["31P", "153Eu", "182W", "56Fe | 56Fe.16O", "A", "Ca44", "13C", "x y", "Pb208 (KED)", "b-1", "Zn66", "[40Ar16O]+",
          "u" * 32, "238U", "7Li", "E.1", "0", "12", "44Ca#", "#31P", "63Cu #2", "#"]
SAMPLES = ["Sample 1", "1", "S-2", "line 003", "2", "std_10ppm", "Sample 10", "x", "3", "blank (2)", "Sample #1", "#3", "S#", "a # b #"]
HASH_FIELDS = ["#", "#N/A", "n/a #2", "1.5 # checked", "#VALUE!"]
# names a user may type into Qtegra: accents, CJK, Greek, quotes, apostrophes, tabs, leading / trailing / double blanks, a
# dash that is not ASCII, the line separators Python's str.splitlines knows and the text layer does not (\x0b \x0c \x1c
# \x85 \u2028), names that repeat (the columns layout only counts them, the rows layout ignores them)
SAMPLES_X = ["Probe é", "試料 1", "µ-std", '"quoted"', "it's", "a\tb", "Ω", " lead", "trail ", "two  blanks", "Zr–Hf", "naïve café",
             "page\x0cbreak", "nel\x85", "ls\u2028sep", "vt\x0bx", "fs\x1cx", "Sample", "Sample", "Sample", "'", '"', "«S»", "№ 7"]
LABELS_X = ["²⁰⁸Pb", "Pb 208", ' 31P', "31P ", '"31P"', "P'", "Fe→FeO", "µ", "αβγ", "試", "é" * 32, "Ca\t44", "Ar\u2028O", "U\x0c238",
            "<Identifier>", "Sample 1", "1e5", "-1", "NaN", "0.5"]


def value_of(tok: str) -> float:
    try:
        return float(tok)
    except ValueError:
        return math.nan


def cells_cols(m, k, C):
    return [(s, e, c) for e in range(k) for c in range(C) for s in range(m)]


def cells_rows(m, k, C):
    return [(s, e, c) for s in range(m) for e in range(k) for c in range(C)]


def table_cols(a):
    n, m, k, C = len(a["samples"]), a["nscans"], len(a["elements"]), len(a["channels"])
    t = [[""] * 4 + list(a["samples"]) + [""], [""] * 4 + ["<Identifier>"] * n + [""]]
    for s, e, c in cells_cols(m, k, C):
        t.append(["MainRuns", str(s), a["elements"][e], a["channels"][c]] + [a["tokens"][i][s][e][c] for i in range(n)] + [""])
    return t


def table_rows(a):
    n, m, k, C = len(a["samples"]), a["nscans"], len(a["elements"]), len(a["channels"])
    cells = cells_rows(m, k, C)
    t = [["", ""] + ["MainRuns"] * len(cells) + [""], ["", ""] + [str(s) for s, e, c in cells] + [""],
         ["", ""] + [a["elements"][e] for s, e, c in cells] + [""], ["", ""] + [a["channels"][c] for s, e, c in cells] + [""]]
    for i in range(n):
        t.append([a["samples"][i], "<Identifier>"] + [a["tokens"][i][s][e][c] for s, e, c in cells] + [""])
    return t


def text(table, delimiter, eol):
    return eol.join(delimiter.join(r) for r in table) + eol


def write(path, table, delimiter, eol, bom):
    data = text(table, delimiter, eol).encode("utf-8")
    path.write_bytes((b"\xef\xbb\xbf" if bom else b"") + data)


def number(rng) -> str:
    k = rng.random()
    if k < 0.35:
        return repr(round(rng.uniform(0, 3000), rng.randint(1, 13)))
    if k < 0.5:
        return str(rng.randint(0, 100000))
    if k < 0.65:
        return repr(round(rng.uniform(-1, 1), rng.randint(3, 17)))                # Analog-like, negatives
    if k < 0.8:
        return f"{rng.uniform(-5, 5) * 10 ** rng.randint(-12, 9):.{rng.randint(1, 15)}E}"   # 4.21815165292058E-07
    if k < 0.88:
        return rng.choice(["0", "-0.5", "2.5000002500000247", "1e3", "-1.5E-7", "1E+05", "30.974000930786133", "-12"])
    if k < 0.9:
        return rng.choice(["NaN", "nan"])
    return repr(rng.random() * 10 ** rng.randint(0, 6))


def number_extreme(rng) -> str:
    """values at the ends of the binary64 range and with 17 significant digits (none overflows to infinity)"""
    k = rng.random()
    if k < 0.2:
        return rng.choice(["1.7976931348623157e308", "-1.7976931348623157E+308", "1e308", "8.98846567431158E+307", "4.9e-324", "5E-324",
                           "2.2250738585072014e-308", "-2.225073858507201E-308", "1e-400", "-1E-400"])
    if k < 0.45:
        return repr(rng.uniform(-1, 1) * 10.0 ** rng.randint(-300, 300))
    if k < 0.6:
        return f"{rng.uniform(-10, 10) * 10.0 ** rng.randint(-300, 290):.16E}"          # 17 significant digits, exponent form
    if k < 0.75:
        return f"{rng.uniform(0, 1e6):.17g}"                                               # 17 significant digits, positional
    if k < 0.85:
        return rng.choice(["12345678901234567890", "-98765432109876543210", "9007199254740993", "18446744073709551616",
                           "0.1000000000000000055511151231257827", "123456789.123456789123456789"])
    if k < 0.93:
        return rng.choice(["0", "-0", "0.0", "-0.0", "0E+00", "-0.0E-00", "0.000000000000000000"])
    return rng.choice(["1E+05", "1e-7", "-1.5E-300", "6.02214076E+23", "1.0E0", "-1e0"])


def labels_many(rng, k):
    """k distinct isotope labels (mass number + symbol), in an order that is neither numeric nor lexicographic"""
    syms = ["H", "Li", "Be", "B", "C", "N", "O", "F", "Na", "Mg", "Al", "Si", "P", "S", "Cl", "K", "Ca", "Sc", "Ti", "V", "Cr", "Mn", "Fe",
            "Co", "Ni", "Cu", "Zn", "Ga", "Ge", "As", "Se", "Br", "Rb", "Sr", "Y", "Zr", "Nb", "Mo", "Ru", "Rh", "Pd", "Ag", "Cd", "In", "Sn",
            "Sb", "Te", "I", "Cs", "Ba", "La", "Ce", "Pr", "Nd", "Sm", "Eu", "Gd", "Tb", "Dy", "Ho", "Er", "Tm", "Yb", "Lu", "Hf", "Ta", "W",
            "Re", "Os", "Ir", "Pt", "Au", "Hg", "Tl", "Pb", "Bi", "Th", "U"]
    out, seen = [], set()
    while len(out) < k:
        lab = f"{rng.randint(1, 260)}{rng.choice(syms)}"
        if lab not in seen:
            seen.add(lab)
            out.append(lab)
    return out


def time_tokens(rng, n, m, k, irregular):
    """[sample][scan][element] -> text of the Time channel.  regular: one interval for the whole acquisition (jitter of
    1e-5); irregular: every sample has its own intervals (0.05 .. 3.7 s, now and then a long pause, a repeated or an earlier
    time stamp) and its own start, so the mean interval depends on every sample and every scan"""
    def fmt(v):
        tok = f"{v:.5f}".rstrip("0")
        return tok + "0" if tok.endswith(".") else tok

    if not irregular:
        dt = rng.choice([1.0049, 0.2, 0.25, 0.50005, 0.1, 2.0])
        return [[[fmt(0.2 + 0.4 * e + s * dt + rng.choice([0, 1, -1, 2, 3]) * 1e-5) for e in range(k)] for s in range(m)] for i in range(n)]
    out = []
    start = rng.choice([0.0, 0.2, 12.5, 3600.0, 9000.125])
    for i in range(n):
        t = start + (rng.choice([0.0, 0.3, 7.0, 100.0]) * i)
        per_scan = []
        for s in range(m):
            if s:
                r = rng.random()
                t += (rng.choice([0.05, 0.1, 0.25, 0.5, 1.0, 1.0049, 2.0, 3.7]) if r < 0.8 else rng.choice([30.0, 12.34567]) if r < 0.9
                      else 0.0 if r < 0.95 else -0.5)
            per_scan.append([fmt(t + 0.4 * e + rng.choice([0, 1, -1, 2, 3]) * 1e-5) for e in range(k)])
        out.append(per_scan)
    return out


def sample_names(rng, n, p_named):
    """n sample names: drawn from SAMPLES, or numbered ("Sample 3", one time in four "Sample #3")"""
    if rng.random() < p_named and n <= len(SAMPLES):
        return rng.sample(SAMPLES, n)
    stem = "Sample #" if rng.random() < 0.25 else "Sample "
    return [f"{stem}{i + 1}" for i in range(n)]


def hash_field(rng, ch):
    """a field of a channel no reader asks for (X, Y) that is no number at all and carries a '#'; None: write a number"""
    if ch[0] in "XY" and rng.random() < 0.04:
        return rng.choice(HASH_FIELDS)
    return None


def generate(rng, tier):
    n = rng.choice([1, 1, 2, 2, 3, 4, 6])
    m = rng.choice([2, 2, 3, 4, 5, 8, 11])
    k = rng.choice([1, 1, 2, 3, 4])
    big = rng.random()
    many = False
    if big < 0.04:      # many samples: header lines of the columns layout far longer than any read-ahead buffer
        n, m, k = rng.choice([80, 150, 400]), 2, 1
    elif big < 0.08:    # many scans: every line of the rows layout is long
        n, m, k = 1, rng.choice([300, 1100]), rng.choice([1, 2])
    elif big < 0.13:    # many elements (a full-mass-range method): 30 .. 120 labels, order of first appearance
        n, m, k, many = rng.choice([1, 2, 3]), rng.choice([2, 2, 3]), rng.choice([30, 64, 120]), True
    elif big < 0.15:    # everything moderately large at once
        n, m, k = rng.choice([20, 30]), rng.choice([20, 25]), rng.choice([2, 3])
    exotic = rng.random() < 0.15 and n <= 12          # accents, CJK, quotes, tabs, odd separators, repeated sample names
    irregular = rng.random() < 0.25                    # a Time channel with its own intervals in every sample
    extreme = rng.random() < 0.12                      # values at the ends of the binary64 range, 17 significant digits
    delimiter, decimal = rng.choice([(",", "."), (";", "."), (";", ",")])
    xname = rng.choice(["X [u]", "X (u)"])
    extra = [c for c in CHANNELS[:-1] if rng.random() < 0.55]
    if rng.random() < 0.9:
        extra.append("Counter")
    channels = [xname if c == "X" else c for c in CHANNELS if c in extra]
    if not channels:
        channels = ["Counter"]
    if many:
        elements = labels_many(rng, k)
    elif exotic and k <= len(LABELS_X):
        elements = rng.sample(list(dict.fromkeys(LABELS_X + LABELS[:6])), k)
    else:
        elements = rng.sample(list(dict.fromkeys(LABELS + labels_many(rng, 8))), k)
    if exotic and rng.random() < 0.25:
        samples = [rng.choice(["Sample", "1", "é"])] * n          # every line has the same name
    elif exotic:
        samples = [rng.choice(SAMPLES_X) for _ in range(n)]
    else:
        samples = sample_names(rng, n, 0.7)
    times = time_tokens(rng, n, m, k, irregular) if "Time" in channels else None
    tokens = []
    for i in range(n):
        per_scan = []
        for s in range(m):
            per_el = []
            for e in range(k):
                per_ch = []
                for ch in channels:
                    if ch == "Time":
                        tok = times[i][s][e]
                    else:
                        tok = hash_field(rng, ch) or (number_extreme(rng) if extreme and rng.random() < 0.5 else number(rng))
                    per_ch.append(tok.replace(".", ",") if decimal == "," else tok)
                per_el.append(per_ch)
            per_scan.append(per_el)
        tokens.append(per_scan)
    kind = rng.choice(["readers", "readers", "load"])
    return {"kind": kind, "use_analog": rng.random() < 0.4, "delimiter": delimiter, "decimal": decimal, "bom": rng.random() < 0.5,
            "eol": rng.choice(["\r\n", "\r\n", "\n"]), "explicit_delimiter": rng.random() < 0.4,
            "comma_flag": delimiter == ";" and decimal == "." and rng.random() < 0.35,   # comma_decimal=True on a file without commas
            "path_str": rng.random() < 0.3, "positional": rng.random() < 0.2,
            "acq": {"samples": samples, "nscans": m, "elements": elements, "channels": channels, "tokens": tokens}}


LEADS = [13, 14, 15, 16, 17, 18, 20, 24, 31, 32, 33, 34, 40, 48, 63, 64, 65, 66, 72]


def unmarked(rng) -> str:
    """a value written WITHOUT a decimal mark: Qtegra writes zero counts as a plain `0`, whole counts as `12`"""
    k = rng.random()
    if k < 0.45:
        return "0"
    if k < 0.75:
        return str(rng.randint(0, 100000))
    if k < 0.85:
        return str(-rng.randint(1, 40))
    if k < 0.96:
        return rng.choice(["1e5", "1E+05", "3E-07", "-2e3", "12", "-3", "7E2"])
    return rng.choice(["NaN", "nan"])


def fractional(rng) -> str:
    """a value with a decimal mark and (almost always) a fractional part"""
    return f"{rng.uniform(0.01, 3000):.{rng.randint(1, 9)}f}"


def generate_late(rng, tier, target=None, lead=None, combo=None, kind=None, counter_only=None, use_analog=None):
    """an export whose first `lead` lines carry no decimal mark at all (integral values written as `0`, `12`, `-3`, `1e5`:
    the first `lead - 2` records of the columns layout and/or the first `lead - 4` samples of the rows layout), fractional
    values only later in the file.  `target` says which layout(s) get the unmarked leading run."""
    target = target or rng.choice(["cols", "cols", "rows", "rows", "both"])
    lead = lead or rng.choice(LEADS)
    delimiter, decimal = combo or rng.choice([(",", "."), (";", "."), (";", ","), (";", ","), (";", ",")])
    use_analog = (rng.random() < 0.3) if use_analog is None else use_analog
    read = "Analog" if use_analog else "Counter"
    if counter_only is None:
        counter_only = rng.random() < 0.35
    if counter_only:
        channels = [read]
    else:
        xname = rng.choice(["X [u]", "X (u)"])
        extra = {c for c in CHANNELS if rng.random() < 0.5} | {read}
        channels = [xname if c == "X" else c for c in CHANNELS if c in extra]
    C, cr = len(channels), channels.index(read)
    R = lead - 2 if target in ("cols", "both") else 0       # records of the columns layout without a mark
    S = lead - 4 if target in ("rows", "both") else 0       # samples of the rows layout without a mark
    if target == "rows":
        n, m, k = S + rng.randint(1, 3), rng.choice([2, 2, 3, 4]), rng.choice([1, 1, 2])
    else:
        n = S + rng.randint(1, 3) if target == "both" else rng.choice([1, 1, 2, 3])
        k = rng.choice([1, 1, 2, 3])
        m = max(2, (R + rng.randint(0, 6)) // (k * C) + 1)
        while ((k - 1) * C + cr) * m + m - 1 < R:           # a record of the channel that is read lies past the run
            m += 1
    elements = rng.sample(LABELS, k)
    samples = sample_names(rng, n, 0.5)
    dt, dti = rng.choice([1.0049, 0.2, 0.25, 0.50005, 0.1, 2.0]), rng.choice([1, 1, 2])
    sparse = rng.random() < 0.4                             # most later values integral as well
    tokens = []
    for i in range(n):
        per_scan = []
        for s in range(m):
            per_el = []
            for e in range(k):
                per_ch = []
                for c, ch in enumerate(channels):
                    run = (e * C + c) * m + s < R or i < S
                    if ch == "Time":
                        if run:
                            tok = str(e + s * dti)
                        else:
                            tok = f"{0.2 + 0.4 * e + s * dt + rng.choice([0, 1, -1, 2, 3]) * 1e-5:.5f}".rstrip("0")
                            tok = tok + "0" if tok.endswith(".") else tok
                    elif run:
                        tok = unmarked(rng)
                    elif (i, s, e, c) == (n - 1, m - 1, k - 1, cr):
                        tok = fractional(rng)
                    elif sparse and rng.random() < 0.8:
                        tok = unmarked(rng)
                    else:
                        tok = number(rng)
                    per_ch.append(tok.replace(".", ",") if decimal == "," else tok)
                per_el.append(per_ch)
            per_scan.append(per_el)
        tokens.append(per_scan)
    kind = kind or rng.choice(["load", "load", "load", "readers"])
    return {"kind": kind, "use_analog": use_analog, "delimiter": delimiter, "decimal": decimal, "bom": rng.random() < 0.5,
            "eol": rng.choice(["\r\n", "\r\n", "\n"]), "explicit_delimiter": rng.random() < 0.4,
            "acq": {"samples": samples, "nscans": m, "elements": elements, "channels": channels, "tokens": tokens}}


OTHER_LINES = ["", "A,B,C", "1,2,3", "0.5\t0.25", "MainRun,1,2", "mainruns,0,31P,Counter,1", "<Identifier>", "Time,31P,153Eu", "x;y;z",
               ",,,,Sample 1,Sample 2,", "# comment", "1.0,2.0", "Main Runs"]


def generate_other(rng):
    """text files that are not iCap exports: 0..6 lines, never 'MainRuns' on line 0 or 2; one time in four an export that
    is preceded by a title line or blank lines, so that MainRuns stands on every line but the first and the third"""
    if rng.random() < 0.25:
        delimiter, decimal = rng.choice([(",", "."), (";", "."), (";", ",")])
        a = small_acq(rng, decimal)
        layout = rng.choice(["rows", "cols", "cols"])
        body = [delimiter.join(r) for r in (table_rows(a) if layout == "rows" else table_cols(a))]
        lead = [rng.choice(["", "Qtegra export", delimiter * 4, "sep=" + delimiter]) for _ in range(1 if layout == "rows" else rng.choice([1, 2, 3]))]
        lines = lead + body
        if layout == "rows":
            lines = lines[:2] + [ln.replace("MainRuns", "Main Runs") for ln in lines[2:3]] + lines[3:]
        return {"kind": "sniff_other", "lines": lines, "eol": rng.choice(["\n", "\r\n"]), "bom": rng.random() < 0.3, "final_eol": True,
                "shifted": layout}
    nl = rng.choice([0, 1, 2, 2, 3, 4, 6])
    lines = [rng.choice(OTHER_LINES) for _ in range(nl)]
    for j in range(nl):
        if j not in (0, 2) and rng.random() < 0.35:
            lines[j] = "MainRuns,0,31P,Counter,1.0,"
    return {"kind": "sniff_other", "lines": lines, "eol": rng.choice(["\n", "\r\n"]), "bom": rng.random() < 0.3,
            "final_eol": rng.random() < 0.7}


# ----------------------------------------------------------------------------- texts outside the export format
# A "text" case is a file given line by line (no terminators), derived from a small valid export by the edits below.
# The property is silent about every one of them: pewlib is compared with the Lean model only, in one of two ways.
#   strict : rows layout, edits from TEXT_EDITS_ROWS only.  These touch nothing but what `str.split` does with the four
#            header rows and what `np.genfromtxt(usecols=..., comments=None)` does with the sample rows (blank lines are
#            skipped, a line that starts with '#' is a row like any other — too short, the reader raises —, text after a
#            '#' stays in its field, blanks at the line ends are stripped, a row counts as soon as it reaches the last
#            selected column, no row at all gives an image without samples).  Every reader, the sniffer and load must equal the model,
#            exceptions included.
#   soft   : everything else (the columns layout, whose outcome hangs on how the reader compares the field counts of
#            MainRuns lines, converts scan numbers and treats a single selected line; scan numbers and names that leave
#            gaps or single columns or several columns per scan; names that pick up the line terminator).  A rewrite of the readers that keeps every
#            export importing exactly may raise where the code now imports or the reverse, so only this is a
#            correspondence failure: both pewlib and the model import and the results differ.  A difference in WHETHER
#            they import is written into the evidence (feature `text:soft:import-differs`) and is not a violation.
TEXT_EDITS_ROWS = ["none", "no-sample-rows", "row-without-trailing-delimiter", "rows-without-trailing-delimiter", "row-cut-after-selection",
                   "row-cut-inside-selection", "row-with-extra-fields", "blank-line-end", "blank-line-middle", "blanks-line", "comment-line",
                   "comment-after-row", "hash-in-sample-name", "hash-in-label", "blanks-around-row",
                   "one-header-row-without-trailing-delimiter", "no-final-eol", "three-header-lines", "four-header-lines-no-eol",
                   "header-row-longer", "blanks-in-value"]
TEXT_EDITS_ROWS_SOFT = ["header-without-trailing-delimiter", "one-field-channel-row", "scan-not-integer", "scan-float", "scan-negative", "scan-gap", "scan-empty",
                        "single-column-name"]
TEXT_EDITS_COLS = ["none", "blank-line-end", "blank-line-middle", "blanks-line", "comment-line", "comment-after-line", "comment-cuts-delimiter",
                   "hash-in-sample-name", "hash-in-label", "no-final-eol", "lines-without-trailing-delimiter", "lines-with-extra-delimiter",
                   "empty-sample-name", "blank-sample-name", "no-selected-line", "one-selected-line", "first-line-blank",
                   "blanks-in-value", "mainruns-prefix-line", "channel-as-substring", "lines-too-short",
                   "scan-not-integer", "scan-not-integer-all", "scan-float", "scan-negative", "scan-empty", "line-with-extra-field",
                   "line-without-trailing-delimiter", "line-missing", "single-line-name"]
# Header rows that differ in number or length (a missing fourth row, one row without its trailing delimiter, one row with an
# extra field): whether such a file is imported or refused hangs on HOW the four rows are combined (NumPy broadcasting of masks
# raises, a zip over the rows stops at the shortest) — no clause of the property speaks about it and the file is outside the
# quantifier, so by DESIGN 13.2 these edits are soft: a difference in whether pewlib and the model import is recorded only.
HEADER_SHAPE_EDITS = {"three-header-lines", "one-header-row-without-trailing-delimiter", "header-row-longer"}
STRICT_ROWS = set(TEXT_EDITS_ROWS) - HEADER_SHAPE_EDITS


def is_strict(case) -> bool:
    """rows layout with strict edits only, or an unedited columns export with at least two scans (edit "none")"""
    if case["layout"] == "cols":
        return case["edits"] == ["none"]
    return all(e in STRICT_ROWS for e in case["edits"])


def small_acq(rng, decimal):
    n, m, k = rng.choice([1, 2, 2, 3]), rng.choice([1, 2, 2, 3, 4]), rng.choice([1, 1, 2, 3])
    channels = [c for c in ["Time", "Analog", "Counter"] if rng.random() < 0.75] or ["Counter"]
    if rng.random() < 0.3:
        channels = ["X [u]"] + channels
    elements = rng.sample(LABELS, k)
    samples = rng.sample(SAMPLES, n)
    tokens = []
    for i in range(n):
        per_scan = []
        for s in range(m):
            per_el = []
            for e in range(k):
                per_ch = []
                for ch in channels:
                    if ch == "Time":
                        tok = f"{0.2 + 0.4 * e + s * 0.25 + rng.choice([0, 1, -1]) * 1e-5:.5f}".rstrip("0")
                        tok = tok + "0" if tok.endswith(".") else tok
                    else:
                        tok = rng.choice([str(rng.randint(0, 999)), f"{rng.uniform(-50, 900):.3f}", "0", "NaN", "1e3", "-2.5E-3"])
                    per_ch.append(tok.replace(".", ",") if decimal == "," else tok)
                per_el.append(per_ch)
            per_scan.append(per_el)
        tokens.append(per_scan)
    return {"samples": samples, "nscans": m, "elements": elements, "channels": channels, "tokens": tokens}


def edit_rows(t, edit, rng, a):
    """t: the rows table (list of field lists, every line ending in an empty field); returns (lines as field lists, final_eol)"""
    C, k, m, n = len(a["channels"]), len(a["elements"]), a["nscans"], len(a["samples"])
    ncell = m * k * C
    t = [list(r) for r in t]
    body = list(range(4, len(t)))
    j = rng.choice(body)
    final = True
    if edit == "no-sample-rows":
        t = t[:4]
    elif edit == "row-without-trailing-delimiter":
        t[j] = t[j][:-1]
    elif edit == "rows-without-trailing-delimiter":
        for q in body:
            t[q] = t[q][:-1]
    elif edit == "row-cut-after-selection":       # drop the last cell(s) that belong to no Counter/Analog/Time column, if any
        t[j] = t[j][:2 + ncell - rng.randint(0, 1)]
    elif edit == "row-cut-inside-selection":
        t[j] = t[j][:2 + rng.randint(0, max(0, ncell - C))]
    elif edit == "row-with-extra-fields":
        t[j] = t[j] + [rng.choice(["", "7", "x"])] * rng.randint(1, 3)
    elif edit == "blank-line-end":
        t.append(None)
    elif edit == "blank-line-middle":
        t.insert(rng.choice(body), None)
    elif edit == "blanks-line":
        t.insert(rng.randint(4, len(t)), ["   "])
    elif edit == "comment-line":
        t.insert(rng.randint(4, len(t)), [rng.choice(["# exported by Qtegra", "#", "  # note"])])
    elif edit == "comment-after-row":
        t[j] = t[j] + ["# checked"]
    elif edit == "hash-in-sample-name":
        t[j][0] = rng.choice(["Sample #1", "#3", "S#"])
    elif edit == "hash-in-label":
        e = rng.randrange(k)
        for c in range(2, 2 + ncell):
            if t[2][c] == a["elements"][e]:
                t[2][c] = t[2][c] + "#2"
    elif edit == "blanks-around-row":
        t[j][0] = "  " + t[j][0]
        t[j][-1] = "  "
    elif edit == "header-without-trailing-delimiter":
        for q in range(4):
            t[q] = t[q][:-1]
    elif edit == "one-header-row-without-trailing-delimiter":
        q = rng.randrange(4)
        t[q] = t[q][:-1]
    elif edit == "no-final-eol":
        final = False
    elif edit == "three-header-lines":
        t = t[:3]
        final = rng.random() < 0.5
    elif edit == "four-header-lines-no-eol":
        t = t[:4]
        final = False
    elif edit == "one-field-channel-row":
        t[3] = [rng.choice(a["channels"] + ["Counter"])]
    elif edit == "header-row-longer":
        q = rng.randrange(4)
        t[q] = t[q] + [""]
    elif edit == "blanks-in-value":
        c = rng.randrange(2, 2 + ncell)
        t[j][c] = " " + t[j][c] + " "
    elif edit in ("scan-not-integer", "scan-float", "scan-negative", "scan-empty"):
        s = rng.randrange(m)
        new = {"scan-not-integer": "x", "scan-float": f"{s}.0", "scan-negative": "-1", "scan-empty": ""}[edit]
        cols = [c for c in range(2, 2 + ncell) if t[1][c] == str(s)]
        if edit == "scan-negative" and rng.random() < 0.5:
            cols, new = list(range(2, 2 + ncell)), rng.choice(["-1", "-2"])
        for c in cols:
            t[1][c] = new
    elif edit == "scan-gap":
        for c in range(2, 2 + ncell):
            if t[1][c] == str(m - 1):
                t[1][c] = str(m + rng.randint(0, 2))
    elif edit == "single-column-name":             # one element keeps a single scan: its only column is broadcast
        e = rng.randrange(k)
        for c in range(2, 2 + ncell):
            if t[2][c] == a["elements"][e] and t[1][c] != "0":
                t[0][c] = "Other"
    return t, final


def edit_cols(t, edit, rng, a):
    C, k, m, n = len(a["channels"]), len(a["elements"]), a["nscans"], len(a["samples"])
    t = [list(r) for r in t]
    data = list(range(2, len(t)))
    j = rng.choice(data)
    final = True
    if edit == "blank-line-end":
        t.append(None)
    elif edit == "blank-line-middle":
        t.insert(rng.choice(data), None)
    elif edit == "blanks-line":
        t.insert(rng.randint(2, len(t)), ["  "])
    elif edit == "comment-line":
        t.insert(rng.randint(2, len(t)), [rng.choice(["# MainRuns Counter", "#", "MainRuns # Counter Analog Time"])])
    elif edit == "comment-after-line":
        t[j] = t[j] + ["# ok"]
    elif edit == "comment-cuts-delimiter":         # every line: the comment replaces the trailing delimiter
        for q in data:
            t[q] = t[q][:-2] + [t[q][-2] + "# c"]
    elif edit == "hash-in-sample-name":
        i = rng.randrange(n)
        t[0][4 + i] = rng.choice(["Sample #1", "#1", "S#"])
    elif edit == "hash-in-label":
        e = rng.randrange(k)
        for q in data:
            if t[q][2] == a["elements"][e]:
                t[q][2] = t[q][2] + "#2"
    elif edit == "no-final-eol":
        final = False
    elif edit == "lines-without-trailing-delimiter":
        for q in data:
            t[q] = t[q][:-1]
        if rng.random() < 0.5:
            t[0], t[1] = t[0][:-1], t[1][:-1]
    elif edit == "lines-with-extra-delimiter":
        for q in data:
            t[q] = t[q] + [""]
    elif edit == "empty-sample-name":
        t[0][4 + rng.randrange(n)] = ""
    elif edit == "blank-sample-name":
        t[0][4 + rng.randrange(n)] = " "
    elif edit == "no-selected-line":
        t = t[:2]
    elif edit == "one-selected-line":
        keep = rng.choice(data)
        t = t[:2] + [t[keep]]
    elif edit == "first-line-blank":
        t[0] = None
    elif edit == "blanks-in-value":
        t[j][4 + rng.randrange(n)] = " " + t[j][4 + rng.randrange(n)] + " "
    elif edit == "mainruns-prefix-line":
        t[j][0] = rng.choice(["MainRunsX", "MainRuns 2", " MainRuns", "mainRuns"])
    elif edit == "channel-as-substring":
        t[j][3] = rng.choice(["x" + t[j][3] + "y", t[j][3] + "s", t[j][3].lower()])
    elif edit == "lines-too-short":
        cut = rng.randint(1, n)
        for q in data:
            t[q] = t[q][:len(t[q]) - 1 - cut]
    elif edit in ("scan-not-integer", "scan-float", "scan-negative", "scan-empty"):
        t[j][1] = {"scan-not-integer": "x", "scan-float": t[j][1] + ".0", "scan-negative": rng.choice(["-1", "-3"]), "scan-empty": ""}[edit]
    elif edit == "scan-not-integer-all":
        new = rng.choice(["x", "-1", "-2", "0.5"])
        for q in data:
            t[q][1] = new
    elif edit == "line-with-extra-field":
        t[j] = t[j] + [rng.choice(["", "5"])]
    elif edit == "line-without-trailing-delimiter":
        t[j] = t[j][:-1]
    elif edit == "line-missing":
        del t[j]
    elif edit == "single-line-name":               # one element keeps a single line: it is broadcast over the scans
        e = rng.randrange(k)
        t = t[:2] + [r for r in t[2:] if r[2] != a["elements"][e] or r[1] == "0"]
    return t, final


def generate_text(rng, tier, layout=None, edits=None):
    delimiter, decimal = rng.choice([(",", "."), (";", "."), (";", ",")])
    a = small_acq(rng, decimal)
    layout = layout or rng.choice(["rows", "cols"])
    if layout == "cols" and edits == ["none"]:
        while a["nscans"] < 2:                      # one scan is below the property's quantifier (a single selected line raises)
            a = small_acq(rng, decimal)
    if edits is None:
        r = rng.random()
        if layout == "cols":
            edits = rng.sample(TEXT_EDITS_COLS, 1 if r < 0.75 else 2)
            if edits == ["none"]:
                return generate_text(rng, tier, layout="cols", edits=["none"])
        elif r < 0.6:
            edits = [rng.choice(TEXT_EDITS_ROWS)]
        elif r < 0.75:
            edits = rng.sample(TEXT_EDITS_ROWS, 2)
        elif r < 0.93:
            edits = [rng.choice(TEXT_EDITS_ROWS_SOFT)]
        else:
            edits = [rng.choice(TEXT_EDITS_ROWS_SOFT), rng.choice(TEXT_EDITS_ROWS)]
    t = table_rows(a) if layout == "rows" else table_cols(a)
    final = True
    done = []
    for e in edits:
        if len(t) < (5 if layout == "rows" else 3):
            break                                   # nothing left to edit
        try:
            t, f = (edit_rows if layout == "rows" else edit_cols)(t, e, rng, a)
        except (IndexError, TypeError, ValueError):
            continue                                # an earlier edit removed what this one would change
        final = final and f
        done.append(e)
    edits = done or ["unedited"]
    lines = ["" if r is None else delimiter.join(r) for r in t]
    return {"kind": "text", "layout": layout, "edits": list(edits), "lines": lines, "final_eol": final, "delimiter": delimiter,
            "decimal": decimal, "explicit_delimiter": rng.random() < 0.4, "bom": rng.random() < 0.3, "eol": rng.choice(["\r\n", "\n"])}


# ----------------------------------------------------------------------------- histories of calls in one process
# A "history" case: a few files ("contents": exports of small acquisitions in either layout with their own
# delimiter / decimal mark / BOM / line ends, and texts that are no export) and a list of steps.  A step names one of two
# paths, optionally writes one of the contents there (`how`: how the file gets there and what happens to its
# modification time) and then makes some calls on the path.  Every call is judged by what the path holds when it is made.
#   how = "keep"         : written in place, then os.utime restores the modification time the path had before
#         "replace-keep" : written beside it with the old modification time, then os.replace (a restore from an
#                          archive / backup, cp -p, rsync -t: new inode, same time)
#         "natural"      : written in place, the file system stamps it
#         "bump"         : written in place, modification time one second later than before
#         "clock-1s"     : written in place and stamped with one fixed whole second, the same for every file written this way
#                          (files from an archive or a file system with coarse time stamps: different files, equal times)
# Path 2 lies in a sub-directory and has the file name of path 0.
HOWS = ["keep", "keep", "keep", "replace-keep", "replace-keep", "natural", "natural", "bump", "clock-1s", "clock-1s"]
CALL_SETS = [["sniff"], ["load"], ["sniff", "load"], ["sniff", "load", "data", "params"], ["data"], ["params"], ["load", "load"],
             ["sniff", "sniff"], ["load", "data"], ["data", "params", "load"]]


def history_acq(rng, decimal):
    n, m, k = rng.choice([1, 2, 2, 3, 4]), rng.choice([2, 2, 3, 4]), rng.choice([1, 1, 2, 3])
    r = rng.random()
    if r < 0.55:
        channels = ["Time", "Analog", "Counter"]
    elif r < 0.7:
        channels = ["Time", "Counter"]
    elif r < 0.8:
        channels = ["Counter"]
    else:
        channels = [c for c in ["Time", "Analog", "Counter"] if rng.random() < 0.7] or ["Analog"]
    if rng.random() < 0.3:
        channels = [rng.choice(["X [u]", "X (u)"])] + channels
    elements = rng.sample(LABELS, k)
    samples = sample_names(rng, n, 0.6)
    dt = rng.choice([1.0049, 0.2, 0.25, 0.50005, 0.1, 2.0])
    tokens = []
    for i in range(n):
        per_scan = []
        for s in range(m):
            per_el = []
            for e in range(k):
                per_ch = []
                for ch in channels:
                    if ch == "Time":
                        tok = f"{0.2 + 0.4 * e + s * dt + rng.choice([0, 1, -1, 2, 3]) * 1e-5:.5f}".rstrip("0")
                        tok = tok + "0" if tok.endswith(".") else tok
                    else:
                        tok = hash_field(rng, ch) or number(rng)
                    per_ch.append(tok.replace(".", ",") if decimal == "," else tok)
                per_el.append(per_ch)
            per_scan.append(per_el)
        tokens.append(per_scan)
    return {"samples": samples, "nscans": m, "elements": elements, "channels": channels, "tokens": tokens}


def content_size(c) -> int:
    """bytes of the file a content is written to"""
    if c["kind"] == "other":
        body = c["eol"].join(c["lines"]) + (c["eol"] if c["final_eol"] and c["lines"] else "")
    else:
        body = text(table_rows(c["acq"]) if c["kind"] == "rows" else table_cols(c["acq"]), c["delimiter"], c["eol"])
    return len(body.encode("utf-8")) + (3 if c["bom"] else 0)


def other_content(rng, size=None):
    c = generate_other(rng)
    c = {"kind": "other", "lines": c["lines"], "eol": c["eol"], "bom": c["bom"], "final_eol": c["final_eol"]}
    if size is not None:            # pad (or rebuild) to exactly `size` bytes: same path, same time, same length
        c = {**c, "lines": ["1.0,2.0,3.0", "4.0,5.0,6.0"], "bom": False, "eol": "\n", "final_eol": True}
        short = size - content_size(c)
        if short >= 1:
            c["lines"] = c["lines"] + ["7" * (short - 1)]
        while content_size(c) > size and c["lines"]:
            c["lines"] = c["lines"][:-1]
        if content_size(c) < size:
            c["lines"] = c["lines"] + ["0" * (size - content_size(c) - 1)]
    return c


def call_of(rng, fn, c):
    """a call on a path that holds content `c`, with the options a user who knows the file would pass"""
    if fn == "sniff":
        return {"fn": "sniff"}
    if c["kind"] == "other":
        return None
    has = c["acq"]["channels"]
    ua = rng.random() < (0.4 if "Analog" in has else 0.08)
    if not ua and "Counter" not in has and rng.random() < 0.9:
        ua = True
    if fn == "load":
        return {"fn": "load", "use_analog": ua, "full": rng.random() < 0.65}
    dl = c["delimiter"] if rng.random() < 0.4 else None
    if fn == "data":
        return {"fn": "data", "rows": c["kind"] == "rows", "delimiter": dl, "comma": c["decimal"] == ",", "use_analog": ua}
    return {"fn": "params", "rows": c["kind"] == "rows", "delimiter": dl, "comma": c["decimal"] == ","}


def generate_history(rng, tier, script=None, nacq=None):
    combos = [(",", "."), (";", "."), (";", ",")]
    rng.shuffle(combos)
    acqs = []
    for j in range(nacq or rng.choice([1, 2, 3, 3])):
        delimiter, decimal = combos[j % 3]
        acqs.append((history_acq(rng, decimal), delimiter, decimal))
    contents = []

    def export(layout, j):
        a, delimiter, decimal = acqs[j % len(acqs)]
        c = {"kind": layout, "delimiter": delimiter, "decimal": decimal, "bom": rng.random() < 0.4, "eol": rng.choice(["\r\n", "\n"]), "acq": a}
        contents.append(c)
        return len(contents) - 1

    if script is None:
        script = []
        nsteps = rng.choice([3, 4, 4, 5, 6, 7])
        for q in range(nsteps):
            script.append({"path": rng.choice([0, 0, 0, 0, 0, 0, 1, 1, 2]),
                           "what": rng.choice(["rows", "cols", "rows", "cols", "other", "same", "other-same-size", None, None]),
                           "acq": rng.randrange(3), "how": rng.choice(HOWS), "calls": rng.choice(CALL_SETS), "mutate": rng.random() < 0.3})
    cur, steps = {}, []
    for st in script:
        p, what = st["path"], st["what"]
        if p not in cur and what in (None, "same", "other-same-size"):
            what = rng.choice(["rows", "cols"])
        if what is None:
            w = None
        elif what == "same":
            w = cur[p]
        elif what == "other":
            contents.append(other_content(rng))
            w = len(contents) - 1
        elif what == "other-same-size":
            contents.append(other_content(rng, size=content_size(contents[cur[p]])))
            w = len(contents) - 1
        else:
            w = export(what, st["acq"])
        if w is not None:
            cur[p] = w
        calls = [x for x in (call_of(rng, fn, contents[cur[p]]) for fn in st["calls"]) if x is not None]
        if not calls:
            calls = [{"fn": "sniff"}]
        steps.append({"path": p, "write": w, "how": st["how"], "calls": calls, "mutate": bool(st.get("mutate"))})
    return {"kind": "history", "contents": contents, "steps": steps}
