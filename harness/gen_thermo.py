"""Synthetic Qtegra iCap CSV exports, both layouts written from ONE acquisition, and the C03 case generator.

acquisition (JSON): {"samples": [names], "nscans": m, "elements": [labels], "channels": [exported channels, export order],
                     "tokens": [sample][scan][element][channel] -> text exactly as written (decimal mark included)}
Layouts (see /repo/tests/data/thermo):
  columns: <d><d><d><d>S1<d>S2<d>...<d>            one "MainRuns,<scan>,<element>,<channel>,v1,v2,...," line per
           <d><d><d><d><Identifier><d>...<d>        element, channel, scan (in that nesting order)
  rows:    four header rows (MainRuns / scan / element / channel per column; two leading empty fields), then one
           row per sample: <name><d><Identifier><d>values...<d>; columns nested scan, element, channel
Every line ends with the delimiter, as Qtegra writes it.
"""
from __future__ import annotations

import math

CHANNELS = ["X", "Y", "Time", "Analog", "Counter"]
LABELS = ["31P", "153Eu", "182W", "56Fe | 56Fe.16O", "A", "Ca44", "13C", "x y", "Pb208 (KED)", "b-1", "Zn66", "[40Ar16O]+",
          "u" * 32, "238U", "7Li", "E.1", "0", "12"]
SAMPLES = ["Sample 1", "1", "S-2", "line 003", "2", "std_10ppm", "Sample 10", "x", "3", "blank (2)"]


def value_of(tok: str) -> float:
    try:
        return float(tok)
    except ValueError:
        return math.nan


def cells_cols(m, k, C):
    return [(s, e, c) for e in range(k) for c in range(C) for s in range(m)]


def cells_rows(m, k, C):
    return [(s, e, c) for s in range(m) for e in range(k) for c in range(C)]


def table_cols(a):
    n, m, k, C = len(a["samples"]), a["nscans"], len(a["elements"]), len(a["channels"])
    t = [[""] * 4 + list(a["samples"]) + [""], [""] * 4 + ["<Identifier>"] * n + [""]]
    for s, e, c in cells_cols(m, k, C):
        t.append(["MainRuns", str(s), a["elements"][e], a["channels"][c]] + [a["tokens"][i][s][e][c] for i in range(n)] + [""])
    return t


def table_rows(a):
    n, m, k, C = len(a["samples"]), a["nscans"], len(a["elements"]), len(a["channels"])
    cells = cells_rows(m, k, C)
    t = [["", ""] + ["MainRuns"] * len(cells) + [""], ["", ""] + [str(s) for s, e, c in cells] + [""],
         ["", ""] + [a["elements"][e] for s, e, c in cells] + [""], ["", ""] + [a["channels"][c] for s, e, c in cells] + [""]]
    for i in range(n):
        t.append([a["samples"][i], "<Identifier>"] + [a["tokens"][i][s][e][c] for s, e, c in cells] + [""])
    return t


def text(table, delimiter, eol):
    return eol.join(delimiter.join(r) for r in table) + eol


def write(path, table, delimiter, eol, bom):
    data = text(table, delimiter, eol).encode("utf-8")
    path.write_bytes((b"\xef\xbb\xbf" if bom else b"") + data)


def number(rng) -> str:
    k = rng.random()
    if k < 0.35:
        return repr(round(rng.uniform(0, 3000), rng.randint(1, 13)))
    if k < 0.5:
        return str(rng.randint(0, 100000))
    if k < 0.65:
        return repr(round(rng.uniform(-1, 1), rng.randint(3, 17)))                # Analog-like, negatives
    if k < 0.8:
        return f"{rng.uniform(-5, 5) * 10 ** rng.randint(-12, 9):.{rng.randint(1, 15)}E}"   # 4.21815165292058E-07
    if k < 0.88:
        return rng.choice(["0", "-0.5", "2.5000002500000247", "1e3", "-1.5E-7", "1E+05", "30.974000930786133", "-12"])
    if k < 0.9:
        return rng.choice(["NaN", "nan"])
    return repr(rng.random() * 10 ** rng.randint(0, 6))


def generate(rng, tier):
    n = rng.choice([1, 1, 2, 2, 3, 4, 6])
    m = rng.choice([2, 2, 3, 4, 5, 8, 11])
    k = rng.choice([1, 1, 2, 3, 4])
    big = rng.random()
    if big < 0.04:      # many samples: header lines of the columns layout far longer than any read-ahead buffer
        n, m, k = rng.choice([80, 150, 400]), 2, 1
    elif big < 0.08:    # many scans: every line of the rows layout is long
        n, m, k = 1, rng.choice([300, 1100]), rng.choice([1, 2])
    delimiter, decimal = rng.choice([(",", "."), (";", "."), (";", ",")])
    xname = rng.choice(["X [u]", "X (u)"])
    extra = [c for c in CHANNELS[:-1] if rng.random() < 0.55]
    if rng.random() < 0.9:
        extra.append("Counter")
    channels = [xname if c == "X" else c for c in CHANNELS if c in extra]
    if not channels:
        channels = ["Counter"]
    elements = rng.sample(LABELS, k)
    samples = rng.sample(SAMPLES, n) if rng.random() < 0.7 and n <= len(SAMPLES) else [f"Sample {i + 1}" for i in range(n)]
    dt = rng.choice([1.0049, 0.2, 0.25, 0.50005, 0.1, 2.0])
    tokens = []
    for i in range(n):
        per_scan = []
        for s in range(m):
            per_el = []
            for e in range(k):
                per_ch = []
                for ch in channels:
                    if ch == "Time":
                        tok = f"{0.2 + 0.4 * e + s * dt + rng.choice([0, 1, -1, 2, 3]) * 1e-5:.5f}".rstrip("0")
                        tok = tok + "0" if tok.endswith(".") else tok
                    else:
                        tok = number(rng)
                    per_ch.append(tok.replace(".", ",") if decimal == "," else tok)
                per_el.append(per_ch)
            per_scan.append(per_el)
        tokens.append(per_scan)
    kind = rng.choice(["readers", "readers", "load"])
    return {"kind": kind, "use_analog": rng.random() < 0.4, "delimiter": delimiter, "decimal": decimal, "bom": rng.random() < 0.5,
            "eol": rng.choice(["\r\n", "\r\n", "\n"]), "explicit_delimiter": rng.random() < 0.4,
            "acq": {"samples": samples, "nscans": m, "elements": elements, "channels": channels, "tokens": tokens}}


LEADS = [13, 14, 15, 16, 17, 18, 20, 24, 31, 32, 33, 34, 40, 48, 63, 64, 65, 66, 72]


def unmarked(rng) -> str:
    """a value written WITHOUT a decimal mark: Qtegra writes zero counts as a plain `0`, whole counts as `12`"""
    k = rng.random()
    if k < 0.45:
        return "0"
    if k < 0.75:
        return str(rng.randint(0, 100000))
    if k < 0.85:
        return str(-rng.randint(1, 40))
    if k < 0.96:
        return rng.choice(["1e5", "1E+05", "3E-07", "-2e3", "12", "-3", "7E2"])
    return rng.choice(["NaN", "nan"])


def fractional(rng) -> str:
    """a value with a decimal mark and (almost always) a fractional part"""
    return f"{rng.uniform(0.01, 3000):.{rng.randint(1, 9)}f}"


def generate_late(rng, tier, target=None, lead=None, combo=None, kind=None, counter_only=None, use_analog=None):
    """an export whose first `lead` lines carry no decimal mark at all (integral values written as `0`, `12`, `-3`, `1e5`:
    the first `lead - 2` records of the columns layout and/or the first `lead - 4` samples of the rows layout), fractional
    values only later in the file.  `target` says which layout(s) get the unmarked leading run."""
    target = target or rng.choice(["cols", "cols", "rows", "rows", "both"])
    lead = lead or rng.choice(LEADS)
    delimiter, decimal = combo or rng.choice([(",", "."), (";", "."), (";", ","), (";", ","), (";", ",")])
    use_analog = (rng.random() < 0.3) if use_analog is None else use_analog
    read = "Analog" if use_analog else "Counter"
    if counter_only is None:
        counter_only = rng.random() < 0.35
    if counter_only:
        channels = [read]
    else:
        xname = rng.choice(["X [u]", "X (u)"])
        extra = {c for c in CHANNELS if rng.random() < 0.5} | {read}
        channels = [xname if c == "X" else c for c in CHANNELS if c in extra]
    C, cr = len(channels), channels.index(read)
    R = lead - 2 if target in ("cols", "both") else 0       # records of the columns layout without a mark
    S = lead - 4 if target in ("rows", "both") else 0       # samples of the rows layout without a mark
    if target == "rows":
        n, m, k = S + rng.randint(1, 3), rng.choice([2, 2, 3, 4]), rng.choice([1, 1, 2])
    else:
        n = S + rng.randint(1, 3) if target == "both" else rng.choice([1, 1, 2, 3])
        k = rng.choice([1, 1, 2, 3])
        m = max(2, (R + rng.randint(0, 6)) // (k * C) + 1)
        while ((k - 1) * C + cr) * m + m - 1 < R:           # a record of the channel that is read lies past the run
            m += 1
    elements = rng.sample(LABELS, k)
    samples = rng.sample(SAMPLES, n) if rng.random() < 0.5 and n <= len(SAMPLES) else [f"Sample {i + 1}" for i in range(n)]
    dt, dti = rng.choice([1.0049, 0.2, 0.25, 0.50005, 0.1, 2.0]), rng.choice([1, 1, 2])
    sparse = rng.random() < 0.4                             # most later values integral as well
    tokens = []
    for i in range(n):
        per_scan = []
        for s in range(m):
            per_el = []
            for e in range(k):
                per_ch = []
                for c, ch in enumerate(channels):
                    run = (e * C + c) * m + s < R or i < S
                    if ch == "Time":
                        if run:
                            tok = str(e + s * dti)
                        else:
                            tok = f"{0.2 + 0.4 * e + s * dt + rng.choice([0, 1, -1, 2, 3]) * 1e-5:.5f}".rstrip("0")
                            tok = tok + "0" if tok.endswith(".") else tok
                    elif run:
                        tok = unmarked(rng)
                    elif (i, s, e, c) == (n - 1, m - 1, k - 1, cr):
                        tok = fractional(rng)
                    elif sparse and rng.random() < 0.8:
                        tok = unmarked(rng)
                    else:
                        tok = number(rng)
                    per_ch.append(tok.replace(".", ",") if decimal == "," else tok)
                per_el.append(per_ch)
            per_scan.append(per_el)
        tokens.append(per_scan)
    kind = kind or rng.choice(["load", "load", "load", "readers"])
    return {"kind": kind, "use_analog": use_analog, "delimiter": delimiter, "decimal": decimal, "bom": rng.random() < 0.5,
            "eol": rng.choice(["\r\n", "\r\n", "\n"]), "explicit_delimiter": rng.random() < 0.4,
            "acq": {"samples": samples, "nscans": m, "elements": elements, "channels": channels, "tokens": tokens}}


OTHER_LINES = ["", "A,B,C", "1,2,3", "0.5\t0.25", "MainRun,1,2", "mainruns,0,31P,Counter,1", "<Identifier>", "Time,31P,153Eu", "x;y;z",
               ",,,,Sample 1,Sample 2,", "# comment", "1.0,2.0", "Main Runs"]


def generate_other(rng):
    """text files that are not iCap exports: 0..6 lines, never 'MainRuns' on line 0 or 2"""
    nl = rng.choice([0, 1, 2, 2, 3, 4, 6])
    lines = [rng.choice(OTHER_LINES) for _ in range(nl)]
    for j in range(nl):
        if j not in (0, 2) and rng.random() < 0.35:
            lines[j] = "MainRuns,0,31P,Counter,1.0,"
    return {"kind": "sniff_other", "lines": lines, "eol": rng.choice(["\n", "\r\n"]), "bom": rng.random() < 0.3,
            "final_eol": rng.random() < 0.7}
