"""C02 — Agilent '.b' batch import: pewlib.io.agilent.collect_datafiles / load_binary / load_csv / load
against PewModel/Agilent.lean.

An abstract batch description (plain JSON) is written to disk by harness/gen_agilent.py with the
file layouts of the fixtures, imported by the real code, and sent to the Lean driver, which
evaluates the mechanism model and the specification.  Pixel values travel as float64 bit tokens
(placement) or exact rationals (counts-per-second division, CSV text).

Beside the reference calls (explicit collection methods, full=True) every case carries `calls`: further calls of the entry
points with each option given or omitted (full=False — the default — returns the bare image), on a Path or a str; the driver
evaluates the Lean entry-point models (PewModel/Agilent.lean section 9) for exactly those option tuples."""
import copy
import hashlib
import json
import logging
import math
import os
import pathlib
import shutil
import struct
import sys
import warnings
from fractions import Fraction

import numpy as np

from harness import core, gen_agilent
from harness.core import Prop, outcome, rat, tok, unrat

TICK = 4096  # ScanTime is generated as ticks/4096 minutes: exact in float64, and so is *60

ELEMENTS = [("Li", 7), ("C", 13), ("Na", 23), ("Mg", 24), ("Al", 27), ("P", 31), ("Ca", 44), ("Fe", 56), ("Cu", 63),
            ("Zn", 66), ("Sr", 88), ("Ag", 107), ("Eu", 153), ("Gd", 157), ("W", 182), ("Au", 197), ("Pb", 208), ("U", 238)]
# a wider isotope table (distinct masses) for batches with more masses than the short list holds
ISOTOPES = [("Li", 7), ("Be", 9), ("B", 11), ("C", 13), ("N", 15), ("Na", 23), ("Mg", 24), ("Mg", 25), ("Mg", 26), ("Al", 27), ("Si", 28),
            ("Si", 29), ("P", 31), ("S", 32), ("S", 34), ("Cl", 35), ("K", 39), ("Ca", 43), ("Ca", 44), ("Sc", 45), ("Ti", 47), ("Ti", 48),
            ("Ti", 49), ("V", 51), ("Cr", 52), ("Cr", 53), ("Mn", 55), ("Fe", 56), ("Fe", 57), ("Co", 59), ("Ni", 60), ("Ni", 62), ("Cu", 63),
            ("Cu", 65), ("Zn", 66), ("Zn", 68), ("Ga", 69), ("Ga", 71), ("Ge", 72), ("As", 75), ("Se", 78), ("Br", 79), ("Se", 82), ("Rb", 85),
            ("Sr", 88), ("Y", 89), ("Zr", 90), ("Nb", 93), ("Mo", 95), ("Mo", 98), ("Ru", 101), ("Rh", 103), ("Pd", 105), ("Ag", 107),
            ("Ag", 109), ("Cd", 111), ("Cd", 114), ("In", 115), ("Sn", 118), ("Sn", 120), ("Sb", 121), ("Te", 125), ("I", 127), ("Cs", 133),
            ("Ba", 137), ("Ba", 138), ("La", 139), ("Ce", 140), ("Pr", 141), ("Nd", 146), ("Sm", 147), ("Eu", 153), ("Gd", 157), ("Tb", 159),
            ("Dy", 163), ("Ho", 165), ("Er", 166), ("Tm", 169), ("Yb", 172), ("Lu", 175), ("Hf", 178), ("Ta", 181), ("W", 182), ("Re", 185),
            ("Os", 189), ("Ir", 193), ("Pt", 195), ("Au", 197), ("Hg", 202), ("Tl", 205), ("Pb", 208), ("Bi", 209), ("Th", 232), ("U", 238)]
ACCTIMES = ["0.159999996423721", "0.167999997735023", "0.1", "0.05", "0.25", "1", "0.0300000002607703", "2.5"]
WIN = "D:\\Agilent\\ICPMH\\1\\DATA\\verif\\synthetic.b\\"
PATH_STYLES = ["win", "win", "posix", "bare", "mixed"]
METHODS = ["batch_xml", "batch_csv", "acq_method_xml", "alphabetical"]
ENTRY_POINTS = ["load_binary", "load_csv", "load"]
# which options an entry point takes (collection_methods is taken by all of them)
TAKES = {"load_binary": ("cps", "full"), "load_csv": ("use_acq", "full"), "load": ("cps", "use_acq", "full"), "collect_datafiles": ()}
KWARG = {"cps": "counts_per_second", "use_acq": "use_acq_for_names", "full": "full", "drop": "drop_names"}


def styled(name, style):
    return {"win": WIN + name, "posix": "/data/agilent/synthetic.b/" + name, "bare": name,
            "mixed": "D:\\DATA/synthetic.b\\sub/" + name}[style]


def digits(name):
    return int("".join(c for c in name if c in "0123456789") or "-1")


def f64(t):
    return struct.unpack("<d", struct.pack("<q", int(t)))[0]


def qtok(j):
    """driver rational -> token of the correctly rounded float64"""
    return tok(float(unrat(j)))


class C02(Prop):
    id = "C02"
    anchored = ["src/pewlib/io/agilent.py"]
    cases = {"quick": 300, "thorough": 10000}
    rule = ("synthetic .b batches written with the fixture layouts: 1..5 lines, 2..6 scans, 1..4 masses (one batch in twenty: up to 16 lines, "
            "40 scans, 60 masses), MS / MS with XAddition / MS_MS (incl. product order != precursor order, transitions sharing a product or "
            "a precursor m/z, the method file listing them in any order), every subset of {BatchLog.xml, BatchLog.csv, AcqMethod.xml, MSTS_XAddition.xml}, "
            "data-file names of mixed digit widths, prefixes and .d/.D, numbers beyond 2**53 that differ in the low digits only (a common stamp "
            "+ counter), independent numbers of 1..25 digits, 17..22 digits with leading zeros, several digit groups in one name, non-ASCII "
            "letters; shuffled directory listing (iterdir patched), logs with Fail/Abort/-/Skip (first, last, before every pass, all but one), "
            "repeated Pass entries (a line acquired three times), unlogged directories, logged-but-missing files, four path styles, XML entries without file name, plain files "
            "that look like data directories, per-line CSV all/some/none/all but the first line/all but the last/a single one (CRLF or LF, 4 footer shapes, 0..8 decimals), "
            "regular and irregular scan times, unreadable binaries "
            "(CSV fallback of load), bit-pattern values (NaN payloads, infinities, -0.0) or count values (exact rationals for counts/second); "
            "outside the theorems' hypotheses, compared mechanism-vs-pewlib only (counted as hypothesis_excluded): scan records whose "
            "SpectrumOffset/ByteCount leave the instrument layout (beyond the profile: clip; below the header: negative index, wrap or IndexError; "
            "misaligned, permuted, ByteCount 0/other, profile shorter/longer than the scans, one file a scan short: np.stack raises, an MSTS_XAddition "
            "index outside the mass table: KeyError), per-line CSVs of unequal length (0 rows, 1 row: "
            "NumPy broadcast, other: ValueError), a data directory without digit in its name (directory scan raises); "
            "call options: beside the reference calls (explicit methods, full=True) every batch is imported by 3 further calls of load_binary / "
            "load_csv / load whose options collection_methods, counts_per_second, use_acq_for_names, full are each independently omitted (signature "
            "default: ['batch_xml', 'batch_csv'], False, True, False = the bare image is returned) or given False/True, the batch named by a "
            "pathlib.Path or a str (collect_datafiles too), compared with the Lean entry-point models loadBinaryCall / loadCsvCall / load (image, "
            "return shape, times and scan time when full); 3 targeted batches (counts; MS/MS counts with an unreadable binary = CSV fallback; bit "
            "patterns) run the whole option grid (18 + 18 + 54 tuples); "
            "HISTORIES (18% of the generated cases + 25 targeted): two or three batches written one after the other at the SAME path and "
            "imported in one process — an unrelated batch under the same data-file names, the same shape with other masses of equal text length "
            "and other values (every file keeps its size), the same masses with other values, another number of masses / lines / scans, the same "
            "files logged in the opposite order, the very same batch again through other calls, MS/MS replaced by single quad and back — with "
            "every modification time set to one fixed instant or left alone, the caller overwriting every returned array / list / params dict "
            "between the calls (also in half of the ordinary cases); each import of each step is compared with the Lean model and specification "
            "of the batch as it is on disk at that call (Lean `process`, theorem `process_eq_spec`); "
            "25 targeted batches of the name styles, MS/MS ties, log shapes, export patterns, 60 masses; 96 targeted small batches (all 16 metadata subsets x sizes 1/2) + the minimal inputs of the two repaired defects + 17 off-hypothesis batches; "
            "non-trivial = reaches a named size/order/log/metadata/CSV boundary class; distinct by canonical case hash")
    trusted = [
        "xml.etree.ElementTree, np.genfromtxt (field splitting, name validation with deletechars='', correctly rounded decimal->float64), "
        "np.frombuffer with packed structured dtypes, np.stack, rfn.drop_fields/rename_fields, pathlib.Path.suffix/with_suffix behave as documented",
        "the synthetic writer harness/gen_agilent.py reproduces the Agilent layouts (restated from the bytes of the /repo fixtures: "
        "MSScan.bin 68-byte header, record start read from byte 88, 136-byte records, SpectrumOffset = 68 + r*ByteCount, ByteCount = 28*k; "
        "MSProfile.bin 68-byte header, 28*k-byte records ID/Analog/Analog2/Digital); Analog2/Digital and the MSScan index block hold decoys",
        "float64 division and multiplication are correctly rounded (counts/acctime and ScanTime*60 are compared bit-exactly with the rounded exact quotient/product)",
        "Python's list.sort/sorted are stable sorts (modelled by List.mergeSort); str.rfind, str.isdigit on ASCII names",
    ]
    assumptions = [
        "data-file names hold no separator, no comma and no digit outside ASCII (str.isdigit / int() of other Unicode digits is not modelled), and "
        "those containing digits carry pairwise distinct numbers (ties are listing-order dependent and not generated); BatchLog.xml and "
        "BatchLog.csv of a batch hold the same log (two logs that disagree are not a batch an instrument writes; which of them 'the batch log' "
        "is would be left to the order of collection_methods — not generated); a data directory without any digit makes the directory scan raise (modelled, generated)",
        "result texts are at most 5 characters and never merely start with 'Pass' (the U4 column of the CSV reader truncates)",
        "CSV fields are plain decimals; element names are distinct; every data file of a batch carries the same mass table; the first CSV column is "
        "'Time [Sec]' (other header layouts are not modelled)",
        "the specification of the binary import is compared only when every data file has the instrument layout (Lean `layoutB`, theorem "
        "`layoutB_sound`), that of the CSV import only when all per-line CSVs have the same number (>= 2) of rows (Lean `csvShapeB`); otherwise "
        "only the mechanism model is compared with pewlib",
        "binary-vs-CSV agreement: demanded of pewlib's two real imports (verdict = Lean `agree` with `agreeSlack`, computed by the driver on the "
        "imported float64 values) exactly when the exact values of the batch satisfy Lean `agree` with `printSlack` (theorem `agree_transfer`; "
        "float64 division and decimal->binary conversion correctly rounded)",
        "exception classes are not compared (raised vs returned only)",
        "histories: a history has its own directory (named by the hash of the case), so its verdict does not depend on what the worker process "
        "imported before; what the caller does to returned objects is: overwrite arrays in place, empty the params dict, reverse and extend "
        "the returned list (objects that refuse are left alone: the property does not demand writable results)",
        "call options: drop_names is passed or omitted like the other options; what is compared is the whole returned array (every field "
        "left, a kept time field included: last field of load_binary's array, first of load_csv's); an omitted option is modelled by the default of the current signature; counts_per_second=True is only called on "
        "count-valued batches (bit-pattern batches hold NaNs/infinities that the exact division of the model does not describe)",
        "scantime is compared to within 0.5e-4 of the exact mean interval (the code rounds to 4 places) and, for the CSV import, only when no "
        "line's CSV is missing (DESIGN 5.2 boundary decision; counted as feature 'scantime-not-compared:blank-line')",
    ]

    # ------------------------------------------------------------------ generator
    def gen_names(self, rng, n, pool=(), style=None):
        """n distinct data-directory names whose numbers (= all ASCII digits of the name, concatenated) are pairwise distinct;
        `pool`: names to use first (the data directories of an earlier batch at the same path).  Styles: `classic` mixed
        widths / prefixes / .d .D; `long` a common stamp of 13..20 digits followed by a short counter (numbers beyond 2**53,
        differing in the low digits only); `wide` independent numbers of 1..25 digits; `long0` 17..22 digits with leading zeros; `groups` several digit groups in one
        name (r2_10.d -> 210); `unicode` non-ASCII letters (no non-ASCII digits) in the prefix"""
        style = style or rng.choice(["classic"] * 7 + ["long", "long0", "wide", "groups", "unicode"])
        names, nums = [], set()
        for nm in pool:
            if len(names) < n and digits(nm) >= 0 and digits(nm) not in nums and nm not in names:
                names.append(nm)
                nums.add(digits(nm))
        stamp = "".join(rng.choice("0123456789") for _ in range(rng.randint(13, 20)))
        stamp = rng.choice("123456789") + stamp[1:]
        cw = rng.choice([1, 2, 4])
        while 10 ** cw < 4 * n:   # the counter must have room for n distinct values
            cw += 1
        tries = 0
        while len(names) < n:
            tries += 1
            if tries > 50 * n + 200:   # a style that cannot deliver n distinct numbers: fall back
                style = "wide"
            num = rng.choice([rng.randint(0, 12), rng.randint(0, 12), rng.randint(8, 130), rng.randint(90, 1100)])
            width = rng.choice([0, 0, 0, 2, 3, 4])
            prefix = rng.choice(["", "", "", "", "line", "s_", "B", "Z", "a"])
            ext = rng.choice([".d", ".d", ".d", ".d", ".D"])
            if style == "long":
                nm = f"{rng.choice(['', 'line', 'L'])}{stamp}{num % 10 ** cw:0{cw}d}{ext}"
            elif style == "wide":   # independent numbers of 1..25 digits: they differ in the HIGH digits
                nm = f"{prefix}{rng.choice('123456789')}{''.join(rng.choice('0123456789') for _ in range(rng.choice([0, 3, 9, 12, 16, 19, 24])))}{ext}"
            elif style == "long0":
                nm = f"{prefix}{num:0{rng.choice([17, 19, 22])}d}{ext}"
            elif style == "groups":
                nm = rng.choice([f"r{rng.randint(0, 3)}_{num}{ext}", f"b{rng.randint(1, 12)}s{num:02d}{ext}", f"{num}_{rng.randint(0, 9)}{ext}",
                                 f"s{rng.randint(0, 2)}.{num}{ext}"])
            elif style == "unicode":
                nm = f"{rng.choice(['µ', 'é_', 'Probe_ß', 'Ω', 'линия'])}{num:0{width}d}{ext}" if width else \
                    f"{rng.choice(['µ', 'é_', 'Probe_ß', 'Ω', 'линия'])}{num}{ext}"
            else:
                nm = f"{prefix}{num:0{width}d}{ext}" if width else f"{prefix}{num}{ext}"
            if digits(nm) in nums or nm in names:
                continue
            nums.add(digits(nm))
            names.append(nm)
        return names

    STAMP_STYLES = ["increasing", "increasing", "increasing", "dst-end", "clock-back", "equal", "missing", "mixed-offsets", "widths", "reversed"]

    @staticmethod
    def gen_stamps(rng, L, style):
        """time stamps of L log entries in log (= acquisition) order -> (AcqDateTime texts of BatchLog.xml, 'Acq. Date-Time' texts of
        BatchLog.csv); None = the entry carries no stamp.  MassHunter writes local time + UTC offset: the TEXTS do not increase in
        log order when the run crosses the end of daylight saving (+11:00 -> +10:00), when the PC clock is set back during the
        run, when entries carry different offsets or widths; they may be equal or absent."""
        import datetime as dt
        t = dt.datetime(2021, 4, 4, 1, rng.randint(0, 59), rng.randint(0, 59)) + dt.timedelta(minutes=rng.randint(0, 90))
        off = dt.timedelta(hours=11)
        cut = rng.randint(1, max(1, L - 1))
        xml, csv = [], []
        for i in range(L):
            step = dt.timedelta(seconds=rng.randint(20, 1500))
            if style == "equal":
                step = dt.timedelta(0)
            elif style == "reversed":
                step = -step
            elif style == "clock-back" and i == cut:
                step = -dt.timedelta(minutes=rng.randint(5, 200))
            elif style == "dst-end" and i == cut:
                off = dt.timedelta(hours=10)          # the same instant is one hour earlier on the local clock
                step = step - dt.timedelta(hours=1)
            if i:
                t = t + step
            o = off
            if style == "mixed-offsets":
                o = dt.timedelta(minutes=rng.choice([660, 600, 0, 0, -300, 330, 570]))
            local = t if style != "mixed-offsets" else t - off + o    # the same instants, written with another offset
            sign = "-" if o < dt.timedelta(0) else "+"
            hh, mm = divmod(abs(int(o.total_seconds())) // 60, 60)
            text = local.strftime("%Y-%m-%dT%H:%M:%S") + f"{sign}{hh:02d}:{mm:02d}"
            if style == "mixed-offsets" and o == dt.timedelta(0) and rng.random() < 0.5:
                text = local.strftime("%Y-%m-%dT%H:%M:%S") + "Z"
            if style == "widths":
                text = rng.choice([text, local.strftime("%Y-%m-%dT%H:%M:%S"), local.strftime("%Y-%m-%dT%H:%M:%S") + f".{rng.randint(0, 9999999):07d}" + text[19:],
                                   local.strftime("%Y-%m-%dT%H:%M") + text[19:]])
            h12 = local.hour % 12 or 12
            ctext = f"{local.day}/{local.month:02d}/{local.year} {h12}:{local.minute:02d}:{local.second:02d} {'AM' if local.hour < 12 else 'PM'}"
            if style == "missing" and rng.random() < 0.5:
                text, ctext = None, None
            xml.append(text)
            csv.append(ctext)
        return xml, csv

    def gen_values(self, rng, mode, R, k, fixed_acc=None):
        """R x k float64 bit tokens.  `fixed_acc` (accumulation times): count values whose counts per second lie in
        [1000, 9990): every export field then has the same width (a rewritten batch keeps the size of every file)"""
        rows = []
        for r in range(R):
            row = []
            for j in range(k):
                if fixed_acc is not None and mode == "counts":
                    row.append(tok((1000 + rng.random() * 8990) * float(fixed_acc[j])))
                    continue
                if mode == "bits":
                    c = rng.random()
                    if c < 0.06:
                        t = rng.choice([tok(math.nan), tok(math.inf), tok(-math.inf), tok(-0.0), tok(0.0), 1, -1,
                                        0x7FF8000000000001, 0x7FF0000000000001 - (1 << 64) + (1 << 63)])
                        t = int(np.int64(np.uint64(t & 0xFFFFFFFFFFFFFFFF)))
                    else:
                        t = rng.getrandbits(64) - (1 << 63)
                else:
                    c = rng.random()
                    if c < 0.12:
                        v = 0.0
                    elif c < 0.5:
                        v = round(rng.random() * 10 ** rng.randint(0, 6), 2)
                    else:
                        v = rng.random() * 10 ** rng.randint(0, 5)
                    t = tok(v)
                row.append(t)
            rows.append(row)
        return rows

    def generate(self, rng, tier):
        if rng.random() < 0.18:
            return self.gen_history(rng)
        return self.build(rng)

    # ------------------------------------------------------------------ histories
    HISTORY_KINDS = ["fresh", "fresh", "same-shape", "same-shape", "same-masses", "other-k", "other-lines", "other-scans", "same", "reordered"]

    @staticmethod
    def same_length_masses(rng, masses, msms):
        """another mass table whose XML text has the same length, entry by entry: element names of the same length, m/z of
        the same number of digits (the same precursor -> product shift), accumulation times of the same text length"""
        used, out = set(), []
        for m in masses:
            shift = m["pro"] - m["pre"]
            cands = [(nm, mz) for nm, mz in ISOTOPES if len(nm) == len(m["name"]) and len(str(mz)) == len(str(m["pre"]))
                     and len(str(mz + shift)) == len(str(m["pro"])) and mz not in used and mz != m["pre"]]
            nm, mz = rng.choice(cands) if cands else (m["name"], m["pre"])
            used.add(mz)
            accs = [a for a in ACCTIMES if len(a) == len(m["acctime"]) and a != m["acctime"]] or [m["acctime"]]
            out.append({"name": nm, "pre": mz, "pro": mz + shift if msms else mz, "acctime": rng.choice(accs)})
        if len({(m["pro"], m["pre"]) for m in out}) < len(out):
            return [dict(m) for m in masses]
        return out

    def next_step(self, rng, prev, kind):
        """the batch that replaces `prev` at the same path"""
        names = [f["name"] for f in prev["files"]]
        flags = dict(has_xml=prev["xml"] is not None, has_csv=prev["csv"] is not None, has_acq=prev["acq"] is not None,
                     has_xadd=prev["xadd"] is not None)
        clean = dict(odd=None, badindex=False, nodigit=False, large=False)
        n_prev = len(names)
        if kind == "same":          # the very same batch, imported again (by other calls)
            c = copy.deepcopy(prev)
            c["calls"] = self.gen_calls(rng, c["methods"], c["mode"] == "counts", 3, c.get("masses") or (), c["msms"])
            c["methods"] = rng.choice([c["methods"], rng.sample(METHODS, rng.randint(1, 4))])
            return c
        if kind == "reordered":     # the same data files, acquired (logged) in the opposite order
            c = copy.deepcopy(prev)
            for key in ("xml", "csv"):
                if c[key] is not None:
                    c[key] = list(reversed(c[key]))
            if c["csv"] is not None:
                c["csv"] = [{**r, "id": i + 1} for i, r in enumerate(c["csv"])]
            if c["acq"] is not None:
                ids = [x["id"] for x in c["acq"]["samples"] if x["id"] is not None]
                top = max(ids) if ids else 0
                c["acq"]["samples"] = [{**x, "id": None if x["id"] is None else top - x["id"]} for x in c["acq"]["samples"]]
            rng.shuffle(c["listing"])
            c["calls"] = self.gen_calls(rng, c["methods"], c["mode"] == "counts", 2, c.get("masses") or (), c["msms"])
            return c
        if kind in ("same-shape", "same-masses"):
            # the same lines, scans, number of masses, metadata files: other values, times, acquisition order — and, for
            # same-shape, another mass table of the same text length (every file keeps its size)
            masses = prev["masses"] if kind == "same-masses" else self.same_length_masses(rng, prev["masses"], prev["msms"])
            return self.build(rng, n=prev.get("n_lines") or max(1, n_prev), n_extra=prev.get("n_extra", 0), R=prev["R"], masses=masses, msms=prev["msms"], mode=prev["mode"],
                              names_pool=names, scan_start=prev["scan_start"], fixed_width=True, dirty=False, missing=False, path_style="win",
                              decimals=prev["decimals"], csv_mode="all" if all(f["csv"] is not None for f in prev["files"]) else "some",
                              time_style="regular", methods=prev["methods"], **flags, **clean)
        if kind == "other-k":       # another number of masses: the width of every profile record changes
            k = rng.choice([x for x in (1, 2, 3, 4, 5) if x != prev["k"]])
            return self.build(rng, n=max(1, n_prev), R=prev["R"], k=k, names_pool=names, scan_start=prev["scan_start"], **flags, **clean)
        if kind == "other-lines":   # fewer or more lines under the same names
            n = rng.choice([x for x in (1, 2, 3, 4, 6) if x != n_prev])
            return self.build(rng, n=n, R=prev["R"], k=prev["k"], names_pool=names, **clean)
        if kind == "other-scans":
            R = rng.choice([x for x in (2, 3, 4, 5, 7) if x != prev["R"]])
            return self.build(rng, n=max(1, n_prev), R=R, k=prev["k"], names_pool=names, **clean)
        return self.build(rng, names_pool=names, **clean)   # fresh: whatever batch comes next, under the same names where it can

    def gen_history(self, rng, kinds=None, stamps=None, edit=None, first=None):
        """two or three batches written one after the other at the same path and imported in one process"""
        kinds = kinds or [rng.choice(self.HISTORY_KINDS) for _ in range(rng.choice([1, 1, 2]))]
        sized = any(kd in ("same-shape", "same-masses") for kd in kinds)
        first = first or (self.build(rng, fixed_width=True, dirty=False, missing=False, odd=None, badindex=False, nodigit=False, large=False,
                                     time_style="regular", path_style="win", csv_mode=rng.choice(["all", "all", "none"]), n=rng.choice([1, 2, 3]))
                          if sized else self.build(rng, odd=None, badindex=False, nodigit=False, large=False))
        steps = [first]
        for kd in kinds:
            steps.append(self.next_step(rng, steps[-1], kd))
        stamps = stamps or [rng.choice(["preserved", "preserved", "fresh"]) for _ in steps]
        return {"kind": "history", "steps": steps, "kinds": list(kinds), "stamps": stamps,
                "edit": (rng.random() < 0.6 or "same" in kinds) if edit is None else edit}

    def drop_grid_cases(self):
        """`drop_names` x counts / counts per second x full, for every entry point, on batches whose masses all have different
        accumulation times: single quad with 4 masses, MS/MS with 3 (the CSV header names differ from the binary ones), and
        an MS/MS batch with an unreadable binary (`load` falls back to the CSV import)"""
        import random
        accs = ["0.05", "0.1", "0.159999996423721", "0.167999997735023"]
        for gi, (msms, k, unreadable) in enumerate(((False, 4, False), (True, 3, False), (True, 3, True))):
            rng = random.Random(f"C02-dropgrid-{gi}")
            elems = sorted(rng.sample(ISOTOPES, k), key=lambda e: e[1])
            masses = [{"name": nm, "pre": mz, "pro": mz + (16 * (j + 1) if msms else 0), "acctime": accs[j]} for j, (nm, mz) in enumerate(elems)]
            methods = ["batch_xml"]
            c = self.build(rng, n=2, R=3, mode="counts", msms=msms, masses=masses, has_xadd=True, has_xml=True, has_csv=False, has_acq=True,
                           dirty=False, missing=False, csv_mode="all", odd=None, nodigit=False, badindex=False, large=False, tie=None,
                           methods=methods, decimals=2)
            for j, f in enumerate(c["files"]):
                f["binary"] = not (unreadable and j == 0)
            e, cn = self.field_names(c["masses"], c["msms"])
            drops = [None, [], ["Time"], ["Time", e[0]], ["Time", e[len(e) // 2]], ["Time", e[-1]], [e[0], e[-1]], [e[1]],
                     ["Time_[Sec]", cn[0]], ["Time", "Time_[Sec]", cn[1], e[1]], ["Zz999"], ["Time", "Time_[Sec]"] + e + cn]
            calls = []
            for fn in ENTRY_POINTS:
                for cps in ((None, True) if "cps" in TAKES[fn] else (None,)):
                    for full in (None, True):
                        for use_acq in ((None, False) if (fn != "load_binary" and msms) else (None,)):
                            for dn in drops:
                                calls.append(self.call(fn, methods=methods, cps=cps, use_acq=use_acq, full=full, drop=dn))
            c["calls"] = calls
            c["edit"] = False
            yield c

    def class_cases(self):
        """one or two batches of every name style, MS/MS tie, log shape, export-presence pattern and time style, so that
        reaching those classes does not depend on the seed"""
        import random
        i = 0
        common = dict(odd=None, badindex=False, nodigit=False, large=False, missing=False)
        for style in ("long", "long0", "wide", "groups", "unicode"):
            for methods, dirty in ((["alphabetical"], False), (["batch_csv", "batch_xml", "alphabetical"], True)):
                rng = random.Random(f"C02-class-{i}")
                i += 1
                yield self.build(rng, n=4, k=1 + i % 2, R=2, name_style=style, methods=methods, dirty=dirty, has_xml=dirty, has_csv=dirty,
                                 has_acq=False, **common)
        for tie in ("product", "precursor"):
            for methods in (["batch_xml"], ["acq_method_xml", "alphabetical"]):
                rng = random.Random(f"C02-class-{i}")
                i += 1
                c = self.build(rng, n=2, k=3, R=3, mode="counts", msms=True, tie=tie, has_xml=True, has_acq=True, dirty=False,
                               csv_mode="all", methods=methods, **common)
                c["use_acq"] = True
                c["calls"] = [self.call("load_csv", methods=methods, full=True), self.call("load_csv", methods=methods, use_acq=False),
                              self.call("load_binary", methods=methods, cps=True)]
                yield c
        for log_style in ("fail-first", "fail-last", "triple", "many-fail"):
            rng = random.Random(f"C02-class-{i}")
            i += 1
            yield self.build(rng, n=3, k=2, R=2, dirty=True, log_style=log_style, has_xml=True, has_csv=True,
                             methods=[["batch_xml", "batch_csv"], ["batch_csv", "batch_xml"]][i % 2], **common)
        for csv_mode in ("first-missing", "last-missing", "one-present", "none"):
            rng = random.Random(f"C02-class-{i}")
            i += 1
            yield self.build(rng, n=3, k=2, R=3, mode="counts", dirty=False, has_xml=True, csv_mode=csv_mode, methods=["batch_xml"],
                             time_style="irregular", decimals=[4, 6, 8, 0][i % 4], **common)
        # log entries whose time stamps do not increase as text (end of daylight saving, clock set back, mixed offsets and
        # widths, decreasing), equal or missing stamps: each style read through either log first
        for style in ("dst-end", "clock-back", "equal", "missing", "mixed-offsets", "widths", "reversed"):
            for methods in (["batch_xml"], ["batch_csv", "batch_xml"]):
                rng = random.Random(f"C02-class-{i}")
                i += 1
                yield self.build(rng, n=4 + i % 2, k=1, R=2, stamp_style=style, has_xml=True, has_csv=True, has_acq=False,
                                 dirty=bool(i % 3 == 0), methods=methods, **common)
        yield from self.drop_grid_cases()
        rng = random.Random(f"C02-class-{i}")
        yield self.build(rng, n=2, k=60, R=7, mode="counts", large=True, dirty=False, has_xml=True, csv_mode="all", methods=["batch_xml"],
                         odd=None, badindex=False, nodigit=False, missing=False)

    def history_cases(self):
        """every kind of rewrite, with the modification times preserved and not, with and without the caller's edits"""
        import random
        i = 0
        for kd in ["fresh", "same-shape", "same-masses", "other-k", "other-lines", "other-scans", "same", "reordered"]:
            for stamp, edit in (("preserved", False), ("fresh", True)):
                rng = random.Random(f"C02-history-{i}")
                i += 1
                yield self.gen_history(rng, kinds=[kd], stamps=[stamp, stamp], edit=edit)
        for kinds in (["same-shape", "same-shape"], ["other-k", "same"], ["same", "fresh"], ["reordered", "other-lines"]):
            rng = random.Random(f"C02-history-{i}")
            i += 1
            yield self.gen_history(rng, kinds=kinds, stamps=["preserved"] * 3, edit=True)
        # every file of the batch rewritten with other content of the same size and the same modification time (all four
        # optional metadata files present; single quad and MS/MS; every collection method first in turn)
        for j, (msms, methods) in enumerate(((False, ["batch_xml", "batch_csv"]), (True, ["batch_csv", "batch_xml"]),
                                             (True, ["acq_method_xml", "alphabetical"]), (False, ["alphabetical"]))):
            rng = random.Random(f"C02-history-sized-{j}")
            first = self.build(rng, n=2 + j % 2, k=2 + j % 2, R=3, mode="counts", msms=msms, has_xadd=True, has_xml=True, has_csv=True,
                               has_acq=True, fixed_width=True, dirty=False, missing=False, odd=None, badindex=False, nodigit=False,
                               large=False, time_style="regular", path_style="win", csv_mode="all", methods=methods, n_extra=0,
                               name_style="classic", decimals=2)
            yield self.gen_history(rng, kinds=["same-shape", "same-shape"], stamps=["preserved"] * 3, edit=bool(j % 2), first=first)
        # an MS/MS batch replaced by a single-quad one and back, 8900-style tables (<Mass> holds the index)
        rng = random.Random("C02-history-msms")
        a = self.build(rng, n=2, k=2, R=3, mode="counts", msms=True, has_xml=True, has_acq=True, dirty=False, missing=False, odd=None,
                       badindex=False, nodigit=False, large=False, csv_mode="all", methods=["batch_xml"])
        b = self.build(rng, n=2, k=2, R=3, mode="counts", msms=False, has_xadd=False, has_xml=True, has_acq=True, dirty=False, missing=False,
                       odd=None, badindex=False, nodigit=False, large=False, csv_mode="all", methods=["batch_xml"],
                       names_pool=[f["name"] for f in a["files"]])
        yield {"kind": "history", "steps": [a, b, copy.deepcopy(a)], "kinds": ["scan-type"], "stamps": ["preserved"] * 3, "edit": True}

    @staticmethod
    def call(fn, methods=None, cps=None, use_acq=None, full=None, path="Path", drop=None):
        """one call of an entry point: an option is a value, or None = the caller omits it (the default of the signature
        applies: collection_methods ['batch_xml', 'batch_csv'], counts_per_second False, use_acq_for_names True, full False =
        the bare image is returned); `path` = the batch is named by a pathlib.Path or by a str"""
        d = {"fn": fn, "methods": methods, "cps": cps, "use_acq": use_acq, "full": full, "path": path,
             # drop_names: None = omitted (the time field is dropped), else the list passed (collect_datafiles takes none)
             "drop": None if (drop is None or fn == "collect_datafiles") else list(drop)}
        for opt in ("cps", "use_acq", "full"):
            if opt not in TAKES[fn]:
                d[opt] = None
        return d

    @staticmethod
    def field_names(masses, msms):
        """(fields of load_binary's array, fields of load_csv's array without / with the renaming from the method file)"""
        e = [f"{m['name']}{m['pre']}->{m['pro']}" if msms else f"{m['name']}{m['pre']}" for m in masses]
        c = [f"{m['name']}{m['pre']}_->_{m['pro']}" if msms else f"{m['name']}{m['pre']}" for m in masses]
        return e, c

    @staticmethod
    def gen_drop(rng, masses, msms):
        """a `drop_names` argument: omitted (half of the calls), nothing, the time field only, the time field and one element
        (first / middle / last), several elements, a name that is no field, the time field kept and an element dropped"""
        e, c = C02.field_names(masses, msms)
        c_ = rng.random()
        if c_ < 0.5 or not e:
            return None
        times = rng.choice([["Time"], ["Time", "Time_[Sec]"], ["Time_[Sec]"], []])
        pick1 = lambda: rng.choice([e[0], e[len(e) // 2], e[-1], rng.choice(e), rng.choice(c)])
        kind = rng.choice(["none", "time", "one", "one", "one", "several", "unknown"])
        if kind == "none":
            return []
        if kind == "time":
            return times
        if kind == "one":
            return times + [pick1()]
        if kind == "several":
            return times + rng.sample(e + c, rng.randint(2, min(len(e + c), 4)))
        return times + ["Zz999", pick1()]

    def gen_calls(self, rng, methods, rational, count, masses=(), msms=False):
        """`count` calls with independently drawn option tuples (each option omitted / False / True), plus now and then the
        collection itself on a str path"""
        calls = []
        for _ in range(count):
            fn = rng.choice(ENTRY_POINTS)
            tri = lambda: rng.choice([None, False, True])
            ms = rng.choice([None, list(methods), list(methods), rng.sample(METHODS, rng.randint(1, 4))])
            calls.append(self.call(fn, methods=ms, cps=tri() if rational else rng.choice([None, False]), use_acq=tri(),
                                   full=rng.choice([None, False, False, True]), path=rng.choice(["Path", "str"]),
                                   drop=self.gen_drop(rng, list(masses), msms)))
        if rng.random() < 0.3:
            calls.append(self.call("collect_datafiles", methods=list(methods), path=rng.choice(["Path", "str", "str"])))
        return calls

    def option_grid(self, methods, rational):
        """every option tuple of every entry point: collection_methods omitted / given, the boolean options omitted / False / True"""
        import itertools
        tri = [None, False, True]
        i = 0
        for fn in ENTRY_POINTS:
            axes = [[None, list(methods)]] + [tri if opt in TAKES[fn] else [None] for opt in ("cps", "use_acq", "full")]
            for ms, cps, use_acq, full in itertools.product(*axes):
                if cps and not rational:
                    continue
                i += 1
                yield self.call(fn, methods=ms, cps=cps, use_acq=use_acq, full=full, path="str" if i % 3 == 0 else "Path")
        for path in ("Path", "str"):
            yield self.call("collect_datafiles", methods=list(methods), path=path)

    def grid_cases(self):
        """the whole option grid on three small batches: counts (binary import), MS/MS counts with an unreadable binary (CSV
        fallback of load; the names of the method file differ from the CSV header's), bit patterns with MS/MS names"""
        import random
        for i, (mode, msms, unreadable, methods) in enumerate((("counts", False, False, ["batch_csv", "batch_xml"]),
                                                               ("counts", True, True, ["batch_xml"]),
                                                               ("bits", True, False, ["acq_method_xml", "alphabetical"]))):
            rng = random.Random(f"C02-grid-{i}")
            c = self.build(rng, n=2, k=2, R=3, mode=mode, msms=msms, has_xadd=True, has_xml=True, has_csv=True, has_acq=True,
                           dirty=True, missing=False, csv_mode="all", odd=None, nodigit=False, badindex=False, methods=methods)
            for j, f in enumerate(c["files"]):
                f["binary"] = not (unreadable and j == 0)
            c["calls"] = list(self.option_grid(methods, mode == "counts"))
            yield c

    def build(self, rng, **force):
        """one abstract batch; `force` pins any of n, R, k, mode, msms, has_xadd, has_xml, has_csv, has_acq, dirty, methods,
        masses (the mass table), names_pool (data-directory names to use first), name_style, scan_start, fixed_width (every
        export field and time of one width), tie (MS/MS transitions sharing a product / a precursor), log_style, time_style, large"""
        pick = lambda key, default: force[key] if key in force else default
        n = pick("n", rng.choice([1, 2, 2, 3, 3, 4, 5]))
        R = pick("R", rng.choice([2, 2, 3, 4, 5, 6]))
        k = pick("k", rng.choice([1, 1, 2, 2, 3, 3, 4]))
        if pick("large", rng.random() < 0.05):  # many masses / scans / lines (the product bounded: the case travels as JSON)
            k = pick("k", rng.choice([5, 8, 13, 30, 60]))
            R = pick("R", rng.choice([7, 12, 40]))
            n = pick("n", max(1, min(16, 2400 // (k * R))))
        mode = pick("mode", rng.choice(["bits", "counts", "counts"]))
        msms = pick("msms", rng.random() < 0.4)
        has_xadd = msms or pick("has_xadd", rng.random() < 0.5)
        tie = pick("tie", rng.choice([None, None, None, "product", "precursor"]) if msms and k >= 2 else None)
        if "masses" in force:
            masses = [dict(m) for m in force["masses"]]
            k = len(masses)
        else:
            elems = sorted(rng.sample(ELEMENTS if k <= 4 and rng.random() < 0.7 else ISOTOPES, k), key=lambda e: e[1])
            masses = []
            for i, (nm, mz) in enumerate(elems):
                pre, pro = mz, mz
                if msms:
                    pro = mz + rng.choice([0, 0, 16, 16, 32, 48, 64, 100])
                masses.append({"name": nm, "pre": pre, "pro": pro, "acctime": rng.choice(ACCTIMES)})
            if msms and k >= 2 and rng.random() < 0.4:  # product order differs from precursor order
                masses[0]["pro"] = masses[-1]["pre"] + rng.choice([16, 100])
            if tie and k >= 2:
                i, j = rng.sample(range(k), 2)
                if tie == "product":      # two transitions measured at the same product m/z (S 32->48 beside Ti 48->48)
                    masses[j]["pro"] = masses[i]["pro"] = max(masses[i]["pro"], masses[j]["pro"], masses[i]["pre"], masses[j]["pre"])
                else:                     # two products of one precursor (S 32->32 beside S 32->48)
                    masses[j]["name"], masses[j]["pre"] = masses[i]["name"], masses[i]["pre"]
                    masses[j]["pro"] = masses[i]["pro"] + rng.choice([16, 17, 32])
        if msms:  # method order: ascending (product, precursor)
            masses.sort(key=lambda m: (m["pro"], m["pre"]))
            if len({(m["pro"], m["pre"]) for m in masses}) < k or any(m["pro"] < 0 for m in masses):
                msms = False
                for m in masses:
                    m["pro"] = m["pre"]
        if not msms:
            for m in masses:
                m["pro"] = m["pre"]
            masses.sort(key=lambda m: m["pre"])
            if len({m["pre"] for m in masses}) < k:  # a single quad measures every m/z once
                seen, kept = set(), []
                for m in masses:
                    if m["pre"] not in seen:
                        seen.add(m["pre"])
                        kept.append(m)
                masses, k = kept, len(kept)
        index_mass = has_xadd and rng.random() < 0.6  # 8900 style: <Mass> holds the index, XAddition the m/z
        xspecific = [{"name": m["name"], "mass": (i + 1) if index_mass else m["pre"], "acctime": m["acctime"]}
                     for i, m in enumerate(masses)]
        xadd = None
        if has_xadd:
            rows = [{"index": i + 1, "precursor": m["pre"], "product": m["pro"]} for i, m in enumerate(masses)]
            if rng.random() < 0.3:
                rng.shuffle(rows)
            if pick("badindex", rng.random() < 0.03):  # an index outside the mass table: KeyError in mass_info_datafile
                rows.insert(rng.randint(0, len(rows)), {"index": rng.choice([0, k + 1, k + 7]), "precursor": 999, "product": 999})
            xadd = {"scan_type": "MS_MS" if msms else "SingleQuad", "rows": rows}

        names = self.gen_names(rng, n + pick("n_extra", rng.choice([0, 0, 1, 2])), pool=pick("names_pool", ()), style=pick("name_style", None))
        acquired, extra = names[:n], names[n:]
        rng.shuffle(acquired)  # acquisition order
        # ---- log: the final successful acquisition of each line, with failures and re-acquisitions before it
        log = []
        dirty = pick("dirty", rng.random() < 0.55)
        for nm in acquired:
            log.append({"result": "Pass", "name": nm})
        failed_only = []
        bad = lambda: rng.choice(["Fail", "Fail", "Abort", "-", "Skip"])
        if dirty:
            log_style = pick("log_style", rng.choice(["random"] * 4 + ["fail-first", "fail-last", "triple", "many-fail"]))
            if log_style == "fail-first":    # the log opens with a failed acquisition
                log.insert(0, {"result": bad(), "name": rng.choice(acquired + extra)})
            elif log_style == "fail-last":   # ... closes with one (of a line that passed before, or of a file never repeated)
                log.append({"result": bad(), "name": rng.choice(acquired + extra)})
            elif log_style == "triple":      # one line acquired three times (and failed once in between)
                nm = rng.choice(acquired)
                last = max(i for i, e in enumerate(log) if e["name"] == nm)
                for res in ("Pass", bad(), "Pass"):
                    log.insert(rng.randint(0, last), {"result": res, "name": nm})
                    last += 1
            elif log_style == "many-fail":   # every line failed before it passed, every other file failed for good
                for nm in acquired:
                    first = min(i for i, e in enumerate(log) if e["name"] == nm)
                    log.insert(rng.randint(0, first), {"result": bad(), "name": nm})
                for nm in extra:
                    log.insert(rng.randint(0, len(log)), {"result": bad(), "name": nm})
            for _ in range(rng.randint(1, 3) if log_style == "random" else rng.randint(0, 1)):
                c = rng.random()
                pos = rng.randint(0, len(log))
                if c < 0.4:  # a failed attempt of a line that is (re)acquired elsewhere in the log
                    log.insert(pos, {"result": bad(), "name": rng.choice(acquired)})
                elif c < 0.75:  # an earlier passed attempt of a line: only the last Pass entry counts
                    log.insert(pos, {"result": "Pass", "name": rng.choice(acquired)})
                elif extra:  # a failed acquisition of a file that was never repeated
                    nm = rng.choice(extra)
                    failed_only.append(nm)
                    log.insert(pos, {"result": "Fail", "name": nm})
            # the acquisition order = the last Pass entry of each line
            acquired = [nm for i, nm in ((i, e["name"]) for i, e in enumerate(log) if e["result"] == "Pass")
                        if all(f["name"] != nm or f["result"] != "Pass" for f in log[i + 1:])]
        style = pick("path_style", rng.choice(PATH_STYLES))
        for e in log:
            e["file"] = styled(e.pop("name"), style if ("path_style" in force or rng.random() < 0.85) else rng.choice(PATH_STYLES))
        # the order the log finally specifies = last Pass occurrence of each name (ground truth, recomputed by the Lean spec)
        on_disk = list(acquired)
        for nm in extra:  # unlogged or failed-only directories may or may not have been left on disk
            if rng.random() < 0.6:
                on_disk.append(nm)
        missing_logged = None
        if pick("missing", rng.random() < 0.08) and n >= 2:  # a logged, passed file that is not on disk: the log methods must be rejected
            missing_logged = rng.choice(acquired)
            on_disk.remove(missing_logged)
        has_xml = pick("has_xml", rng.random() < 0.7)
        has_csv = pick("has_csv", rng.random() < 0.7)
        has_acq = pick("has_acq", rng.random() < 0.6)
        stamp_style = pick("stamp_style", "increasing" if pick("fixed_width", False) else rng.choice(self.STAMP_STYLES))
        sx, sc = self.gen_stamps(rng, len(log), stamp_style)
        if stamp_style == "increasing" and pick("fixed_width", False):   # one text width
            sx, sc = ["2020-11-16T13:08:48+11:00"] * len(log), ["16/11/2020 1:08:48 PM"] * len(log)
        xml_entries = [{"result": e["result"], "file": e["file"], "stamp": sx[i]} for i, e in enumerate(log)]
        if has_xml and not has_csv and rng.random() < 0.1:  # an entry without DataFileName (XML only)
            xml_entries.insert(rng.randint(0, len(xml_entries)), {"result": "Pass", "file": None, "stamp": rng.choice(sx + [None])})
        csv_rows = [{"id": i + 1, "file": e["file"], "result": e["result"], "stamp": sc[i]} for i, e in enumerate(log)]
        acq = None
        if has_acq:
            # the sample list: the planned acquisitions, SampleID increasing in the planned order
            planned = list(acquired) if not dirty or rng.random() < 0.5 else rng.sample(acquired, len(acquired))
            ids = sorted(rng.sample(range(10 if pick("fixed_width", False) else 0, 40), len(planned)))
            samples = [{"id": i, "file": nm} for i, nm in zip(ids, planned)]
            if rng.random() < 0.08:
                samples.append({"id": None, "file": None})
            rng.shuffle(samples)  # document order is arbitrary
            els = [{"name": m["name"], "mz": m["pro"], "selected": m["pre"]} for m in masses]
            rng.shuffle(els)
            acq = {"samples": samples, "elements": els, "msms": msms}

        # ---- data files
        hdr = 68
        bc = 28 * k
        fixed = bool(pick("fixed_width", False))
        decimals = pick("decimals", rng.choice([2, 2, 2, 1, 3, 0, 4, 6, 8]))
        # which lines have their per-line export: all / each with probability 0.6 / none / all but the first acquired line /
        # all but the last acquired line / a single one
        csv_mode = pick("csv_mode", rng.choice(["all", "all", "all", "some", "some", "none", "first-missing", "last-missing", "one-present"]))
        only = rng.choice(on_disk) if on_disk else None
        eol = "\r" if fixed else rng.choice(["\r", "\r", ""])
        colnames = [f"{m['name']}{m['pre']} -> {m['pro']}" if msms else f"{m['name']}{m['pre']}" for m in masses]
        files = []
        bad_binary = rng.random() < 0.1
        time_style = pick("time_style", rng.choice(["regular", "regular", "regular", "irregular"]))
        for fi, nm in enumerate(on_disk):
            vals = self.gen_values(rng, mode, R, k, fixed_acc=[m["acctime"] for m in masses] if fixed else None)
            if fixed:      # 10 s <= every time < 100 s: one text width
                t0, dt = rng.randint(700, 900), rng.randint(20, 400)
                ticks = [t0 + r * dt + rng.randint(0, 3) for r in range(R)]
                if ticks[-1] >= 6800:
                    ticks = [700 + r * (6000 // R) + rng.randint(0, 3) for r in range(R)]
            elif time_style == "irregular":  # sampling intervals that differ from scan to scan and from line to line
                ticks, t = [], rng.randint(1, 5000)
                for r in range(R):
                    ticks.append(t)
                    t += rng.choice([1, rng.randint(1, 40), rng.randint(1, 3000)])
            else:
                t0 = rng.randint(1, 200)
                dt = rng.randint(20, 400)
                ticks = [t0 + r * dt + rng.randint(0, 3) for r in range(R)]
            scans = [{"off": hdr + r * bc, "bc": bc, "ticks": ticks[r]} for r in range(R)]
            f = {"name": nm, "binary": True, "scans": scans, "vals": vals, "csv": None}
            present = {"all": True, "some": rng.random() < 0.6, "none": False, "first-missing": nm != acquired[0],
                       "last-missing": nm != acquired[-1], "one-present": nm == only}[csv_mode]
            if present:
                if mode == "counts":
                    src = [[f64(t) / float(masses[j]["acctime"]) for j, t in enumerate(row)] for row in vals]
                elif fixed:
                    src = [[1000 + rng.random() * 8990 for _ in range(k)] for _ in range(R)]
                else:  # independent finite values
                    src = [[rng.random() * 10 ** rng.randint(0, 5) for _ in range(k)] for _ in range(R)]
                rows = [[f"{ticks[r] / TICK * 60:.4f}"] + [f"{v:.{decimals}f}" for v in src[r]] for r in range(R)]
                pre = [WIN + nm, "Intensity Vs Time,CPS", f"Acquired      : 16/11/2020 1:08:48 PM using Batch synthetic.b"]
                if rng.random() < 0.15 and not fixed:
                    pre = pre[: rng.randint(0, 2)]
                foot = rng.choice([["", "", "          Printed:16/11/2020 1:09:06 PM"], [], [""],
                                   ["", "Printed," * (k + 2)]])
                if fixed:
                    foot = ["", "", "          Printed:16/11/2020 1:09:06 PM"]
                f["csv"] = {"pre": pre, "header": ["Time [Sec]"] + colnames, "rows": rows, "foot": foot, "eol": eol}
            files.append(f)
        if bad_binary and files:
            rng.choice(files)["binary"] = False
        odd = pick("odd", rng.choice([None] * 30 + ["offsets", "offsets", "profile", "csvrows", "csvrows", "scancount"]))
        if odd == "offsets":  # scan records outside the instrument layout (clip / negative index / misaligned)
            for f in (files if pick("odd_all", rng.random() < 0.4) else [rng.choice(files)]):
                self.odd_offsets(rng, f, k, pick("odd_kind", None))
        elif odd == "profile":  # profile with fewer / more records than there are scans
            f = rng.choice(files)
            if rng.random() < 0.5:
                f["vals"] = f["vals"][: rng.randint(0, R - 1)]
            else:
                f["vals"] = f["vals"] + self.gen_values(rng, mode, rng.randint(1, 2), k)
        elif odd == "scancount" and len(files) >= 2:  # one data file with a scan less than the others: np.stack raises
            f = rng.choice(files)
            f["scans"], f["vals"] = f["scans"][:-1], f["vals"][:-1]
            if f["csv"] is not None and rng.random() < 0.5:
                f["csv"]["rows"] = f["csv"]["rows"][:-1]
        elif odd == "csvrows":  # per-line exports of unequal length
            with_csv = [f for f in files if f["csv"] is not None]
            if with_csv:
                n_rows = pick("odd_rows", rng.choice([0, 0, 1, 1, R - 1, R + 1]))
                targets = with_csv if (n_rows == 0 and rng.random() < 0.5) else [rng.choice(with_csv)]
                for f in targets:
                    rows = f["csv"]["rows"]
                    f["csv"]["rows"] = (rows + [rows[-1]])[:n_rows]
        # ---- listing (iterdir order is controlled by the harness)
        listing = [{"name": f["name"], "dir": True} for f in files]
        if has_xml or has_acq:
            listing.append({"name": "Method", "dir": True})
        if has_csv:
            listing.append({"name": "BatchLog.csv", "dir": False})
        if rng.random() < 0.15:
            listing.append({"name": rng.choice(["notes.txt", "5.d.bak", "77.dat", "readme"]), "dir": rng.random() < 0.5})
        if rng.random() < 0.12:  # a plain file that looks like a data directory
            nm = rng.choice(["88888.d", "0.D", "tmp55555.d"])
            # never a name that a log or the method file refers to (a logged-but-missing data file of that name would
            # then "exist" as a plain file: a batch no instrument writes, outside the property's quantifier)
            referenced = json.dumps([xml_entries, csv_rows, acq])
            if all(e["name"] != nm for e in listing) and all(digits(nm) != digits(f["name"]) for f in files) \
                    and nm not in referenced:
                listing.append({"name": nm, "dir": False})
        if pick("nodigit", rng.random() < 0.05):  # a data directory without digit: the directory scan raises ValueError
            nm = rng.choice(["abc.d", "blank.D", "Method.d"])
            if all(e["name"] != nm for e in listing):
                listing.append({"name": nm, "dir": True})
        rng.shuffle(listing)
        nm_methods = pick("methods", None) or rng.choice([["batch_xml", "batch_csv"], ["batch_xml", "batch_csv"], ["batch_csv", "batch_xml"],
                                 ["batch_xml", "batch_csv", "acq_method_xml", "alphabetical"], ["acq_method_xml", "alphabetical"],
                                 ["alphabetical"], ["batch_csv"], ["acq_method_xml"], ["batch_xml", "alphabetical"],
                                 rng.sample(METHODS, rng.randint(1, 4))])
        case = {"kind": "batch", "k": k, "R": R, "mode": mode, "msms": msms, "decimals": decimals,
                "xspecific": xspecific, "xadd": xadd, "listing": listing,
                "xml": xml_entries if has_xml else None, "csv": csv_rows if has_csv else None, "acq": acq,
                "files": files, "methods": nm_methods, "use_acq": rng.random() < 0.7, "cps": rng.random() < 0.5,
                "scan_start": pick("scan_start", rng.choice([208, 208, 92, 160, 333])), "seed": rng.getrandbits(32),
                # what the generator knows (not read by evaluate): the mass table it drew, for a later batch at the same path
                "masses": masses, "n_lines": n, "n_extra": len(extra),
                # the caller changes every returned array / list / params dict in place before the next call
                "edit": rng.random() < 0.5}
        # the entry points called the way callers do: options given or left to their defaults (drawn last: the batch above
        # is the one the same PRNG produced before this class existed)
        case["calls"] = self.gen_calls(rng, nm_methods, mode == "counts", pick("n_calls", 3), masses, msms)
        return case

    @staticmethod
    def odd_offsets(rng, f, k, kind=None):
        """perturb the scan records of one data file so that the clip / negative-index / floor paths of the index map are taken"""
        R = len(f["scans"])
        bc = 28 * k
        kind = kind or rng.choice(["beyond", "negative", "far-negative", "below-header", "misaligned", "permuted", "bytecount", "bytecount0", "mixed"])
        for r, s in enumerate(f["scans"]):
            kd = rng.choice(["beyond", "negative", "below-header", "misaligned", "normal", "normal"]) if kind == "mixed" else kind
            if kd == "beyond" and (r == R - 1 or rng.random() < 0.5):
                s["off"] = 68 + (R + rng.randint(0, 3)) * bc
            elif kd == "negative" and (r == 0 or rng.random() < 0.5):
                s["off"] = max(0, 68 - rng.randint(1, R) * bc)          # (off-68)//bc = -q: wraps from the end when -q*k+j >= -R*k
            elif kd == "far-negative":
                if r == 0:
                    s["off"], s["bc"] = 0, 1                           # (0-68)//1 = -68: below -R*k for the generated sizes -> IndexError
            elif kd == "below-header" and (r == 0 or rng.random() < 0.4):
                s["off"] = rng.choice([0, 40, 67])
            elif kd == "misaligned":
                s["off"] = s["off"] + rng.randint(1, bc - 1)
            elif kd == "bytecount":
                s["bc"] = rng.choice([28, 1, 2 * bc, bc + 1, 1000])
            elif kd == "bytecount0":
                if r == R - 1:
                    s["bc"] = 0
        if kind == "permuted" and R >= 2:
            offs = [s["off"] for s in f["scans"]]
            i, j = rng.sample(range(R), 2)
            offs[i], offs[j] = offs[j], offs[i]
            for s, o in zip(f["scans"], offs):
                s["off"] = o

    def odd_cases(self):
        import random
        i = 0
        for kind in ["beyond", "negative", "far-negative", "below-header", "misaligned", "permuted", "bytecount", "bytecount0"]:
            rng = random.Random(f"C02-odd-{i}")
            i += 1
            yield self.build(rng, n=2, k=1 + i % 3, R=3, mode="counts", odd="offsets", odd_kind=kind, odd_all=True, has_xml=True,
                             dirty=False, missing=False, csv_mode="all", methods=["batch_xml"], nodigit=False)
        for rows in (0, 1, 2, 4):
            rng = random.Random(f"C02-odd-{i}")
            i += 1
            yield self.build(rng, n=2, k=2, R=3, mode="counts", odd="csvrows", odd_rows=rows, has_xml=True, dirty=False,
                             missing=False, csv_mode="all", methods=["batch_xml"], nodigit=False)
        for methods, has_xml in ((["alphabetical"], False), (["batch_xml", "alphabetical"], False), (["alphabetical", "batch_xml"], True)):
            rng = random.Random(f"C02-odd-{i}")
            i += 1
            yield self.build(rng, n=2, k=1, R=2, mode="counts", odd=None, has_xml=has_xml, missing=False, methods=methods, nodigit=True)
        rng = random.Random(f"C02-odd-{i}")
        yield self.build(rng, n=2, k=2, R=3, mode="counts", odd="scancount", has_xml=True, dirty=False, missing=False, csv_mode="all",
                         methods=["batch_xml"], nodigit=False)
        rng = random.Random(f"C02-odd-{i + 1}")
        yield self.build(rng, n=2, k=2, R=2, mode="counts", odd=None, has_xadd=True, badindex=True, has_xml=True, dirty=False, missing=False,
                         csv_mode="all", methods=["batch_xml"], nodigit=False)

    def targeted(self, tier):
        import itertools
        import random

        # the two repaired defects, as minimal batches
        yield self.fixed_log_case()
        yield self.fixed_offset_case(1)
        yield self.fixed_offset_case(2)
        yield self.other_result_case()
        yield self.crossing_case()
        yield from self.odd_cases()
        yield from self.grid_cases()
        yield from self.history_cases()
        yield from self.class_cases()
        # every subset of the optional metadata files x smallest sizes (1 and 2 lines / masses, 2 scans), MS and MS/MS
        i = 0
        for has_xml, has_csv, has_acq, has_xadd in itertools.product([False, True], repeat=4):
            for n, k, msms in ((1, 1, False), (2, 2, False), (2, 1, True), (3, 2, True), (1, 3, False), (5, 4, True)):
                rng = random.Random(f"C02-targeted-{i}")
                i += 1
                yield self.build(rng, n=n, k=k, R=2 if i % 2 else 3, msms=msms and has_xadd, has_xadd=has_xadd, has_xml=has_xml,
                                 has_csv=has_csv, has_acq=has_acq, dirty=bool(i % 3),
                                 methods=[["batch_xml", "batch_csv"], ["batch_csv", "batch_xml", "acq_method_xml", "alphabetical"],
                                          ["acq_method_xml", "alphabetical"], ["alphabetical"]][i % 4])

    @staticmethod
    def plain_file(name, k, R, base, csv=True, accs=None):
        bc = 28 * k
        vals = [[tok(float(base + 100 * r + j + 0.25)) for j in range(k)] for r in range(R)]
        ticks = [10 + 40 * r for r in range(R)]
        f = {"name": name, "binary": True, "scans": [{"off": 68 + r * bc, "bc": bc, "ticks": ticks[r]} for r in range(R)],
             "vals": vals, "csv": None}
        if csv:
            rows = [[f"{ticks[r] / TICK * 60:.4f}"] + [f"{f64(vals[r][j]) / float(accs[j]):.2f}" for j in range(k)] for r in range(R)]
            f["csv"] = {"pre": [WIN + name, "Intensity Vs Time,CPS", "Acquired      : now using Batch synthetic.b"],
                        "header": ["Time [Sec]"] + [f"E{j}{10 + j}" for j in range(k)], "rows": rows,
                        "foot": ["", "", "          Printed:now"], "eol": "\r"}
        return f

    def fixed_log_case(self):
        """DESIGN 5.2 / 92e0f8d: log 1.d, 2.d (Fail), 3.d, 1.d  ->  [3.d, 1.d]"""
        k, R = 3, 2
        accs = ["0.1", "0.25", "1"]
        names = ["1.d", "2.d", "3.d"]
        log = [("1.d", "Pass"), ("2.d", "Fail"), ("3.d", "Pass"), ("1.d", "Pass")]
        files = [self.plain_file(nm, k, R, 1000 * (i + 1), True, accs) for i, nm in enumerate(names)]
        return {"kind": "batch", "k": k, "R": R, "mode": "counts", "msms": False, "decimals": 2,
                "xspecific": [{"name": f"E{j}", "mass": 10 + j, "acctime": accs[j]} for j in range(k)], "xadd": None,
                "listing": [{"name": "3.d", "dir": True}, {"name": "BatchLog.csv", "dir": False}, {"name": "1.d", "dir": True},
                            {"name": "Method", "dir": True}, {"name": "2.d", "dir": True}],
                "xml": [{"result": r, "file": WIN + nm} for nm, r in log],
                "csv": [{"id": i + 1, "file": WIN + nm, "result": r} for i, (nm, r) in enumerate(log)], "acq": None,
                "files": files, "methods": ["batch_csv", "batch_xml"], "use_acq": False, "cps": True, "scan_start": 208, "seed": 1}

    def other_result_case(self):
        """a result text that is neither Pass nor Fail does not count as acquired"""
        c = self.fixed_log_case()
        log = [("1.d", "Pass"), ("2.d", "Abort"), ("3.d", "Pass"), ("2.d", "-")]
        c["xml"] = [{"result": r, "file": "/data/x.b/" + nm} for nm, r in log]
        c["csv"] = [{"id": i + 1, "file": "/data/x.b/" + nm, "result": r} for i, (nm, r) in enumerate(log)]
        return c

    def crossing_case(self):
        """MS/MS where product order differs from precursor order; names from the method file in shuffled document order"""
        k, R = 2, 2
        accs = ["0.1", "0.25"]
        # mass table in method order = ascending (product, precursor): Ca44->44, P31->63
        table = [("Ca", 44, 44), ("P", 31, 63)]
        f = self.plain_file("4.d", k, R, 500, True, accs)
        f["csv"]["header"] = ["Time [Sec]"] + [f"{n}{pre} -> {pro}" for n, pre, pro in table]
        return {"kind": "batch", "k": k, "R": R, "mode": "counts", "msms": True, "decimals": 2,
                "xspecific": [{"name": n, "mass": i + 1, "acctime": accs[i]} for i, (n, _, _) in enumerate(table)],
                "xadd": {"scan_type": "MS_MS", "rows": [{"index": 2, "precursor": 31, "product": 63}, {"index": 1, "precursor": 44, "product": 44}]},
                "listing": [{"name": "Method", "dir": True}, {"name": "4.d", "dir": True}], "xml": None, "csv": None,
                "acq": {"samples": [{"id": 0, "file": "4.d"}], "msms": True,
                        "elements": [{"name": "P", "mz": 63, "selected": 31}, {"name": "Ca", "mz": 44, "selected": 44}]},
                "files": [f], "methods": ["acq_method_xml"], "use_acq": True, "cps": True, "scan_start": 208, "seed": 3}

    def fixed_offset_case(self, k):
        """0904cc9: one line, k = 1 or 2 masses, three scans, instrument layout SpectrumOffset = 68 + r*28k"""
        accs = ["0.1", "0.25"][:k]
        return {"kind": "batch", "k": k, "R": 3, "mode": "counts", "msms": False, "decimals": 2,
                "xspecific": [{"name": f"E{j}", "mass": 10 + j, "acctime": accs[j]} for j in range(k)], "xadd": None,
                "listing": [{"name": "7.d", "dir": True}], "xml": None, "csv": None, "acq": None,
                "files": [self.plain_file("7.d", k, 3, 1000, True, accs)], "methods": ["alphabetical"], "use_acq": False,
                "cps": False, "scan_start": 208, "seed": 2}

    # ------------------------------------------------------------------ writer
    def write_batch(self, case, root: pathlib.Path):
        b = root / "synthetic.b"
        b.mkdir()
        k = case["k"]
        rs = np.random.RandomState(case["seed"] % (2 ** 32))  # decoy values only; derived from the case
        if case["xml"] is not None or case["acq"] is not None:
            (b / "Method").mkdir()
        if case["xml"] is not None:
            gen_agilent.write_batch_xml(b / "Method" / "BatchLog.xml", case["xml"])
        if case["csv"] is not None:
            gen_agilent.write_batch_csv(b / "BatchLog.csv", case["csv"])
        if case["acq"] is not None:
            gen_agilent.write_acq_method(b / "Method" / "AcqMethod.xml", case["acq"]["elements"], case["acq"]["msms"],
                                         case["acq"]["samples"])
        for f in case["files"]:
            d = b / f["name"]
            (d / "AcqData").mkdir(parents=True)
            R = len(f["scans"])
            gen_agilent.write_msscan(d / "AcqData" / "MSScan.bin", [s["off"] for s in f["scans"]], [s["bc"] for s in f["scans"]],
                                     [s["ticks"] / TICK for s in f["scans"]], k, start=case["scan_start"])
            if f["binary"]:
                decoys = (rs.random_sample((len(f["vals"]), k)) * 1e5, rs.random_sample((len(f["vals"]), k)) * 1e5)
                gen_agilent.write_msprofile(d / "AcqData" / "MSProfile.bin", f["vals"], k, decoys)
            gen_agilent.write_xspecific(d / "AcqData" / "MSTS_XSpecific.xml", case["xspecific"])
            if case["xadd"] is not None:
                gen_agilent.write_xaddition(d / "MSTS_XAddition.xml", case["xadd"]["scan_type"],
                                            [(r["index"], r["precursor"], r["product"]) for r in case["xadd"]["rows"]])
            if f["csv"] is not None:
                c = f["csv"]
                lines = c["pre"] + [",".join(c["header"])] + [",".join(r) for r in c["rows"]] + c["foot"]
                stem = f["name"].rsplit(".", 1)[0]
                (d / f"{stem}.csv").write_bytes(("".join(l + c["eol"] + "\n" for l in lines)).encode("utf-8"))
        for e in case["listing"]:
            p = b / e["name"]
            if not p.exists():
                if e["dir"]:
                    p.mkdir()
                else:
                    p.write_text("x")
        real = sorted(p.name for p in b.iterdir())
        if real != sorted(e["name"] for e in case["listing"]):
            raise core.InternalError(f"listing of the case does not match the directory: {real}")
        for e in case["listing"]:
            if (b / e["name"]).is_dir() != e["dir"]:
                raise core.InternalError(f"listing entry {e['name']}: wrong kind")
        return b

    # ------------------------------------------------------------------ driver request
    def request(self, case):
        rational = case["mode"] == "counts"
        files = []
        for f in case["files"]:
            jf = {"name": f["name"], "binary": f["binary"],
                  "scans": [{"off": s["off"], "bc": s["bc"], "time": rat(Fraction(s["ticks"], TICK))} for s in f["scans"]],
                  "vals": f["vals"], "csv": f["csv"]}
            if rational:
                jf["rvals"] = [[rat(Fraction(f64(t))) for t in row] for row in f["vals"]]
            files.append(jf)
        return dict(
            listing=case["listing"], xml=case["xml"], csv=case["csv"], acq=case["acq"],
            xspecific=[{"name": m["name"], "mass": m["mass"], "acctime": rat(Fraction(float(m["acctime"])))} for m in case["xspecific"]],
            xadd=None if case["xadd"] is None else {"msms": case["xadd"]["scan_type"] == "MS_MS", "rows": case["xadd"]["rows"]},
            files=files, methods=case["methods"], use_acq=case["use_acq"], cps=bool(case["cps"] and rational), rational=rational,
            decimals=case["decimals"])

    # ------------------------------------------------------------------ canonical forms
    @staticmethod
    def canon_image(res, conv):
        """driver image -> canonical; conv maps a pixel to a token"""
        if res is None:
            return None
        if "raises" in res:
            return {"raises": "any", "class": res["raises"]}
        return {"names": res["names"], "img": [[[conv(v) for v in col] for col in line] for line in res["img"]],
                "times": [[qtok(t) for t in row] for row in res["times"]]}

    @staticmethod
    def caller_edits(res):
        """what a caller may do with what an entry point handed over, between two calls: every returned array is overwritten in
        place, the params dict is emptied, a returned list is reversed and extended.  (The property speaks of what each import
        returns; an import that hands out state it keeps — a memoised result, a cached table — serves the edited object to the
        next call.)  Read-only or otherwise uneditable objects are left alone."""
        def spoil(a):
            try:
                if isinstance(a, np.ndarray):
                    if a.dtype.names:
                        for n in a.dtype.names:
                            a[n] = -7.5
                    else:
                        a[...] = -7.5
                elif isinstance(a, dict):
                    for v in list(a.values()):
                        spoil(v)
                    a.clear()
                elif isinstance(a, list):
                    a.reverse()
                    a.append(pathlib.Path("/nonexistent/edited-by-caller.d"))
                elif isinstance(a, tuple):
                    for v in a:
                        spoil(v)
            except Exception:
                pass
        spoil(res)

    @staticmethod
    def impl_image(call, edit=False):
        try:
            with warnings.catch_warnings():
                warnings.simplefilter("ignore")
                res = call()
        except Exception as e:
            return {"raises": "any", "class": type(e).__name__}, None
        try:
            return C02._impl_image(res)
        finally:
            if edit:
                C02.caller_edits(res)

    @staticmethod
    def _impl_image(res):
        if not (isinstance(res, tuple) and len(res) == 2 and isinstance(res[0], np.ndarray) and res[0].dtype.names
                and res[0].ndim == 2 and isinstance(res[1], dict)):
            return {"bad-return": type(res).__name__}, None  # `full=True` was passed: (structured 2-d array, dict) is expected
        data, params = res
        names = list(data.dtype.names)
        img = [[[tok(v) for v in data[n][line]] for n in names] for line in range(data.shape[0])]
        times = [[tok(v) for v in row] for row in params["times"]] if "times" in params else None
        st = params.get("scantime")
        return {"names": names, "img": img, "times": times}, (None if st is None else float(st))

    @staticmethod
    def effective_calls(case):
        """the calls of a case (older corpus cases have none), made well-formed for any case a shrinker or a hand may derive:
        an option the entry point does not take is omitted; counts per second need count values (bit patterns hold NaNs and
        infinities, which the exact division of the model does not describe)"""
        out = []
        for d in case.get("calls") or []:
            if d["fn"] not in TAKES:
                raise core.InternalError(f"unknown entry point {d['fn']}")
            e = {"fn": d["fn"], "methods": None if d["methods"] is None else list(d["methods"]),
                 "path": "str" if d.get("path") == "str" else "Path"}
            for opt in ("cps", "use_acq", "full"):
                v = d.get(opt) if opt in TAKES[d["fn"]] else None
                e[opt] = None if v is None else bool(v)
            if e["cps"] and case["mode"] != "counts":
                e["cps"] = False
            dn = d.get("drop")
            e["drop"] = None if (dn is None or d["fn"] == "collect_datafiles") else [str(x) for x in dn]
            if e["fn"] == "collect_datafiles" and e["methods"] is None:
                e["methods"] = list(case["methods"])
            out.append(e)
        return out

    @staticmethod
    def impl_call(agilent, b, d, edit=False):
        """one call of a pewlib entry point with exactly the arguments the descriptor names -> (canonical return value, scantime)"""
        path = str(b) if d["path"] == "str" else b
        args = (path,) if d["methods"] is None else (path, list(d["methods"]))
        kw = {KWARG[opt]: d[opt] for opt in ("cps", "use_acq", "full") if d[opt] is not None}
        if d.get("drop") is not None:
            kw["drop_names"] = list(d["drop"])
        try:
            with warnings.catch_warnings():
                warnings.simplefilter("ignore")
                res = getattr(agilent, d["fn"])(*args, **kw)
        except Exception as e:
            return {"raises": "any", "class": type(e).__name__}, None
        try:
            return C02._impl_call(b, d, res)
        finally:
            if edit:
                C02.caller_edits(res)

    @staticmethod
    def _impl_call(b, d, res):
        if d["fn"] == "collect_datafiles":
            bad = [str(p) for p in res if pathlib.Path(p).parent != b]
            return ({"bad": "path outside batch " + bad[0]} if bad else [pathlib.Path(p).name for p in res]), None
        if isinstance(res, tuple) and len(res) == 2 and isinstance(res[1], dict):
            data, params = res
        else:
            data, params = res, None
        if not (isinstance(data, np.ndarray) and data.dtype.names is not None and data.ndim == 2):
            return {"bad-return": type(res).__name__}, None
        names = list(data.dtype.names)  # every field of the returned array, the time field included when it was not dropped
        out = {"names": names, "img": [[[tok(v) for v in data[n][line]] for n in names] for line in range(data.shape[0])],
               "params": None}
        if params is not None:
            out["params"] = {"times": [[tok(v) for v in row] for row in params["times"]] if "times" in params else None}
            st = params.get("scantime")
            return out, (None if st is None else float(st))
        return out, None

    @staticmethod
    def canon_call(d, r):
        """driver reply of one call -> canonical (same shape as impl_call)"""
        ret, via = r["ret"], r["via"]
        if via == "collect":
            return {"raises": "any"} if isinstance(ret, dict) else ret
        if "raises" in ret:
            return {"raises": "any", "class": ret["raises"]}
        conv = int if (via == "binary" and not d["cps"]) else qtok
        names = list(ret["names"])
        img = [[[conv(v) for v in col] for col in line] for line in ret["img"]]
        tf = ret.get("time_field")
        if tf is not None:  # the time field stayed in the array: last field of the binary import's, first of the CSV import's
            cols = [[qtok(t) for t in row] for row in tf]
            if via == "binary":
                names, img = names + ["Time"], [line + [cols[i]] for i, line in enumerate(img)]
            else:
                names, img = ["Time_[Sec]"] + names, [[cols[i]] + line for i, line in enumerate(img)]
        return {"names": names, "img": img,
                "params": None if ret["params"] is None else {"times": [[qtok(t) for t in row] for row in ret["params"]["times"]]}}

    @staticmethod
    def call_features(calls, rep):
        feats = set()
        word = {None: "omitted", False: "False", True: "True"}
        for d, r in zip(calls, rep["calls"]):
            fn, sp = d["fn"], r["spec"]
            feats.add("call:" + fn)
            if d["path"] == "str":
                feats.add("call:path-str")
            if fn == "collect_datafiles":
                continue
            returned = "raises" not in sp["ret"]
            image_only = not d["full"]
            feats.add("call:full=" + word[d["full"]])
            if d["methods"] is None:
                feats.add("call:methods-omitted")
            dn = d.get("drop")
            if dn is not None and returned:
                kept = sp["ret"]["names"]
                feats.add("call:drop_names=[]" if not dn else "call:drop_names-given")
                if sp["ret"].get("time_field") is not None:
                    feats.add("call:time-field-kept")
                if sp["via"] == "binary":
                    all_e = [m["str"] for m in rep["masses"]["spec"]]
                    gone = [i for i, x in enumerate(all_e) if x not in kept]
                    if gone and kept:
                        feats.add("call:element-dropped")
                        if any(i < len(all_e) - 1 for i in gone):
                            feats.add("call:element-dropped-not-last")
                            if d["cps"]:
                                acc = [m["acctime"] for m in rep["masses"]["spec"]]
                                if any(acc[j] != acc[j - 1] for j in range(min(gone) + 1, len(acc))):
                                    feats.add("call:cps+element-dropped+unequal-acctimes")
                    if not kept and sp["ret"].get("time_field") is None:
                        feats.add("call:every-field-dropped")
                elif len(kept) < len(all_csv := (rep["csv"]["spec"].get("names") or [])) if isinstance(rep["csv"]["spec"], dict) else False:
                    feats.add("call:csv-element-dropped")
            if all(d.get(opt) is None for opt in ("methods", "cps", "use_acq", "full", "drop")):
                feats.add("call:all-defaults")
            if "use_acq" in TAKES[fn]:
                feats.add("call:use_acq=" + word[d["use_acq"]])
            if "cps" in TAKES[fn]:
                feats.add("call:counts_per_second=" + word[d["cps"]])
            if returned and image_only:
                feats.add(f"call:image-only:{fn}")
                if d["cps"] and sp["via"] == "binary":
                    feats.add("call:image-only+counts-per-second")
                if fn == "load" and sp["via"] == "csv":
                    feats.add("call:image-only+csv-fallback")
        return feats

    @staticmethod
    def same_image(a, b):
        """canonical equality; the property does not name exception classes: raised matches raised"""
        if a is None or b is None:
            return a is None and b is None
        if isinstance(a, dict) and isinstance(b, dict) and ("raises" in a or "raises" in b):
            return "raises" in a and "raises" in b
        return core.canon(a) == core.canon(b)

    @staticmethod
    def scantime_ok(impl_st, ref):
        """the code rounds the mean interval to 4 places: within 0.5e-4 of the exact mean"""
        if ref is None or impl_st is None:
            return True
        q = unrat(ref)
        if not math.isfinite(float(impl_st)):
            return False
        return abs(Fraction(float(impl_st)) - q) <= Fraction(1, 20000) + Fraction(1, 10 ** 9)

    # ------------------------------------------------------------------ evaluation
    def evaluate(self, case, ctx):
        if case.get("kind") == "history":
            return self.evaluate_history(case, ctx)
        r = self.evaluate_batch(case, ctx, ctx.tmpdir(), edit=bool(case.get("edit")))
        if r.get("excluded"):
            return outcome({"excluded": True}, {"excluded": True}, {"excluded": True}, undetermined=True, hyp=False, features=r["features"])
        return outcome(r["impl"], r["model"], r["spec"], spec_ok=r["spec_ok"], model_ok=r["model_ok"], hyp=r["hyp"], features=r["features"])

    STAMP = 1_600_000_000  # the modification time given to everything under a batch whose rewrite "preserves" the times

    @staticmethod
    def tree(b):
        """relative path -> (size, mtime_ns, sha1) of every regular file under b"""
        out = {}
        for p in sorted(b.rglob("*")):
            if p.is_file():
                st = p.stat()
                out[str(p.relative_to(b))] = (st.st_size, st.st_mtime_ns, hashlib.sha1(p.read_bytes()).hexdigest())
        return out

    def evaluate_history(self, case, ctx):
        """several imports in ONE process that reuse paths: the batch directory is rewritten between the steps (each step a
        whole abstract batch), optionally with every modification time set to one fixed instant, the caller editing what the
        calls returned; every import of every step is judged against the Lean model / specification of the batch as it is on
        disk at that call.  The directory is private to the case (named by its hash): the verdict does not depend on what the
        process imported before."""
        steps = case["steps"]
        if not steps or any(st.get("kind") != "batch" for st in steps):
            raise core.InternalError("history: steps must be batches")
        key = hashlib.sha1(json.dumps(case, sort_keys=True, default=str).encode()).hexdigest()[:12]
        root = ctx.tmpdir() / ("h" + key)
        root.mkdir()
        stamps = list(case.get("stamps") or [])
        feats = {f"history:steps{min(len(steps), 3)}{'+' if len(steps) > 3 else ''}"}
        impl, model, spec = [], [], []
        spec_ok = model_ok = hyp = True
        before = None
        for i, st in enumerate(steps):
            b = root / "synthetic.b"
            if b.exists():
                shutil.rmtree(b)
            keep = i < len(stamps) and stamps[i] == "preserved"

            def after_write(bdir, keep=keep):
                if keep:
                    for p in sorted(bdir.rglob("*"), reverse=True):
                        os.utime(p, ns=(self.STAMP * 10 ** 9, self.STAMP * 10 ** 9))
                    os.utime(bdir, ns=(self.STAMP * 10 ** 9, self.STAMP * 10 ** 9))

            r = self.evaluate_batch(st, ctx, root, edit=bool(case.get("edit")), after_write=after_write)
            if r.get("excluded"):
                return outcome({"excluded": True}, {"excluded": True}, {"excluded": True}, undetermined=True, hyp=False, features=r["features"])
            now = r["tree"]
            if before is not None:
                same_path = [p for p in now if p in before]
                changed = [p for p in same_path if now[p][2] != before[p][2]]
                if changed:
                    feats.add("history:path-reused+content-changed")
                for p in changed:
                    leaf = p.rsplit("/", 1)[-1]
                    leaf = "line.csv" if leaf.endswith(".csv") and leaf != "BatchLog.csv" else leaf
                    if now[p][1] == before[p][1]:
                        feats.add("history:same-mtime:" + leaf)
                        if now[p][0] == before[p][0]:
                            feats.add("history:same-mtime+size:" + leaf)
                    if now[p][0] == before[p][0]:
                        feats.add("history:same-size:" + leaf)
                if not changed and same_path:
                    feats.add("history:same-batch-again")
                prev = steps[i - 1]
                if st["k"] != prev["k"]:
                    feats.add("history:other-number-of-masses")
                if len(st["files"]) != len(prev["files"]):
                    feats.add("history:other-line-count")
                if st["R"] != prev["R"]:
                    feats.add("history:other-scan-count")
                if [m["name"] for m in st["xspecific"]] != [m["name"] for m in prev["xspecific"]] and st["k"] == prev["k"]:
                    feats.add("history:other-masses")
                if [m["acctime"] for m in st["xspecific"]] != [m["acctime"] for m in prev["xspecific"]] and st["k"] == prev["k"]:
                    feats.add("history:other-acctimes")
                if st["msms"] != prev["msms"]:
                    feats.add("history:other-scan-type")
                a, c = r["spec"]["collect"].get("methods"), prev_collect
                if isinstance(a, list) and isinstance(c, list) and sorted(a) == sorted(c) and a != c:
                    feats.add("history:other-acquisition-order")
            before, prev_collect = now, r["spec"]["collect"].get("methods")
            impl.append(r["impl"])
            model.append(r["model"])
            spec.append(r["spec"])
            spec_ok, model_ok, hyp = spec_ok and r["spec_ok"], model_ok and r["model_ok"], hyp and r["hyp"]
            feats |= {f for f in r["features"] if not f.startswith("call:")}
        if any(x == "preserved" for x in stamps[1:len(steps)]):
            feats.add("history:mtime-preserved")
        if case.get("edit"):
            feats.add("history:caller-edits")
        for kd in case.get("kinds") or []:
            feats.add("history:" + kd)
        return outcome({"steps": impl}, {"steps": model}, {"steps": spec}, spec_ok=spec_ok, model_ok=model_ok, hyp=hyp, features=feats)

    def evaluate_batch(self, case, ctx, root, edit=False, after_write=None):
        """one batch written under `root` and imported through every entry point -> impl / model / spec with the verdicts"""
        from pewlib.io import agilent

        # a plain FILE carrying the name of a data file that a log / the method file refers to is not a batch any
        # instrument writes (outside the quantifier); the model does not describe it (a shrunk or hand-made case may)
        referenced = json.dumps([case.get("xml"), case.get("csv"), case.get("acq")])
        if any((not e["dir"]) and e["name"].lower().endswith(".d") and e["name"] in referenced for e in case["listing"]):
            return {"excluded": True, "features": ["excluded:plain-file-named-like-a-logged-data-file"]}
        b = self.write_batch(case, root)
        if after_write is not None:
            after_write(b)
        tree = self.tree(b) if after_write is not None else None
        order = [e["name"] for e in case["listing"]]
        rational = case["mode"] == "counts"
        cps = bool(case["cps"] and rational)
        methods = list(case["methods"])
        orig_iterdir = pathlib.Path.iterdir
        lg = logging.getLogger("pewlib.io.agilent")
        old_disabled = lg.disabled

        def fake_iterdir(self_):
            if self_ == b:
                return iter([b / n for n in order])
            return orig_iterdir(self_)

        impl = {}
        st = {}
        try:
            pathlib.Path.iterdir = fake_iterdir
            lg.disabled = True
            coll = {}
            for key, ms in [(m, [m]) for m in METHODS] + [("methods", methods)]:
                try:
                    with warnings.catch_warnings():
                        warnings.simplefilter("ignore")
                        dfs = agilent.collect_datafiles(b, list(ms))
                    bad = [str(d) for d in dfs if d.parent != b]
                    coll[key] = {"bad": "path outside batch " + bad[0]} if bad else [d.name for d in dfs]
                    if edit:
                        self.caller_edits(dfs)
                except Exception as e:
                    coll[key] = {"raises": "any"}
            impl["collect"] = coll
            impl["binary"], st["binary"] = self.impl_image(lambda: agilent.load_binary(b, list(methods), counts_per_second=False, full=True), edit)
            if rational:
                impl["cps"], st["cps"] = self.impl_image(lambda: agilent.load_binary(b, list(methods), counts_per_second=cps, full=True), edit)
                if cps:
                    on, _ = impl["cps"], None
                else:
                    on, _ = self.impl_image(lambda: agilent.load_binary(b, list(methods), counts_per_second=True, full=True), edit)
            else:
                impl["cps"], on = None, None
            impl["csv"], st["csv"] = self.impl_image(lambda: agilent.load_csv(b, list(methods), use_acq_for_names=case["use_acq"], full=True), edit)
            impl["load"], st["load"] = self.impl_image(lambda: agilent.load(b, list(methods), use_acq_for_names=case["use_acq"],
                                                                            counts_per_second=cps, full=True), edit)
            calls = self.effective_calls(case)
            done = [self.impl_call(agilent, b, d, edit) for d in calls]
            impl["calls"], call_st = [r for r, _ in done], [t for _, t in done]
        finally:
            pathlib.Path.iterdir = orig_iterdir
            lg.disabled = old_disabled

        rep = ctx.driver.call("c02.import", **self.request(case), calls=[{k: d[k] for k in ("fn", "methods", "cps", "use_acq", "full", "drop")}
                                                                         for d in calls])
        sides = {}
        for side in ("model", "spec"):
            d = {"collect": {k: ({"raises": "any"} if isinstance(v, dict) else v) for k, v in rep["collect"][side].items()},
                 "binary": self.canon_image(rep["binary"][side], int),
                 "cps": self.canon_image(rep["cps"][side], qtok),
                 "csv": self.canon_image(rep["csv"][side], qtok)}
            ld = rep["load"][side]
            d["load"] = self.canon_image(ld, (qtok if (cps or self._is_csv_load(rep, side)) else int))
            d["calls"] = [self.canon_call(c, r[side]) for c, r in zip(calls, rep["calls"])]
            sides[side] = d
        # hypotheses of the pixel theorems, decided by the driver (Lean `layoutB`, `csvShapeB`): outside them the
        # specification does not describe the batch and only the mechanism model is compared
        hyp_layout, hyp_csv = rep["hyp"]["layout"], rep["hyp"]["csv_shape"]
        # binary-vs-CSV agreement to the printed precision: demanded where the exact values of the batch satisfy the
        # hypothesis (Lean `agree … printSlack`); the verdict on pewlib's two imports is Lean's `agree … agreeSlack`
        agree = rep["agree"]
        if agree["spec"] is True and hyp_layout and hyp_csv:
            impl["agree"] = self.lean_agree(ctx, on, impl["csv"], agree["present"], case["decimals"])
            sides["model"]["agree"] = agree["model"]
            sides["spec"]["agree"] = agree["spec"]
        else:
            impl["agree"] = sides["model"]["agree"] = sides["spec"]["agree"] = None

        missing_csv = any(f["csv"] is None for f in case["files"])
        feats = self.features(case, rep, impl)
        if not hyp_layout:
            feats.add("off-layout:" + self.layout_class(case))
        if not hyp_csv:
            feats.add("csv:unequal-rows")

        def ok(side):
            s = sides[side]
            good = core.canon(impl["collect"]) == core.canon(s["collect"]) and impl["agree"] == s["agree"]
            skip = set()
            if side == "spec":
                if not hyp_layout:
                    skip |= {"binary", "cps", "load"}
                if not hyp_csv:
                    skip |= {"csv", "load"}
            for key in ("binary", "cps", "csv", "load"):
                if key not in skip:
                    good = good and self.same_image(impl[key], s[key])
            for key, part in (("binary", "binary"), ("cps", "cps"), ("csv", "csv"), ("load", "load")):
                r = rep[part][side]
                if key in skip or r is None or "raises" in r or st.get(key) is None:
                    continue
                if (key == "csv" or (key == "load" and self._is_csv_load(rep, side))) and missing_csv:
                    continue  # DESIGN 5.2: blanked lines and the mean interval — not compared
                good = good and self.scantime_ok(st[key], r["scantime"])
            for i, c in enumerate(calls):
                r = rep["calls"][i][side]
                if side == "spec" and c["fn"] != "collect_datafiles" and (
                        (not hyp_layout and c["fn"] in ("load_binary", "load")) or (not hyp_csv and c["fn"] in ("load_csv", "load"))):
                    continue
                good = good and self.same_image(impl["calls"][i], s["calls"][i])
                ret = r["ret"]
                if isinstance(ret, dict) and ret.get("params") is not None and isinstance(impl["calls"][i], dict) \
                        and impl["calls"][i].get("params") is not None:
                    if r["via"] == "csv" and missing_csv:
                        continue  # DESIGN 5.2: blanked lines and the mean interval — not compared
                    ref = ret["params"]["scantime"]
                    # `full`: the scan time is reported (whenever there is an interval to average)
                    good = good and (ref is None or (call_st[i] is not None and self.scantime_ok(call_st[i], ref)))
            return good

        if missing_csv and impl["csv"] is not None and "raises" not in impl["csv"]:
            feats.add("scantime-not-compared:blank-line")
        feats |= self.call_features(calls, rep)
        if edit and feats:
            feats.add("caller-edits-between-calls")
        return {"impl": impl, "model": sides["model"], "spec": sides["spec"], "spec_ok": ok("spec"), "model_ok": ok("model"),
                "hyp": bool(hyp_layout and hyp_csv), "features": feats, "tree": tree}

    @staticmethod
    def layout_class(case):
        k = case["k"]
        for f in case["files"]:
            R, D = len(f["scans"]), len(f["vals"])
            if R != len(case["files"][0]["scans"]):
                return "scan-count"
            if D != R:
                return "profile-length"
            for r, s in enumerate(f["scans"]):
                if s["bc"] == 0:
                    return "bytecount0"
                q = (s["off"] - 68) // s["bc"]
                if q < 0:
                    return "negative-wrap" if q * k >= -D * k else "negative-indexerror"
                if q * k + k - 1 > D * k - 1:
                    return "clip"
            if any(s["bc"] != 28 * k for s in f["scans"]):
                return "bytecount"
            if any((s["off"] - 68) % s["bc"] for s in f["scans"]):
                return "misaligned"
            if [s["off"] for s in f["scans"]] != [68 + r * 28 * k for r in range(R)]:
                return "permuted"
        return "xaddition-index"

    @staticmethod
    def _is_csv_load(rep, side):
        b = rep["binary"][side]
        return b is not None and "raises" in b

    @staticmethod
    def lean_agree(ctx, on, csv, present, decimals):
        """verdict of the Lean `agree` (driver op c02.agree) on pewlib's counts-per-second binary import and its CSV import;
        the float64 values travel as exact rationals, a non-finite value as null"""
        if on is None or csv is None or "img" not in on or "img" not in csv or present is None:
            return None

        def exact(img):
            return [[[core.orat(core.untok(t)) if math.isfinite(core.untok(t)) else None for t in col] for col in line] for line in img]

        return ctx.driver.call("c02.agree", bin=exact(on["img"]), csv=exact(csv["img"]), present=present, decimals=decimals)["agree"]

    def features(self, case, rep, impl):
        feats = set()
        names = [f["name"] for f in case["files"]]
        feats.add(f"lines{min(len(names), 4)}{'+' if len(names) > 4 else ''}")
        feats.add(f"k{case['k']}" if case["k"] <= 4 else ("k5..12" if case["k"] <= 12 else "k13+"))
        feats.add(f"scans{case['R']}" if case["R"] <= 6 else "scans7+")
        if len(names) > 5:
            feats.add("lines6+")
        dd = [digits(nm) for nm in names]
        if any(d >= 2 ** 53 for d in dd):
            feats.add("names:number>=2**53")
            if len({float(d) for d in dd}) < len(set(dd)):
                feats.add("names:numbers-equal-as-float64")
        if any(len("".join(c for c in nm if c in "0123456789")) >= 17 and nm.lstrip("abcdefghijklmnopqrstuvwxyzABCDEFGHIJKLMNOPQRSTUVWXYZ_")[:1] == "0"
               for nm in names):
            feats.add("names:leading-zeros-17+digits")
        import re as _re
        if any(len(_re.findall(r"[0-9]+", nm)) > 1 for nm in names):
            feats.add("names:several-digit-groups")
        if any(ord(c) > 127 for nm in names for c in nm):
            feats.add("names:non-ascii")
        if case["msms"] and case.get("xadd"):
            rows = case["xadd"]["rows"]
            pros, pres = [r["product"] for r in rows], [r["precursor"] for r in rows]
            if len(set(pros)) < len(pros):
                feats.add("msms:shared-product")
            if len(set(pres)) < len(pres):
                feats.add("msms:shared-precursor")
        if case["decimals"] >= 4:
            feats.add("csv:decimals>=4")
        gaps = [[b["ticks"] - a["ticks"] for a, b in zip(f["scans"], f["scans"][1:])] for f in case["files"]]
        if any(g and max(g) > 3 * max(1, min(g)) for g in gaps):
            feats.add("times:irregular")
        feats.add("msms" if case["msms"] else ("ms+xaddition" if case["xadd"] else "ms"))
        feats.add("meta:" + "".join(c for c, v in (("X", case["xml"]), ("C", case["csv"]), ("A", case["acq"]), ("D", case["xadd"]))
                                     if v is not None))
        feats.add("values:" + case["mode"])
        if case["cps"] and case["mode"] == "counts":
            feats.add("counts-per-second")
        alpha = sorted(names)
        sp = rep["collect"]["spec"]
        num = sp.get("alphabetical")
        if isinstance(num, list) and len(num) > 1:
            if num != alpha:
                feats.add("numeric!=alphabetical")
            for key in ("batch_xml", "batch_csv"):
                acq = sp.get(key)
                if isinstance(acq, list) and len(acq) > 1:
                    if acq != [x for x in num if x in acq]:
                        feats.add("acquisition!=numeric")
                    if acq != [x for x in alpha if x in acq]:
                        feats.add("acquisition!=alphabetical")
                    if acq != [x for x in num if x in acq] and acq != [x for x in alpha if x in acq] and num != alpha:
                        feats.add("all-three-orders-differ")
            if [e["name"] for e in case["listing"] if e["name"] in names] != num:
                feats.add("listing!=numeric")
        log = case["xml"] or case["csv"] or []
        if any(e["result"] != "Pass" for e in log):
            feats.add("log:fail")
            if log[0]["result"] != "Pass":
                feats.add("log:fail-first")
            if log[-1]["result"] != "Pass":
                feats.add("log:fail-last")
        for key, tag in (("xml", "log:xml-stamps"), ("csv", "log:csv-stamps")):
            ent = case[key]
            if ent and len(ent) >= 2 and any("stamp" in e for e in ent):
                st = [e.get("stamp") or "" for e in ent]
                if st != sorted(st):
                    feats.add(tag + "-not-increasing-as-text")
                if len(set(st)) < len(st):
                    feats.add(tag + "-equal")
                if any(e.get("stamp") is None for e in ent):
                    feats.add(tag + "-missing")
                if key == "xml" and len({x[19:] for x in st if x}) > 1:
                    feats.add("log:xml-stamps-mixed-offsets-or-widths")
        passed = [e["file"] for e in log if e["result"] == "Pass" and e.get("file")]
        if any(passed.count(x) >= 3 for x in set(passed)):
            feats.add("log:acquired-three-times")
        if log and sum(e["result"] == "Pass" for e in log) == 1 and len(log) >= 3:
            feats.add("log:all-but-one-failed")
        lines = sp.get("methods")
        if isinstance(lines, list) and len(lines) >= 2:
            has = {f["name"]: f["csv"] is not None for f in case["files"]}
            if any(has.get(x) for x in lines):
                if not has.get(lines[0], True):
                    feats.add("csv:first-line-blank")
                if not has.get(lines[-1], True):
                    feats.add("csv:last-line-blank")
                if sum(bool(has.get(x)) for x in lines) == 1:
                    feats.add("csv:single-export")
        files = [e["file"] for e in log if e["result"] == "Pass" and e.get("file")]
        if len(files) != len(set(files)):
            feats.add("log:repeat")
        for key in METHODS:
            if isinstance(sp.get(key), dict) and (case["xml"] if key == "batch_xml" else case["csv"] if key == "batch_csv"
                                                  else case["acq"] if key == "acq_method_xml" else None) is not None:
                feats.add("method-rejected:missing-file")
        if any(f["csv"] is None for f in case["files"]) and any(f["csv"] is not None for f in case["files"]):
            feats.add("csv:blank-line")
        if all(f["csv"] is None for f in case["files"]):
            feats.add("csv:none")
        if any(not f["binary"] for f in case["files"]):
            feats.add("binary-unreadable")
        if rep["agree"]["spec"] is True:
            feats.add("binary-csv-agreement")
        if isinstance(impl.get("load"), dict) and self._is_csv_load(rep, "spec") and "raises" not in (rep["csv"]["spec"] or {"raises": 1}):
            feats.add("load:csv-fallback")
        if rep["acq_eq_log"] is True:
            feats.add("acq==log")
        if isinstance(sp.get("alphabetical"), dict) and any(e["dir"] and e["name"].lower().endswith(".d") and digits(e["name"]) < 0
                                                            for e in case["listing"]):
            feats.add("scan-raises:no-digit")
        # descriptors alone (sizes >= 3, clean log, every order equal, all metadata) do not make a case non-trivial
        boundary = {f for f in feats if f in ("lines1", "lines2", "k1", "k2", "scans2", "k13+", "scans7+", "lines6+") or "!=" in f
                    or f.startswith(("log:", "csv:", "load:", "method-", "names:", "msms:", "times:"))
                    or f in ("binary-unreadable", "binary-csv-agreement", "acq==log", "msms", "counts-per-second", "scan-raises:no-digit")
                    or (f.startswith("meta:") and f != "meta:XCAD")}
        return feats if boundary else set()

    # ------------------------------------------------------------------ shrinking
    def shrink(self, case):
        if case.get("kind") == "history":
            steps = case["steps"]
            stamps = list(case.get("stamps") or ["fresh"] * len(steps))
            if len(steps) > 2:   # drop a step (a history has at least two)
                for i in range(len(steps)):
                    yield {**case, "steps": steps[:i] + steps[i + 1:], "stamps": stamps[:i] + stamps[i + 1:], "kinds": ["shrunk"]}
            if len(steps) == 2:  # does the last batch fail on its own?
                yield steps[-1]
            if case.get("edit"):
                yield {**case, "edit": False}
            if any(x == "preserved" for x in stamps):
                yield {**case, "stamps": ["fresh"] * len(steps)}
            for i, st in enumerate(steps):
                for j, cand in enumerate(self.shrink(st)):
                    if j >= 12:
                        break
                    yield {**case, "steps": steps[:i] + [cand] + steps[i + 1:]}
            return
        files = case["files"]
        calls = case.get("calls") or []
        if len(calls) > 1:  # a single call, then all but one
            for c in calls:
                yield {**case, "calls": [c]}
            for i in range(len(calls)):
                yield {**case, "calls": calls[:i] + calls[i + 1:]}
        elif calls:
            yield {**case, "calls": []}
            if calls[0].get("path") == "str":
                yield {**case, "calls": [{**calls[0], "path": "Path"}]}
        # drop one data file together with its log/sample entries
        if len(files) > 1:
            for i in range(len(files)):
                nm = files[i]["name"]
                c = dict(case)
                c["files"] = files[:i] + files[i + 1:]
                c["listing"] = [e for e in case["listing"] if e["name"] != nm]
                yield c
        for key in ("xml", "csv"):
            if case[key] and len(case[key]) > 1:
                for i in range(len(case[key])):
                    c = dict(case)
                    c[key] = case[key][:i] + case[key][i + 1:]
                    yield c
        for key in ("xml", "csv", "acq"):
            if case[key] is not None:
                c = dict(case)
                c[key] = None
                names = {e["name"] for e in c["listing"]}
                if c["xml"] is None and c["acq"] is None:
                    c["listing"] = [e for e in c["listing"] if e["name"] != "Method"]
                if c["csv"] is None:
                    c["listing"] = [e for e in c["listing"] if e["name"] != "BatchLog.csv"]
                yield c
        if len(case["methods"]) > 1:
            for i in range(len(case["methods"])):
                yield {**case, "methods": case["methods"][:i] + case["methods"][i + 1:]}
        # fewer scans in every file
        if case["R"] > 2:
            c = dict(case)
            c["R"] = case["R"] - 1
            c["files"] = [{**f, "scans": f["scans"][:-1], "vals": f["vals"][:-1],
                           "csv": None if f["csv"] is None else {**f["csv"], "rows": f["csv"]["rows"][:-1]}} for f in files]
            yield c
        if any(f["csv"] is not None for f in files):
            yield {**case, "files": [{**f, "csv": None} for f in files]}
        if case["cps"]:
            yield {**case, "cps": False}
        if case["use_acq"]:
            yield {**case, "use_acq": False}

    def known(self, case, out):
        return None


PROP = C02()

if __name__ == "__main__":
    sys.exit(core.main(PROP, "harness.c02"))
