"""C11 — merging images by offset: pewlib.process.register.overlap_arrays / overlap_structured_arrays
against PewModel/Overlap.lean.

Legs per case:
* the implementation against the Lean specification and the Lean mechanism.  Plain cases: driver op c11.overlapD, the
  dtype-aware model `overlapD` over extended values (NaN, +inf, -inf, exact finite numbers): every image carries a dtype
  (float64 by default; float32, integer dtypes of several widths, bool, in any order in one list), the canvas has the
  dtype of the first image and casts every write; a pixel is judged where the hypothesis of theorem pixel_specD holds
  (`hyp`) and the demanded value is representable in the canvas dtype, the other pixels are compared with the model and a
  difference is recorded only.  Structured cases: op c11.structuredD (a dtype per field; exception class or cast pixels);
* "inputs are left unmodified": a byte-level picture of EVERY argument object (the container of the images — list or
  tuple, with the identity of its elements —, every image and the buffer a view lives in, the offsets object — list /
  tuple of tuples, lists, 1-d arrays, NumPy scalars, or ONE 2-d integer table of several dtypes and layouts —, the fill
  and mode objects) taken before each call and compared after it, whether it returns or raises; results handed out
  earlier are compared after later calls; writing into a result must not reach an input.  Backed by the pictures only
  (the Lean model is functional);
* histories: a second call on the same objects; the caller edits pixel (field) values in place between calls and merges
  again with another mode / fill (each call judged against the Lean specification of the values of that moment); the
  result of a merge (fill NaN) handed in as the first image of a second merge with further images (theorem tiling);
* translation and reordering (case key "meta"; every case of <= 4 inputs in the thorough tier, a quarter of them in the
  quick tier): plain — the translated call and every permutation that keeps the first image's dtype (mean / sum)
  against the Lean specification of the ORIGINAL call (theorems overlapD_translation_invariant, overlapD_perm_invariant),
  replace: the last-writer relation of theorem overlap_replace_last_writer; structured — the translated call and EVERY
  order of the inputs, each judged per field against the Lean specification of that call (theorems
  structured_translation_invariant / structured_perm_invariant say these specifications agree)."""
import itertools
import math
import sys
from fractions import Fraction

import numpy as np

from harness import core
from harness.core import Prop, outcome, orat, unrat


# whether "the same field name with two dtypes" is treated as inside the property's quantifier (then the ValueError is a
# violation of "does the same per field over the union of the inputs' field names"); the maintainer decides, see notes/D12.md
DTYPE_CLASH_IN_SCOPE = False

# Two places where pewlib leaves the letter of "each pixel holds the mean / sum of the non-NaN values" (notes/EC11.md); the
# maintainer decides whether they are inside the property.  False: such a pixel is compared with the model and a difference is
# recorded only.  True: the pixel is judged against the specification (the check then reports pewlib as it is).
#  * +inf and -inf contributed to one pixel (IEEE sum NaN; pewlib: depends on the order, theorem inf_cancel_order_dependent)
INF_CANCEL_IN_SCOPE = False
#  * sum mode on an integer / boolean first image with fractional (negative) later values: the canvas truncates after every
#    image, so 0.5 + 0.5 gives 0 although the sum 1 is representable
LOSSY_INT_SUM_IN_SCOPE = False


def fhex(v) -> str:
    """canonical float: NaN -> 'nan', zeros unsigned, else the exact hex form"""
    v = float(v)
    if math.isnan(v):
        return "nan"
    if v == 0.0:
        return "0"
    return v.hex()


def qhex(j) -> str:
    """driver value (null | [num, den]) -> canonical float after correct rounding"""
    q = unrat(j)
    return "nan" if q is None else fhex(float(q))


def val(x):
    return None if x is None else float(Fraction(x[0], x[1]))


LAYOUTS = ["c", "ro", "strided", "f", "rev", "swapped"]
NPDT = {"f8": np.float64, "f4": np.float32, "i8": np.int64}


def lay_out(arr, layout):
    """the same values in another memory layout; returns (array handed to pewlib, buffer it lives in)"""
    if layout == "ro":
        arr = arr.copy()
        arr.flags.writeable = False
        return arr, arr
    if layout == "strided":  # every second element of the last axis of a larger buffer (sentinels between)
        base = np.empty(arr.shape[:-1] + (2 * arr.shape[-1],), dtype=arr.dtype)
        base.view(np.uint8)[...] = 0x5A
        view = base[..., ::2]
        view[...] = arr
        return view, base
    if layout == "f":
        arr = np.asfortranarray(arr)
        return arr, arr
    if layout == "rev":  # a view with a negative stride on the first axis
        base = arr[::-1].copy()
        return base[::-1], base
    if layout == "swapped" and arr.dtype.names is None and arr.dtype.itemsize > 1:  # the other byte order (plain images)
        arr = arr.astype(arr.dtype.newbyteorder())
        return arr, arr
    return arr, arr


def fval(v, negzero=False):
    """abstract value (None = NaN | integer number of quarters | "inf" | "-inf") -> float; `negzero`: zeros carry the
    sign bit"""
    if v is None:
        return math.nan
    if v == "inf":
        return math.inf
    if v == "-inf":
        return -math.inf
    if v == 0 and negzero:
        return -0.0
    return v / 4


def isnum(v):
    """a finite abstract value"""
    return v is not None and not isinstance(v, str)


# dtypes of plain images: the concrete NumPy dtype, and the class the Lean model knows (all integer dtypes are one class:
# they are used only where every value and partial sum lies in their range)
PLAIN_DT = {"f8": np.float64, "f4": np.float32, "i8": np.int64, "i4": np.int32, "i2": np.int16, "u1": np.uint8,
            "u2": np.uint16, "b1": np.bool_}


def dclass(dt):
    return dt if dt in ("f8", "f4", "b1") else "i8"


def fits_dtype(a):
    """every value of the image description is exactly representable in its dtype"""
    dt = a.get("dtype", "f8")
    for v in a["data"]:
        if dt == "f8":
            ok = not isnum(v) or abs(v) < 2 ** 55
        elif dt == "f4":
            ok = not isnum(v) or abs(v) < 2 ** 24
        elif dt == "b1":
            ok = v in (0, 4)
        else:
            info = np.iinfo(PLAIN_DT[dt])
            ok = isnum(v) and v % 4 == 0 and info.min <= v // 4 <= info.max
        if not ok:
            return False
    return True


def to_np(a, ndim=None):
    arr = np.array([fval(v, a.get("negzero", False)) for v in a["data"]], dtype=np.float64).reshape(a["shape"])
    dt = a.get("dtype", "f8")
    return arr if dt == "f8" else arr.astype(PLAIN_DT[dt])  # exact: fits_dtype is checked before


def plain_inexact(descs, fillq):
    """None, or why float / integer arithmetic on this case need not be exact (the case is then not judged): a value not
    representable in its image's dtype; sums beyond the mantissa of the canvas; an integer canvas whose range the partial
    sums (or a negative value, if it is unsigned) could leave"""
    if not all(fits_dtype(a) for a in descs):
        return "value not representable in the dtype of its image"
    vals = [v for a in descs for v in a["data"] if isnum(v)]
    tot = sum(abs(v) for v in vals) + (abs(fillq) if isnum(fillq) else 0)
    if tot >= 2 ** 53:
        return "sums not exact"
    dt0 = descs[0].get("dtype", "f8")
    if dt0 == "f4" and tot >= 2 ** 24:
        return "sums not exact in a float32 canvas"
    if dclass(dt0) == "i8":
        info = np.iinfo(PLAIN_DT[dt0])
        if tot // 4 + 1 > info.max:
            return "sums could leave the range of the integer canvas"
        if info.min == 0 and (any(v < 0 for v in vals) or (isnum(fillq) and fillq < 0)):
            return "negative value into an unsigned canvas"
    return None


def enc_v(v):
    """abstract value -> driver value"""
    return v if (v is None or isinstance(v, str)) else core.rat(Fraction(v, 4))


def ptok(j, rdt):
    """driver pixel (null | "inf" | "-inf" | "undef" | rational) -> canonical token as an array of dtype rdt holds it"""
    if j is None:
        return "nan"
    if isinstance(j, str):
        return j
    q = unrat(j)
    if rdt == "f4":
        return fhex(float(np.float32(float(q))))
    if rdt == "f2":
        return fhex(float(np.float16(float(q))))
    return fhex(float(q))


# value classes of one image (or of one field of a structured image)
VCLASSES = ["rand", "zeros", "zeros", "negzeros", "const", "fillconst", "zeros+nan", "cancel", "negprev", "complement", "wide"]


def gen_values(rng, size, vclass, fill, prev=None):
    """data (None | quarters) of one image of `size` pixels in value class `vclass`; `prev`: data of an earlier image
    of the same size (class negprev)"""
    if vclass in ("zeros", "negzeros"):
        return [0] * size
    if vclass == "const":
        c = rng.randint(-20, 20)
        return [c] * size
    if vclass == "fillconst":  # every value equals the fill (a constant when the fill is NaN)
        c = fill if fill is not None else rng.choice([0, 4, -4])
        return [c] * size
    if vclass == "zeros+nan":
        return [None if rng.random() < 0.4 else 0 for _ in range(size)]
    if vclass == "cancel":  # the values of the image sum to zero
        half = [rng.randint(1, 20) * rng.choice([1, -1]) for _ in range(size // 2)]
        data = half + [-v for v in half] + [0] * (size % 2)
        rng.shuffle(data)
        return data
    if vclass == "negprev" and prev is not None and len(prev) == size:
        return [None if v is None else -v for v in prev]
    if vclass == "complement" and prev is not None and len(prev) == size:  # together with `prev` every pixel sums to the fill
        return [None if v is None else (fill or 0) - v for v in prev]
    if vclass == "wide":  # more than 24 significant bits, magnitudes up to 2^44 quarters
        return [None if rng.random() < 0.1 else rng.choice([1, -1]) * (rng.randint(2 ** 30, 2 ** 44) | 1) for _ in range(size)]
    pnan = rng.choice([0.0, 0.0, 0.15, 0.5])
    return [None if rng.random() < pnan else rng.randint(-20, 20) for _ in range(size)]


def exact_ok(values, n_bits=53):
    """every partial sum of the values (quarters) is an integer below 2^n_bits: float accumulation in any order is exact"""
    return sum(abs(v) for v in values if v is not None) < 2 ** n_bits


OFFS_KINDS = ["tuple", "list", "ndarray", "ndarray-ro", "ndarray-i32", "np-scalars", "tuple-of-tuples", "tuple-of-lists",
              "array2d", "array2d-i32", "array2d-i16", "array2d-u8", "array2d-ro", "array2d-f", "array2d-view"]
OFFS_DT = {"ndarray-i32": np.int32, "array2d-i32": np.int32, "array2d-i16": np.int16, "array2d-u8": np.uint8}


def offs_fit(arrs, dtype):
    """the offsets, their spread and the far corners of the images all lie in the range of the integer dtype (no
    wrap-around in `offset - min_offset`, whatever the code computes in that dtype)"""
    info = np.iinfo(dtype)
    for k in range(len(arrs[0]["off"])):
        lo = min(a["off"][k] for a in arrs)
        hi = max(a["off"][k] + a["shape"][k] for a in arrs)
        if lo < info.min or hi > info.max or hi - lo > info.max:
            return False
    return True


def make_offsets(case):
    """(the offsets object pewlib receives, the kind really used).  Kinds: a list of tuples (default) / of lists / of 1-d
    int64 (read-only, int32) arrays / of tuples of NumPy scalars, a tuple of tuples / of lists, ONE 2-d integer ndarray
    (int64, int32, int16, uint8; read-only; Fortran order; a view of every second row of a larger table).  A narrow
    dtype is used only when the offsets fit it (otherwise int64), arrays only when they fit int64 (otherwise tuples of
    Python integers)."""
    kind = case.get("offs_kind", "tuple")
    arrs = case["arrays"]
    offs = [a["off"] for a in arrs]
    if kind not in OFFS_KINDS:
        kind = "tuple"
    if kind in OFFS_DT and not offs_fit(arrs, OFFS_DT[kind]):
        kind = "ndarray" if kind.startswith("ndarray") else "array2d"
    if kind not in ("tuple", "list", "tuple-of-tuples", "tuple-of-lists") and not offs_fit(arrs, np.int64):
        kind = "tuple"
    if kind == "list":
        return [list(o) for o in offs], kind
    if kind == "tuple-of-tuples":
        return tuple(tuple(o) for o in offs), kind
    if kind == "tuple-of-lists":
        return tuple(list(o) for o in offs), kind
    if kind == "np-scalars":
        return [tuple(np.int64(v) for v in o) for o in offs], kind
    if kind.startswith("ndarray"):
        out = [np.array(o, dtype=OFFS_DT.get(kind, np.int64)) for o in offs]
        if kind == "ndarray-ro":
            for o in out:
                o.flags.writeable = False
        return out, kind
    if kind.startswith("array2d"):
        table = np.array(offs, dtype=OFFS_DT.get(kind, np.int64)).reshape(len(offs), len(offs[0]))
        if kind == "array2d-ro":
            table.flags.writeable = False
        elif kind == "array2d-f":
            table = np.asfortranarray(table)
        elif kind == "array2d-view":  # every second row of a larger table (sentinel rows between)
            big = np.full((2 * len(offs), len(offs[0])), 0x5A5A5A, dtype=np.int64)
            big[::2] = table
            table = big[::2]
        return table, kind
    return [tuple(o) for o in offs], "tuple"


def snap(x):
    """byte-level picture of one argument object: arrays with dtype, shape, strides, bytes, flags and the bytes of the
    buffer they are a view of; sequences with their type and the pictures of their elements"""
    if isinstance(x, np.ndarray):
        base = x
        while isinstance(base.base, np.ndarray):
            base = base.base
        return ("ndarray", x.dtype.str, x.shape, x.strides, x.tobytes(), bool(x.flags.writeable),
                None if base is x else (base.shape, base.tobytes()))
    if isinstance(x, (list, tuple)):
        return (type(x).__name__, [snap(v) for v in x])
    if isinstance(x, np.generic):
        return ("scalar", x.dtype.str, x.tobytes())
    return (type(x).__name__, repr(x))


def scribble(arr):
    """the caller writes into a result: every element gets another value (any dtype, any memory layout)"""
    if arr.dtype.names:
        for n in arr.dtype.names:
            scribble(arr[n])
    elif arr.dtype.kind == "b":
        arr[...] = ~arr
    elif arr.dtype.kind in "iu":
        arr[...] = arr ^ 0x55
    else:
        arr[...] = np.where(np.isnan(arr), 1.5, np.nan)


class Args:
    """the argument objects of one merge: the container of the images (list or tuple), the offsets object, fill and mode,
    and a picture of every one of them from before the first call.  `unchanged()` compares after a call, returning or
    raising: the same container types and lengths, the SAME image objects at the same places, every byte as before."""

    def __init__(self, pairs, offsets, fill, mode, arrs_kind="list"):
        self.pairs = pairs
        views = [p[0] for p in pairs]
        self.arrays = tuple(views) if arrs_kind == "tuple" else list(views)
        self.offsets, self.fill, self.mode = offsets, fill, mode
        self.ids = [id(v) for v in views]
        self.before = self.picture()

    def picture(self):
        return (snap(self.arrays), [b.tobytes() for _, b in self.pairs], snap(self.offsets), snap(self.fill), snap(self.mode))

    def unchanged(self):
        return (len(self.arrays) == len(self.ids) and all(id(a) == i for a, i in zip(self.arrays, self.ids))
                and self.picture() == self.before)

    def shared(self):
        return len(set(self.ids)) < len(self.ids)


ARG_DEFAULTS = {"offsets": "tuple", "arrays": "list", "fill": "float", "mode": "str"}


def args_feats(args):
    return {"args:" + k + "=" + v for k, v in args.kinds.items() if ARG_DEFAULTS[k] != v}


FILL_KINDS = ["float", "int", "np64", "np32", "arr0d"]


def make_fill(case):
    """(the fill object pewlib receives, kind really used): a Python float (default), a Python int, a NumPy float64 /
    float32 scalar or a 0-d array, whenever the kind holds the fill value exactly"""
    q, kind = case["fill"], case.get("fill_kind", "float")
    v = fill_value(q)
    if kind == "int" and isinstance(q, int) and q % 4 == 0:
        return q // 4, kind
    if kind == "np64":
        return np.float64(v), kind
    if kind == "np32" and (not isinstance(q, int) or float(np.float32(v)) == v):
        return np.float32(v), kind
    if kind == "arr0d":
        return np.array(v, dtype=np.float64), kind
    return v, "float"


def fill_value(q):
    """abstract fill (None = NaN | quarters | "inf" | "-inf" | "-0") -> float"""
    if q is None:
        return math.nan
    if q == "inf":
        return math.inf
    if q == "-inf":
        return -math.inf
    if q == "-0":
        return -0.0
    return q / 4


def exc_class(e):
    """exception -> its public built-in base (NumPy's UFuncTypeError is a TypeError)"""
    for cls in (ValueError, TypeError, IndexError, KeyError, MemoryError):
        if isinstance(e, cls):
            return cls.__name__
    return type(e).__name__


def canon_px(dt, j):
    """driver pixel (null | [num, den] | "undef") -> canonical token in dtype dt"""
    if j == "undef":
        return "undef"
    q = unrat(j)
    if q is None:
        return "nan"
    if dt == "i8":
        return str(int(q))
    if dt == "f4":
        return fhex(float(np.float32(float(q))))
    return fhex(float(q))


def impl_px(dt, v):
    return str(int(v)) if dt == "i8" else fhex(float(v))


def enc_data(data):
    return [None if v is None else core.rat(Fraction(v, 4)) for v in data]


def build_objects(descs, make, share):
    """one object per description; with `share`, descriptions that agree in everything but the offset are ONE object
    (the same image at several places of the list)"""
    cache, out = {}, []
    for a in descs:
        key = core.canon({k: v for k, v in a.items() if k != "off"}) if share else None
        if key is None or key not in cache:
            made = make(a)
            if key is None:
                out.append(made)
                continue
            cache[key] = made
        out.append(cache[key])
    return out


def value_feats(descs, lo, shape, fill, mode):
    """value classes of the images `descs` (off, shape, data in quarters) and of the pixels of the canvas they produce"""
    feats = set()
    cnt = np.zeros(shape, dtype=np.int64)
    nz = np.zeros(shape, dtype=np.int64)
    tot = np.zeros(shape, dtype=np.int64)
    last = np.zeros(shape, dtype=np.int64)
    for a in descs:
        vals = [v for v in a["data"] if v is not None]
        full = len(vals) == len(a["data"])
        if vals and full and not any(vals):
            feats.add("value:all-zero-image")
        if a.get("negzero") and 0 in vals:
            feats.add("value:neg-zero")
        if full and len(vals) >= 2 and vals[0] != 0 and len(set(vals)) == 1:
            feats.add("value:constant-image")
        if vals and not full and not any(vals):
            feats.add("value:zeros+nan-image")
        if any(vals) and sum(vals) == 0:
            feats.add("value:image-sums-to-zero")
        if any(abs(v) >= 2 ** 24 for v in vals):
            feats.add("value:wide-mantissa")
        if fill is not None and vals and all(v == fill for v in vals):
            feats.add("value:image-equals-fill")
        d = np.array([0 if v is None else v for v in a["data"]], dtype=np.int64).reshape(a["shape"])
        m = np.array([v is not None for v in a["data"]], dtype=bool).reshape(a["shape"])
        sl = tuple(slice(o - l, o - l + s) for o, l, s in zip(a["off"], lo, a["shape"]))
        cnt[sl] += m
        nz[sl] += d != 0
        tot[sl] += d
        last[sl][m] = d[m]
    if ((cnt >= 1) & (nz == 0)).any():
        feats.add("value:zero-only-pixel")
    if ((nz >= 1) & (tot == 0)).any():
        feats.add("value:sum-cancels-pixel")
    if fill is not None:
        res = last if mode == "replace" else tot if mode == "sum" else None
        hit = ((cnt >= 1) & (res == fill)) if res is not None else ((cnt >= 1) & (tot == fill * cnt))
        if hit.any():
            feats.add("value:pixel-equals-fill")
        if mode == "mean" and ((cnt >= 2) & (tot == fill)).any():
            feats.add("value:pixel-sum-equals-fill")
    return feats


def geom_feats(arrs):
    """geometry classes of the footprints (skipped for very long lists)"""
    feats = set()
    if any(s > 4 for a in arrs for s in a["shape"]):
        feats.add("size:side>4")
    if len(arrs) > 64:
        return feats
    boxes = [[(o, o + s) for o, s in zip(a["off"], a["shape"])] for a in arrs]
    disjoint = len(boxes) >= 2
    for i in range(len(boxes)):
        for j in range(i + 1, len(boxes)):
            a, b = boxes[i], boxes[j]
            if a == b:
                feats.add("geom:same-footprint")
            inter = [min(x[1], y[1]) - max(x[0], y[0]) for x, y in zip(a, b)]
            if all(v > 0 for v in inter):
                disjoint = False
                if a != b and (all(x[0] <= y[0] and y[1] <= x[1] for x, y in zip(a, b))
                               or all(y[0] <= x[0] and x[1] <= y[1] for x, y in zip(a, b))):
                    feats.add("geom:nested")
            elif sum(v == 0 for v in inter) == 1 and sum(v > 0 for v in inter) == len(inter) - 1:
                feats.add("geom:abutting")
    if disjoint:
        feats.add("geom:all-disjoint")
    return feats


NONTRIVIAL = {"overlap>=2", "nan-only-pixel", "uncovered-pixel", "value:zero-only-pixel", "value:sum-cancels-pixel",
              "value:pixel-equals-fill", "value:pixel-sum-equals-fill", "geom:abutting"}


class C11(Prop):
    id = "C11"
    anchored = ["src/pewlib/process/register.py"]
    cases = {"quick": 600, "thorough": 12000}
    rule = ("random lists of 1..6 arrays (1-3 D, sides 1..4, offsets -5..5, dyadic values k/4, NaNs incl. whole arrays), "
            "fills NaN/0/finite (3 %: -0.0), three modes, plain and structured; in 40 % of the cases every image (field) is drawn "
            "from the value classes all 0 / all -0.0 / one constant / the fill value / zeros with NaNs / values that cancel / the "
            "negative of an earlier image on its footprint / its complement to the fill / values of more than 24 mantissa "
            "bits; geometry classes in 40 % of the cases: stack of frames on one footprint, abutting tiles with and without "
            "gaps, images nested in one, images with sides up to 65 (1-D up to 4097, pixel counts around the powers of two; "
            "plain: a few with more than 2^16 pixels), lists of 7..40 images and (1.5 %) 300..600 images on one footprint; "
            "plain cases: 30 % with image dtypes (first image float64 / float32 / int64 / int32 / uint16 / uint8 / bool, the "
            "others any of these plus int16, half of them with whole numbers in the float images), 10 % with +inf / -inf in the "
            "float images (one sign, or both), 5 % with a zero-length axis, 15 % with a history (1-3 further calls after in-place "
            "edits of 1-4 pixels, other mode / fill in a third), 10 % of the rest with the result fed into a second merge, 4 % of the "
            "free placements in 4 or 5 dimensions (recorded only); the same ndarray object at two or three places of the list "
            "(12 %); a second call on the same objects (30 %); memory layouts C, read-only, strided view, Fortran order, "
            "reversed view, other byte order; argument types: the offsets object is something other than a list of tuples in "
            "half of the cases (15 kinds: lists, tuples, 1-d arrays int64 / int32 / read-only, NumPy scalars, one 2-d table "
            "int64 / int32 / int16 / uint8 / read-only / Fortran / strided view), the images in a tuple (20 %), the fill as int / "
            "float64 / float32 / 0-d array (30 %), the mode as np.str_ (10 %); common translations to +-1000 and around "
            "+-2^53..2^57, +-2^63, 2^64, 2^70 (beyond int64: recorded only); structured: float64 fields, in a fifth of the "
            "cases float32 / int64 fields, in a tenth the same name with two dtypes, 12 % with a history of in-place field edits; "
            "translation / reordering legs on every case of <= 4 inputs in the thorough tier and a quarter of them in the quick "
            "tier; non-trivial = some pixel receives >=2 contributions, or a NaN-only covered pixel, or an uncovered pixel, or a "
            "pixel whose contributions are all zero / cancel / give the fill value, or two abutting images; distinct by canonical "
            "case hash")
    trusted = ["np.nansum/np.full/boolean-mask assignment as documented; float sums of the generated dyadic values are exact "
               "(evaluate checks for every call of a history that the absolute values sum to less than 2^53 quarters, 2^24 "
               "where a float32 image, canvas or field is involved, that every value is representable in the dtype of its image "
               "and that no partial sum can leave the range of an integer canvas; the case is undetermined otherwise), "
               "the mean's single division is correctly rounded (compared with float(Fraction)); float32 canvases / fields: the "
               "division is done in float64 and rounded once more to float32 (canonicaliser: float32(float64(q)), following the "
               "floating-point dtype the implementation returned)",
               "all integer dtypes are one class in the Lean model (i8): a narrower or unsigned dtype is used only where every "
               "value and partial sum lies in its range, where NumPy's casts agree with int64's",
               "'inputs are left unmodified' is backed by the harness pictures only (bytes, dtype, shape, strides, flags of every "
               "argument object and of the buffer behind a view, identity of the list elements, before and after each call); the "
               "Lean model is functional and has no theorem about it"]
    assumptions = ["structured inputs in which one field name carries two dtypes make overlap_structured_arrays raise ValueError "
                   "(np.empty on a dtype with a repeated name); the property text does not speak of dtypes, such a case is "
                   "compared with the model's error result and counted as hypothesis-excluded for the specification "
                   "(DTYPE_CLASH_IN_SCOPE = False; see notes/D12.md)",
                   "integer fields / canvases: NaN or an infinity cast to an integer is platform dependent (NumPy warns); such "
                   "pixels are marked undefined by the model and not compared (a plain case with an integer first image and an "
                   "infinite value is not judged at all); integer canvases raise in mean mode and with a NaN / infinite fill in "
                   "mean/sum mode, boolean canvases in mean mode (model: TypeError / ValueError / OverflowError): which exception "
                   "is raised, and whether any, is an accident of the NumPy calls used, such a case is undetermined and not compared",
                   "recorded only (compared with the model, a difference sets a feature, never a verdict): pixels where +inf and "
                   "-inf meet in mean / sum mode (INF_CANCEL_IN_SCOPE = False: pewlib's result depends on the order there, theorem "
                   "inf_cancel_order_dependent); sum mode on an integer / boolean canvas with a non-integer / negative contribution "
                   "(LOSSY_INT_SUM_IN_SCOPE = False: the canvas truncates after every image); pixels whose demanded value the canvas "
                   "dtype cannot hold (2.5 or NaN in an integer canvas); more than 3 dimensions, offsets beyond int64, an image "
                   "without pixels whose offset changes the bounding box, an infinite fill (outside the quantifier or a choice the "
                   "text leaves open)",
                   "a result that shares memory with an input, or an input list whose element has been replaced by an equal copy, "
                   "counts as a modified input (the caller's next write / read goes elsewhere)"]

    def gen_array(self, rng, ndim, allnan=False, place=None, vclass="rand", fill=None, prev=None):
        off, shape = place if place else ([rng.randint(-5, 5) for _ in range(ndim)], [rng.randint(1, 4) for _ in range(ndim)])
        size = int(np.prod(shape))
        data = [None] * size if allnan else gen_values(rng, size, vclass, fill, prev)
        a = {"off": list(off), "shape": list(shape), "data": data}
        if vclass == "negzeros":
            a["negzero"] = True
        return a

    def places(self, rng, geom, ndim, n):
        """footprints (offset, shape) of the inputs of one case, by geometry class"""
        roff = lambda: [rng.randint(-5, 5) for _ in range(ndim)]
        rshape = lambda: [rng.randint(1, 4) for _ in range(ndim)]
        if geom == "stack":  # frames of one series: one footprint (some of them moved by one pixel in a part of the cases)
            off, shape = roff(), rshape()
            jitter = rng.random() < 0.3
            return [([o + (rng.randint(-1, 1) if jitter and rng.random() < 0.3 else 0) for o in off], shape) for _ in range(n)]
        if geom == "tiles":  # a mosaic: tiles of one shape that abut exactly, in any order, with gaps in a part of the cases
            tile, base = rshape(), roff()
            grid = [rng.randint(1, 3) for _ in range(ndim)]
            while int(np.prod(grid)) > 9:
                grid[rng.randrange(ndim)] -= 1
            cells = list(itertools.product(*[range(g) for g in grid]))
            rng.shuffle(cells)
            if rng.random() < 0.5 and len(cells) > 1:
                cells = cells[:rng.randint(max(1, len(cells) // 2), len(cells) - 1)]
            out = [([b + c * t for b, c, t in zip(base, cell, tile)], tile) for cell in cells]
            if rng.random() < 0.3:  # one more image lying across the seams
                out.insert(rng.randint(0, len(out)), ([b + rng.randint(0, t) for b, t in zip(base, tile)], rshape()))
            return out
        if geom == "nested":  # one large image, the others inside it
            off, shape = roff(), [rng.randint(3, 6) for _ in range(ndim)]
            out = []
            for _ in range(max(1, n - 1)):
                sh = [rng.randint(1, s) for s in shape]
                out.append(([o + rng.randint(0, s - t) for o, s, t in zip(off, shape, sh)], sh))
            out.insert(rng.randint(0, len(out)), (off, shape))
            return out
        if geom == "big":  # sides beyond the usual 1..4, pixel counts on both sides of the powers of two up to 4096
            out = []
            for _ in range(n):
                if ndim == 1:
                    shape = [rng.choice([rng.randint(5, 40), rng.choice([16, 64, 256, 1024, 4096]) + rng.randint(-1, 1)])]
                else:
                    shape = [rng.choice([rng.randint(5, 40), rng.randint(1, 40), rng.choice([8, 16, 32, 64]) + rng.randint(-1, 1)])
                             for _ in range(ndim)]
                    if rng.random() < 0.06 and not getattr(self, "_structured", False):  # more than 2^16 pixels (plain images)
                        shape = [rng.randint(257, 300) for _ in range(ndim)]
                out.append(([rng.randint(-20, 20) for _ in range(ndim)], shape))
            return out
        return [(roff(), rshape()) for _ in range(n)]

    def generate(self, rng, tier):
        ndim = rng.choice([1, 2, 2, 2, 3])
        n = rng.choice([1, 2, 2, 3, 3, 4, 5, 6])
        mode = rng.choice(["replace", "mean", "sum"])
        fill = rng.choice([None, None, 0, 40, -7, 1])  # quarters: 10.0, -1.75, 0.25
        structured = rng.random() < 0.25
        self._structured = structured
        r = rng.random()
        geom = ("free" if r < 0.60 else "stack" if r < 0.68 else "tiles" if r < 0.80 else "nested" if r < 0.86
                else "big" if r < 0.95 else "long")
        if geom == "big":
            ndim, n = rng.choice([1, 2, 2]), min(n, 3)
        if geom == "long" or (geom == "stack" and rng.random() < 0.3):  # lists longer than a handful
            ndim, n = min(ndim, 2), rng.randint(7, 40)
            if rng.random() < 0.3:  # several hundred images on one footprint (visit counters, chunked loops)
                ndim, n, geom = 1, rng.randint(300, 600), "stack"
        if geom == "free" and not structured and rng.random() < 0.04:  # more dimensions than the property names
            ndim, n = rng.choice([4, 5]), min(n, 3)
        special = rng.random() < 0.4  # images drawn from the value classes
        places = self.places(rng, geom, ndim, n)
        if ndim > 3:  # keep the box of a 4-d / 5-d case small
            places = [([rng.randint(-1, 1) for _ in range(ndim)], [rng.randint(1, 2) for _ in range(ndim)]) for _ in range(n)]
        case = {"kind": "structured" if structured else "plain", "ndim": ndim, "mode": mode, "fill": fill}
        if structured:
            names = ["A", "B", "C"]
            r = rng.random()
            if r < 0.8:
                dts = {nm: "f8" for nm in names}
            else:
                dts = {nm: rng.choice(["f8", "f4", "i8", "i8"]) for nm in names}
            clash = rng.random() < 0.1
            arrs = []
            for place in places:
                a = {"off": list(place[0]), "shape": list(place[1])}
                k = rng.randint(1, 3)
                fields = rng.sample(names, k)
                size = int(np.prod(a["shape"]))
                fs = []
                for f in fields:
                    dt = dts[f]
                    if clash and rng.random() < 0.4:
                        dt = rng.choice(["f8", "f4", "i8"])
                    vc = rng.choice(VCLASSES) if special else "rand"
                    prev = None
                    if vc in ("negprev", "complement"):  # the negative of the same field of an earlier image of the same shape, on its footprint
                        cands = [(b, g) for b in arrs if b["shape"] == a["shape"] for g in b["fields"] if g["name"] == f]
                        if cands:
                            b, g = rng.choice(cands)
                            prev, a["off"] = g["data"], list(b["off"])
                    fd = {"name": f, "dtype": dt}
                    if dt == "i8":  # integers (multiples of 4 quarters), no NaN
                        if vc in ("zeros", "negzeros", "zeros+nan"):
                            data = [0] * size
                        elif vc in ("const", "fillconst"):
                            data = [4 * rng.randint(-5, 5)] * size
                        elif prev is not None:
                            base = 4 * ((fill or 0) // 4) if vc == "complement" else 0
                            data = [base + 4 * (-(v or 0) // 4) for v in prev]
                        else:
                            data = [4 * rng.randint(-5, 5) for _ in range(size)]
                    else:
                        if vc == "wide" and dt == "f4":
                            vc = "rand"
                        data = gen_values(rng, size, vc, fill, prev)
                        if vc == "rand":
                            data = [None if rng.random() < 0.15 else rng.randint(-20, 20) for _ in range(size)]
                        if vc == "negzeros":
                            fd["negzero"] = True
                    fd["data"] = data
                    fs.append(fd)
                a["fields"] = fs
                arrs.append(a)
            case["arrays"] = arrs
            if len(arrs) <= 40 and all(int(np.prod(a["shape"])) <= 1024 for a in arrs) and rng.random() < 0.12:
                # the caller edits field values in place and merges again
                then = []
                for _ in range(rng.choice([1, 1, 2])):
                    edits = []
                    for _ in range(rng.randint(1, 3)):
                        i = rng.randrange(len(arrs))
                        f = rng.choice(arrs[i]["fields"])
                        if not f["data"]:
                            continue
                        v = 4 * rng.randint(-5, 5) if f["dtype"] == "i8" else rng.choice([None, 0, rng.randint(-20, 20)])
                        edits.append([i, f["name"], rng.randrange(len(f["data"])), v])
                    st = {"edits": edits}
                    if rng.random() < 0.3:
                        st["mode"] = rng.choice(["replace", "mean", "sum"])
                    if rng.random() < 0.3:
                        st["fill"] = rng.choice([None, 0, 40, -7])
                    then.append(st)
                case["then"] = then
        else:
            arrs = []
            for place in places:
                vc = rng.choice(VCLASSES) if special else "rand"
                prev = None
                if vc in ("negprev", "complement") and arrs:  # the negative of an earlier image, on its footprint
                    b = rng.choice(arrs)
                    place, prev = (b["off"], b["shape"]), b["data"]
                arrs.append(self.gen_array(rng, ndim, allnan=rng.random() < 0.08, place=place, vclass=vc, fill=fill, prev=prev))
            case["arrays"] = arrs
            if rng.random() < 0.25:  # a common translation, also large and beyond the exactly representable doubles
                big = rng.random() < 0.4
                t = [rng.choice([2 ** 53, -(2 ** 53), 2 ** 53 + 2, 3 - 2 ** 55, 2 ** 56 + 1, -(2 ** 57) + 5, 2 ** 63 - 40, 20 - 2 ** 63,
                                 2 ** 63 + 9, 2 ** 64 + 3, -(2 ** 70)]) + rng.randint(-3, 3)
                     if big else rng.randint(-1000, 1000) for _ in range(ndim)]
                for a in case["arrays"]:
                    a["off"] = [o + d for o, d in zip(a["off"], t)]
            self.plain_classes(rng, case)
        # memory layout of every input and the container of the offsets
        for a in case["arrays"]:
            if rng.random() < 0.35:
                a["layout"] = rng.choice(LAYOUTS[1:])
        # the same image object at two (or three) places of the list
        if rng.random() < 0.12:
            for _ in range(rng.choice([1, 1, 2])):
                src = rng.choice(case["arrays"])
                dup = {k: (list(v) if isinstance(v, list) else v) for k, v in src.items()}
                if rng.random() < 0.5:
                    dup["off"] = [o + rng.randint(-2, 2) for o in src["off"]]
                case["arrays"].insert(rng.randint(0, len(case["arrays"])), dup)
            case["share_objects"] = True
        # argument types: the offsets object (half of the cases: something other than a list of tuples, a third of those ONE
        # 2-d table), the container of the images, the fill object, the mode string
        if rng.random() < 0.5:
            case["offs_kind"] = rng.choice(OFFS_KINDS[1:])
        if rng.random() < 0.2:
            case["arrs_kind"] = "tuple"
        if rng.random() < 0.3:
            case["fill_kind"] = rng.choice(FILL_KINDS[1:])
        if rng.random() < 0.1:
            case["mode_kind"] = "npstr"
        # a second call on the same objects
        if rng.random() < 0.3:
            case["repeat"] = True
        # metamorphic leg
        if len(case["arrays"]) <= 4 and "then" not in case and (tier == "thorough" or rng.random() < 0.25):
            case["meta"] = {"t": [rng.choice([rng.randint(-9, 9), rng.randint(-10 ** 6, 10 ** 6)]) for _ in range(ndim)]}
        return case

    FIRST_DT = ["f8", "f8", "f4", "f4", "i8", "i4", "u2", "u1", "b1"]

    @staticmethod
    def as_dtype(a, dt, rng, integers=False):
        """the image description with its values made values of dtype `dt` (`integers`: whole numbers in float images too)"""
        unsigned = dt in ("u1", "u2")

        def conv(v):
            if dt in ("f8", "f4"):
                if dt == "f4" and isnum(v) and abs(v) >= 2 ** 20:  # float32 holds 24 bits
                    v = v % 2 ** 20
                return 4 * v if integers and isnum(v) else v
            if not isnum(v):
                v = rng.randint(0, 5)
            if dt == "b1":
                return 4 * (v % 2)
            v = max(-100, min(100, v))
            return 4 * (abs(v) if unsigned else v)
        a["data"] = [conv(v) for v in a["data"]]
        a.pop("negzero", None) if dt not in ("f8", "f4") else None
        if dt != "f8":
            a["dtype"] = dt
        return a

    def plain_classes(self, rng, case):
        """classes of plain cases beside the float64 images: images of several dtypes in one list, infinite values,
        zero-length axes, a signed zero as fill, histories of calls on the same objects, a result fed into a second merge"""
        arrs, ndim = case["arrays"], case["ndim"]
        small = len(arrs) <= 40 and all(len(a["data"]) <= 4096 for a in arrs)
        if rng.random() < 0.3:  # dtypes: the first image decides the canvas
            first = rng.choice(self.FIRST_DT)
            integers = rng.random() < 0.5
            unsigned = first in ("u1", "u2")
            for i, a in enumerate(arrs):
                dt = first if i == 0 else rng.choice(["f8", "f8", "f4", "i8", "i4", "i2", "u1", "u2", "b1", "b1"])
                self.as_dtype(a, dt, rng, integers)
                if unsigned:  # an unsigned canvas takes no negative value
                    a["data"] = [abs(v) if isnum(v) else v for v in a["data"]]
            if unsigned and isnum(case["fill"]):
                case["fill"] = abs(case["fill"])
            if integers and isnum(case["fill"]) and rng.random() < 0.7:
                case["fill"] = 4 * case["fill"]
        if rng.random() < 0.1:  # infinite pixel values in the floating-point images (one sign only in most cases)
            signs = ["inf"] if rng.random() < 0.35 else ["-inf"] if rng.random() < 0.5 else ["inf", "-inf"]
            p = 0.4 if len(signs) == 2 else rng.choice([0.1, 0.3])
            for a in arrs:
                if a.get("dtype", "f8") in ("f8", "f4"):
                    a["data"] = [rng.choice(signs) if rng.random() < p else v for v in a["data"]]
        if small and rng.random() < 0.05:  # an image with a zero-length axis (mostly beside others, inside their box)
            a = rng.choice(arrs)
            a["shape"][rng.randrange(ndim)] = 0
            a["data"] = []
            if len(arrs) > 1 and rng.random() < 0.7:
                b = rng.choice([x for x in arrs if x is not a])
                a["off"] = list(b["off"])
        if rng.random() < 0.03:
            case["fill"] = "-0"
        if small and rng.random() < 0.15:  # the caller edits the images in place and merges again (one to three times)
            then = []
            for _ in range(rng.choice([1, 1, 2, 3])):
                edits = []
                for _ in range(rng.randint(1, 4)):
                    i = rng.randrange(len(arrs))
                    if not arrs[i]["data"]:
                        continue
                    k = rng.randrange(len(arrs[i]["data"]))
                    dt = arrs[i].get("dtype", "f8")
                    v = rng.choice([None, None, 0, rng.randint(-20, 20), rng.randint(-20, 20)])
                    v = self.as_dtype({"data": [v]}, dt, rng)["data"][0]
                    if dt in ("u1", "u2") or arrs[0].get("dtype") in ("u1", "u2"):
                        v = abs(v) if isnum(v) else v
                    edits.append([i, k, v])
                st = {"edits": edits}
                if rng.random() < 0.3:
                    st["mode"] = rng.choice(["replace", "mean", "sum"])
                if rng.random() < 0.3 and arrs[0].get("dtype") not in ("u1", "u2"):
                    st["fill"] = rng.choice([None, 0, 40, -7])
                if rng.random() < 0.2:
                    st["repeat"] = True
                then.append(st)
            case["then"] = then
        elif small and rng.random() < 0.1 and all(a.get("dtype", "f8") == "f8" for a in arrs):
            # the result becomes the first image of a second merge with further images (tiling)
            lo = [min(a["off"][k] for a in arrs) for k in range(ndim)]
            case["feed"] = [self.gen_array(rng, ndim, place=([l + rng.randint(-2, 4) for l in lo],
                                                             [rng.randint(1, 4) for _ in range(ndim)]))
                            for _ in range(rng.choice([1, 1, 2]))]

    def many(self, n, mode, fill):
        """n one-pixel images on one pixel of a 1x2 base (visit counters of any width must not wrap)"""
        arrs = [{"off": [0, 0], "shape": [1, 2], "data": [8, None]}]
        arrs += [{"off": [0, 0], "shape": [1, 1], "data": [(i % 7) * 4]} for i in range(n)]
        return {"kind": "plain", "ndim": 2, "mode": mode, "fill": fill, "arrays": arrs}

    def targeted(self, tier):
        # many contributions to one pixel: past 2^8 always, past 2^16 in the thorough tier
        for n in ([255, 256, 257] if tier == "quick" else [255, 256, 257, 65535, 65536]):
            for mode in ("mean", "sum"):
                yield self.many(n, mode, None if n % 2 else 40)
        ones = {"off": [0, 0], "shape": [2, 2], "data": [4, 4, 4, 4]}
        twos = {"off": [1, 1], "shape": [2, 2], "data": [8, 8, 8, 8]}
        nanarr = {"off": [1, 1], "shape": [2, 2], "data": [None, 8, 8, None]}
        meta = {"t": [7, -3]}
        for mode in ("replace", "mean", "sum"):
            for fill in (None, 0, 40):
                yield {"kind": "plain", "ndim": 2, "mode": mode, "fill": fill, "arrays": [ones, twos], "meta": meta}
                yield {"kind": "plain", "ndim": 2, "mode": mode, "fill": fill, "arrays": [ones, nanarr], "meta": meta}
                yield {"kind": "plain", "ndim": 2, "mode": mode, "fill": fill, "arrays": [nanarr]}
                yield {"kind": "plain", "ndim": 1, "mode": mode, "fill": fill, "meta": {"t": [-100]},
                       "arrays": [{"off": [3], "shape": [1], "data": [5]}, {"off": [-3], "shape": [2], "data": [None, 7]},
                                  {"off": [3], "shape": [1], "data": [9]}]}
                # every layout of the two inputs
                for la in LAYOUTS[1:]:
                    yield {"kind": "plain", "ndim": 2, "mode": mode, "fill": fill, "offs_kind": "ndarray-ro",
                           "arrays": [{**ones, "layout": la}, {**nanarr, "layout": la}]}
        # every kind of offsets object / image container / fill object, on offsets whose per-axis minimum is not zero
        fz8 = lambda nm, data: {"name": nm, "dtype": "f8", "data": data}
        for i, kind in enumerate(OFFS_KINDS):
            mode, fill = ("replace", "mean", "sum")[i % 3], (None, 0, 40)[(i // 3) % 3]
            extra = {"offs_kind": kind, "arrs_kind": ("list", "tuple")[i % 2], "fill_kind": FILL_KINDS[i % len(FILL_KINDS)],
                     "repeat": i % 2 == 0}
            yield {"kind": "plain", "ndim": 2, "mode": mode, "fill": fill, **extra,
                   "arrays": [{**ones, "off": [2, 3]}, {**nanarr, "off": [4, 1]}, {**twos, "off": [3, 3]}]}
            yield {"kind": "plain", "ndim": 1, "mode": mode, "fill": fill, **extra,
                   "arrays": [{"off": [-3], "shape": [2], "data": [4, None]}, {"off": [-2], "shape": [2], "data": [8, 12]}]}
            yield {"kind": "structured", "ndim": 2, "mode": mode, "fill": fill, **extra, "arrays": [
                {"off": [2, 3], "shape": [1, 2], "fields": [fz8("A", [4, 8]), fz8("B", [0, None])]},
                {"off": [4, 1], "shape": [1, 2], "fields": [fz8("B", [12, 16])]}]}
        # images of several dtypes in one list, in every order; the first decides the canvas.  A: float64 with NaNs and
        # quarters, W: float64 whole numbers with a NaN, B: uint16, C: a boolean mask, D: float32 with a NaN, E: int32 on a
        # different footprint
        A = {"off": [0, 0], "shape": [2, 2], "data": [5, None, None, -6]}
        W = {"off": [0, 0], "shape": [2, 2], "data": [8, None, 12, None]}
        B = {"off": [0, 0], "shape": [2, 2], "data": [4, 8, 12, 0], "dtype": "u2"}
        C = {"off": [0, 0], "shape": [2, 2], "data": [4, 0, 4, 0], "dtype": "b1"}
        D = {"off": [0, 1], "shape": [2, 2], "data": [None, 2, 6, None], "dtype": "f4"}
        E = {"off": [1, -1], "shape": [1, 3], "data": [-8, 4, 20], "dtype": "i4"}
        lists = [list(p) for p in itertools.permutations([A, B, C])] + [list(p) for p in itertools.permutations([W, B, E])]
        lists += [[D, B, A], [D, E, C, A], [A, D], [W, E], [B, W], [C, W], [E, B], [C, C], [B], [C], [D]]
        for i, lst in enumerate(lists):
            for mode in ("replace", "mean", "sum"):
                for fill in (None, 0, 40):
                    c = {"kind": "plain", "ndim": 2, "mode": mode, "fill": fill, "arrays": lst}
                    if (i + len(mode)) % 4 == 0 and len(lst) > 1:
                        c["meta"] = {"t": [3, -2]}
                    yield c
        # infinite values: one sign (the IEEE sum is that infinity), both signs on one pixel (IEEE sum NaN: recorded only)
        inf1 = {"off": [0], "shape": [3], "data": ["inf", 4, None]}
        inf2 = {"off": [1], "shape": [3], "data": [8, "inf", "-inf"]}
        inf3 = {"off": [0], "shape": [4], "data": [4, "-inf", 12, 16]}
        for mode in ("replace", "mean", "sum"):
            for fill in (None, 0, 40):
                pl = {"kind": "plain", "ndim": 1, "mode": mode, "fill": fill}
                yield {**pl, "arrays": [inf1, {**inf2, "data": [8, "inf", 4]}], "meta": {"t": [5]}}
                yield {**pl, "arrays": [inf3, {"off": [1], "shape": [1], "data": ["-inf"], "dtype": "f4"}, {"off": [1], "shape": [2], "data": [4, 8], "dtype": "i8"}]}
                yield {**pl, "arrays": [inf1, inf2, inf3]}
                yield {**pl, "arrays": [inf2, inf3, {"off": [2], "shape": [2], "data": [20, 20]}]}
        # histories: the caller edits the images in place (values, NaN pattern) and merges again, with another mode / fill;
        # the first result is fed into a second merge; an image with a zero-length axis; a signed zero as fill
        h1 = {"off": [0, 0], "shape": [2, 2], "data": [4, 8, None, 16]}
        h2 = {"off": [1, 1], "shape": [2, 2], "data": [None, 8, 8, 0]}
        for mode in ("replace", "mean", "sum"):
            for fill in (None, 0, 40):
                pl = {"kind": "plain", "ndim": 2, "mode": mode, "fill": fill}
                yield {**pl, "arrays": [h1, h2], "then": [{"edits": [[0, 3, None], [1, 0, 20]]},
                                                         {"edits": [[0, 3, 4], [0, 0, None]], "mode": "sum", "fill": 0, "repeat": True},
                                                         {"edits": [], "mode": "mean", "fill": None}]}
                yield {**pl, "arrays": [h1, {**h2, "layout": "strided"}, {**h1, "off": [0, 1], "layout": "ro"}], "share_objects": True,
                       "then": [{"edits": [[2, 1, -8], [1, 3, None]]}]}
                yield {**pl, "arrays": [h1, h2], "feed": [{"off": [0, 2], "shape": [2, 2], "data": [4, None, 0, -4]}]}
                yield {**pl, "arrays": [h2], "feed": [h1, {"off": [3, 3], "shape": [1, 1], "data": [12]}]}
                yield {**pl, "arrays": [h1, {"off": [1, 1], "shape": [0, 2], "data": []}, h2]}
                yield {**pl, "arrays": [{"off": [0, 1], "shape": [2, 0], "data": []}, h1]}
                yield {**pl, "arrays": [h1, {"off": [7, 7], "shape": [0, 0], "data": []}]}
                yield {**pl, "fill": "-0", "arrays": [h1, {**h2, "off": [3, 3]}]}
        # value classes: a blank (all-zero, also -0.0) tile beside a signal tile and a tile with some zeros; an image and
        # its negative; an image that equals the fill; zeros with NaNs; one zero pixel alone
        sig = {"off": [0, 0], "shape": [2, 2], "data": [4, 8, 12, 16]}
        blank = {"off": [1, 1], "shape": [2, 2], "data": [0, 0, 0, 0]}
        ctrl = {"off": [0, 3], "shape": [2, 2], "data": [0, 20, 0, None]}
        for mode in ("replace", "mean", "sum"):
            for fill in (None, 0, 40, -4):
                pl = {"kind": "plain", "ndim": 2, "mode": mode, "fill": fill}
                yield {**pl, "arrays": [sig, blank, ctrl], "meta": {"t": [2, -9]}, "repeat": True}
                yield {**pl, "arrays": [{**blank, "negzero": True}, sig, ctrl], "meta": {"t": [-1, 5]}}
                yield {**pl, "arrays": [{"off": [0, 0], "shape": [1, 1], "data": [0]}]}
                yield {**pl, "arrays": [sig, {**sig, "data": [-4, -8, -12, -16]}, blank], "meta": {"t": [1, 1]}}
                yield {**pl, "arrays": [{**sig, "data": [40, 40, -4, -4]}, {"off": [0, 1], "shape": [2, 2], "data": [40, None, -4, 0]}]}
                yield {**pl, "arrays": [{"off": [0, 0], "shape": [1, 3], "data": [0, None, 0]},
                                        {"off": [0, 1], "shape": [1, 3], "data": [None, None, 0]}]}
                yield {**pl, "arrays": [{**sig, "data": [2 ** 40 + 1, -(2 ** 40) - 1, 2 ** 30 + 3, 1]},
                                        {**sig, "data": [1, 2 ** 40 + 1, None, 2 ** 44 - 1]}, blank]}
                # geometry: a 2 x 2 mosaic of abutting tiles in scrambled order, complete and with one tile missing; a stack
                tiles = [{"off": [2 * i - 3, 2 * j + 1], "shape": [2, 2], "data": [4 * i, 0, None if i == j else 8, 4 * j]}
                         for i, j in ((1, 0), (0, 0), (1, 1), (0, 1))]
                yield {**pl, "arrays": tiles, "meta": {"t": [3, 3]}}
                yield {**pl, "arrays": tiles[:3], "meta": {"t": [-3, 0]}}
                yield {**pl, "arrays": [sig, {**sig, "data": [0, None, 0, 4]}, {**sig, "data": [None, None, 0, -20]}]}
                # the same image object three times (once moved), called twice
                yield {**pl, "share_objects": True, "repeat": True,
                       "arrays": [nanarr, {**nanarr, "off": [2, 1]}, ones, nanarr]}
                # structured: a blank field beside a signal field, a field only the blank image has
                fz = lambda nm, data, **kw: {"name": nm, "dtype": "f8", "data": data, **kw}
                yield {"kind": "structured", "ndim": 1, "mode": mode, "fill": fill, "repeat": True, "arrays": [
                    {"off": [0], "shape": [2], "fields": [fz("A", [4, 8]), fz("B", [0, 0])]},
                    {"off": [1], "shape": [2], "fields": [fz("A", [0, 0]), fz("C", [0, 0], negzero=True)]},
                    {"off": [3], "shape": [2], "fields": [fz("B", [0, None])]}]}
        # a larger image and a longer list
        for mode in ("replace", "mean", "sum"):
            yield {"kind": "plain", "ndim": 2, "mode": mode, "fill": None, "arrays": [
                {"off": [0, 0], "shape": [33, 17], "data": [(i * 7) % 41 - 20 for i in range(33 * 17)]},
                {"off": [-5, 9], "shape": [16, 64], "data": [None if i % 5 == 0 else 0 if i % 3 == 0 else i % 13 for i in range(16 * 64)]}]}
            yield {"kind": "plain", "ndim": 1, "mode": mode, "fill": 40, "arrays": [
                {"off": [i % 9], "shape": [3], "data": [i - 20, None if i % 4 == 0 else 0, 20 - i]} for i in range(40)]}
        # structured: three inputs whose field sets overlap pairwise (each lacks one name of the union), in every order of
        # the inputs and with the names in both orders inside an input; a name only the first / middle / last input has
        fs = lambda nm, data: {"name": nm, "dtype": "f8", "data": data}
        s1 = {"off": [0, 0], "shape": [1, 2], "fields": [fs("A", [4, None]), fs("B", [8, 12])]}
        s2 = {"off": [0, 1], "shape": [1, 2], "fields": [fs("C", [None, 20]), fs("B", [0, -4])]}
        s3 = {"off": [-1, 1], "shape": [2, 1], "fields": [fs("C", [16, 4]), fs("A", [None, 28])]}
        only = lambda nm, off: {"off": off, "shape": [1, 1], "fields": [fs(nm, [36])]}
        for i, perm in enumerate(itertools.permutations([s1, s2, s3])):
            for mode in ("replace", "mean", "sum"):
                fill = (None, 0, 40)[(i + len(mode)) % 3]
                st = {"kind": "structured", "ndim": 2, "mode": mode, "fill": fill, "meta": {"t": [4, -6]}}
                yield {**st, "arrays": list(perm)}
                yield {**st, "arrays": [{**a, "fields": a["fields"][::-1]} for a in perm][:2 + i % 2]}
        for mode in ("replace", "mean", "sum"):
            st = {"kind": "structured", "ndim": 2, "mode": mode, "fill": None, "meta": {"t": [-2, 3]}}
            yield {**st, "arrays": [only("Z", [0, 0]), s1, s2]}
            yield {**st, "arrays": [s1, only("Z", [0, 1]), s2]}
            yield {**st, "arrays": [s1, s2, only("Z", [0, 2])], "fill": 40}
            yield {**st, "arrays": [s1], "fill": 0}
            yield {"kind": "structured", "ndim": 2, "mode": mode, "fill": 40, "arrays": [s1, {**s2, "layout": "strided"}, s3, s1],
                   "share_objects": True,
                   "then": [{"edits": [[0, "A", 1, 12], [1, "B", 0, None]]}, {"edits": [[2, "C", 1, None]], "mode": "sum", "fill": None}]}
        # structured: the same name with two dtypes; integer and float32 fields, first array with / without the field
        fa = lambda dt, data: {"name": "A", "dtype": dt, "data": data}
        fb = lambda dt, data: {"name": "B", "dtype": dt, "data": data}
        base = {"off": [0], "shape": [2]}
        nxt = {"off": [1], "shape": [2]}
        for mode in ("replace", "mean", "sum"):
            for fill in (None, 0, 10):
                st = {"kind": "structured", "ndim": 1, "mode": mode, "fill": fill}
                yield {**st, "arrays": [{**base, "fields": [fa("f8", [4, 8])]}, {**nxt, "fields": [fa("f4", [12, 16])]}]}
                yield {**st, "arrays": [{**base, "fields": [fa("f8", [4, 8])]}, {**nxt, "fields": [fa("i8", [12, 16])]}]}
                yield {**st, "arrays": [{**base, "fields": [fa("f8", [4, None])]}, {**nxt, "fields": [fb("i8", [12, 16])]}]}
                yield {**st, "arrays": [{**base, "fields": [fb("i8", [12, 16])]}, {**nxt, "fields": [fa("f8", [4, None])]}]}
                yield {**st, "arrays": [{**base, "fields": [fb("i8", [12, 16])]}, {**nxt, "fields": [fb("i8", [-4, 8])]}]}
                yield {**st, "arrays": [{**base, "fields": [fb("f4", [13, None])]}, {**nxt, "fields": [fb("f4", [-4, 8])]},
                                        {**nxt, "fields": [fb("f4", [1, 8]), fa("f8", [1, 2])]}]}

    # ------------------------------------------------------------------ evaluation
    # ------------------------------------------------------------------ plain merges
    def plain_args(self, case, descs, fillq, mode, kinds, layouts=True, extra_first=None):
        """the argument objects of one call of overlap_arrays on the image descriptions `descs`; `kinds`: use the case's
        container / fill / mode kinds; `extra_first`: an ndarray (an earlier result) handed in as the first image"""
        pairs = build_objects(descs[1:] if extra_first is not None else descs,
                              lambda a: lay_out(to_np(a), a.get("layout", "c") if layouts else "c"),
                              case.get("share_objects", False))
        if extra_first is not None:
            pairs = [(extra_first, extra_first)] + pairs
        sub = {"arrays": descs, "offs_kind": case.get("offs_kind", "tuple") if kinds else "tuple"}
        offsets, okind = make_offsets(sub)
        fcase = {"fill": fillq, "fill_kind": case.get("fill_kind", "float") if kinds else "float"}
        fobj, fkind = make_fill(fcase)
        mobj = np.str_(mode) if kinds and case.get("mode_kind") == "npstr" else mode
        args = Args(pairs, offsets, fobj, mobj, case.get("arrs_kind", "list") if kinds else "list")
        args.kinds = {"offsets": okind, "fill": fkind, "arrays": type(args.arrays).__name__, "mode": type(mobj).__name__}
        return args

    @staticmethod
    def call_plain(register, args):
        """(canonical result, the returned ndarray | None)"""
        import warnings

        try:
            with warnings.catch_warnings():
                warnings.simplefilter("ignore", RuntimeWarning)  # NaN / infinity cast into an integer canvas (pixel not judged)
                res = register.overlap_arrays(args.arrays, args.offsets, fill=args.fill, mode=args.mode)
            dt = res.dtype.str.lstrip("<=|>")
            return {"dtype": dt, "shape": list(res.shape), "data": [fhex(v) for v in res.ravel()]}, res
        except Exception as e:  # the quantified inputs never raise
            return {"raises": exc_class(e), "msg": str(e)[:200]}, None

    def judge_plain(self, ctx, descs, mode, fillq, ndim, got, feats):
        """one call against the Lean model: returns (impl, model, spec) made comparable, or None when the model raises
        (an integer or boolean canvas in mean mode / with a NaN or infinite fill: not judged).  A pixel is judged where
        the hypothesis of theorem pixel_specD holds and the demanded value is representable in the canvas dtype; the other
        pixels are replaced by "unjudged" on all three sides (a difference from the model there is recorded only)."""
        rep = ctx.driver.call("c11.overlapD", mode=mode, fill=enc_v(fillq), ndim=ndim,
                              arrays=[{"off": a["off"], "shape": a["shape"], "dtype": dclass(a.get("dtype", "f8")),
                                       "data": [enc_v(v) for v in a["data"]]} for a in descs])
        if "raises" in rep:
            feats.add("dtype:" + rep["dtype"] + "-canvas-raises-" + rep["raises"] + "(not compared)")
            return None
        dt0 = descs[0].get("dtype", "f8")
        # rounding of a non-dyadic mean follows the floating-point dtype the implementation returned
        rdt = got["dtype"] if "dtype" in got and got["dtype"] in ("f8", "f4", "f2") else dt0
        model = [ptok(v, rdt) for v in rep["model"]]
        spec = [ptok(v, rdt) for v in rep["spec"]]
        exact = [ptok(v, rdt) for v in rep["exact"]]
        infinite = any(isinstance(v, str) for a in descs for v in a["data"]) or isinstance(fillq, str) and "inf" in fillq
        whole = rep["dtype"] != "i8" or not infinite  # arithmetic on an undefined integer pixel is not modelled
        lenient = INF_CANCEL_IN_SCOPE if rep["dtype"] in ("f8", "f4") else LOSSY_INT_SUM_IN_SCOPE
        judged = [whole and (h or lenient) and sp == ex and sp != "undef" for h, sp, ex in zip(rep["hyp"], spec, exact)]
        if not all(rep["hyp"]):
            feats.add("hyp:inf-meets-neg-inf(recorded only)" if rep["dtype"] in ("f8", "f4") else
                      "hyp:lossy-sum-in-" + rep["dtype"] + "-canvas(recorded only)")
        if any(h and sp != ex for h, sp, ex in zip(rep["hyp"], spec, exact)):
            feats.add("dtype:value-not-representable-in-canvas(recorded only)")
        if not whole:
            feats.add("dtype:infinity-into-integer-canvas(recorded only)")
        impl = {k: v for k, v in got.items() if k not in ("msg", "dtype")}
        if "data" in impl and impl.get("shape") == rep["shape"] and len(impl["data"]) == len(model):
            if whole and any(not j and m != "undef" and x != m for j, x, m in zip(judged, impl["data"], model)):
                feats.add("unjudged-pixel-differs-from-model(recorded only)")
            impl["data"] = [x if j else "unjudged" for j, x in zip(judged, impl["data"])]
        mask = lambda data: [x if j else "unjudged" for j, x in zip(judged, data)]
        if all(judged):
            feats.add("all-pixels-judged")
        return impl, {"shape": rep["shape"], "data": mask(model)}, {"shape": rep["shape"], "data": mask(spec)}, judged

    def metamorphic(self, register, case, descs, mode, fillq, expect, judged):
        """the same merge with a common translation added to every offset, with every permutation of the inputs that keeps
        the first image's dtype (mean / sum), judged against the Lean specification of the ORIGINAL call (theorems
        overlapD_translation_invariant, overlapD_perm_invariant); replace: the last-writer relation of theorem
        overlap_replace_last_writer on the implementation's results.  Every entry must come out True."""
        t = case["meta"]["t"]
        res = {}
        expect = {k: expect[k] for k in ("shape", "data") if k in expect}

        def run(ds):
            got, raw = self.call_plain(register, self.plain_args(case, ds, fillq, mode, kinds=False, layouts=False))
            out = {k: v for k, v in got.items() if k not in ("msg", "dtype")}
            if "data" in out and len(out["data"]) == len(judged):
                out["data"] = [x if j else "unjudged" for j, x in zip(judged, out["data"])]
            return out, raw

        moved = [{**a, "off": [o + d for o, d in zip(a["off"], t)]} for a in descs]
        if not self.outside({**case, "arrays": moved}):  # the translated call is itself inside the quantifier
            res["translation"] = run(moved)[0] == expect
        if mode != "replace" and len(descs) <= 4:
            dt0 = descs[0].get("dtype", "f8")
            res["permutations"] = all(run(list(p))[0] == expect for p in itertools.permutations(descs)
                                      if p[0].get("dtype", "f8") == dt0)
        last = descs[-1]
        if mode == "replace" and all(judged) and "shape" in expect and (len(descs) > 1 or dclass(last.get("dtype", "f8")) in ("f8", "f4")):
            blank = {**last, "data": [None] * len(last["data"])}
            if dclass(blank.get("dtype", "f8")) not in ("f8", "f4"):
                blank["dtype"] = "f8"  # an integer image cannot be blank; the dtype of a later image does not matter
            base, raw_b = run(descs)
            other, raw_o = run(descs[:-1] + [blank])
            ok = raw_b is not None and raw_o is not None and raw_b.shape == raw_o.shape and raw_b.dtype == raw_o.dtype
            if ok:
                lo = [min(a["off"][k] for a in descs) for k in range(case["ndim"])]
                sl = tuple(slice(o - m, o - m + s) for o, m, s in zip(last["off"], lo, last["shape"]))
                vals = to_np({**last, "layout": "c"})
                keep = ~np.isnan(vals) if vals.dtype.kind == "f" else np.ones(vals.shape, dtype=bool)
                exp = raw_o.copy()
                sub = exp[sl]
                if sub.shape != vals.shape:  # the result is not the bounding box (reported by the main leg as well)
                    ok = False
                else:
                    import warnings
                    with warnings.catch_warnings():
                        warnings.simplefilter("ignore", RuntimeWarning)
                        sub[keep] = vals[keep]
                    ok = [fhex(v) for v in exp.ravel()] == [fhex(v) for v in raw_b.ravel()]
            res["last_writer"] = ok
        return res

    def evaluate(self, case, ctx):
        from pewlib.process import register

        # the canvas is the bounding box: a case (e.g. derived by a shrinker) whose box is astronomically large cannot
        # be evaluated by anyone; it is outside what this check explores
        lo = [min(a["off"][k] for a in case["arrays"]) for k in range(case["ndim"])]
        hi = [max(a["off"][k] + a["shape"][k] for a in case["arrays"]) for k in range(case["ndim"])]
        cells = 1
        for l, h in zip(lo, hi):
            cells *= h - l
        if cells > 2_000_000:
            return outcome({"excluded": "canvas too large"}, None, None, spec_ok=True, model_ok=True, undetermined=True,
                           hyp=False, features=["excluded:canvas-too-large"])
        ndim, mode = case["ndim"], case["mode"]
        fq = case["fill"]
        if isinstance(fq, str) and "inf" in fq:  # outside the quantifier (fill values NaN, 0 and finite numbers)
            return outcome({"excluded": "infinite fill"}, None, None, spec_ok=True, model_ok=True, undetermined=True,
                           hyp=False, features=["excluded:infinite-fill"])
        fill = fill_value(fq)
        dfill = None if fq is None else core.rat(Fraction(0 if fq == "-0" else fq, 4))
        feats = {f"ndim{ndim}", f"mode:{mode}", "fill:" + ("nan" if fq is None else "neg-zero" if fq == "-0" else "zero" if fq == 0 else "finite"),
                 f"n{len(case['arrays'])}", case["kind"]}
        for a in case["arrays"]:
            if a.get("layout", "c") != "c":
                feats.add("layout:" + a["layout"])
        if case["kind"] == "plain":
            return self.eval_plain(register, case, ctx, feats)
        return self.eval_structured(register, case, ctx, feats)

    def eval_plain(self, register, case, ctx, feats):
        ndim = case["ndim"]
        fq0 = 0 if case["fill"] == "-0" else case["fill"]
        descs = [{**a, "data": list(a["data"])} for a in case["arrays"]]
        steps = [{"mode": case["mode"], "fill": case["fill"], "edits": []}] + list(case.get("then", []))
        # exactness of every call of the history is decided before anything is run
        probe = [{**a, "data": list(a["data"])} for a in descs]
        for st in steps:
            for i, k, v in st.get("edits", []):
                if i < len(probe) and k < len(probe[i]["data"]):
                    probe[i]["data"][k] = v
            why = plain_inexact(probe, 0 if st.get("fill", case["fill"]) == "-0" else st.get("fill", case["fill"]))
            if why:
                return outcome({"excluded": why}, None, None, spec_ok=True, model_ok=True, undetermined=True,
                               hyp=False, features=["excluded:inexact-sums"])
        args = self.plain_args(case, descs, case["fill"], case["mode"], kinds=True)
        feats |= args_feats(args)
        if args.shared():
            feats.add("alias:same-object-twice")
        # list positions that hold one object are edited together
        same = {}
        for i, (v, _) in enumerate(args.pairs):
            same.setdefault(id(v), []).append(i)
        impl, model, spec = {"calls": []}, {"calls": []}, {"calls": []}
        kept, unchanged, aliased, not_judged = [], True, False, False
        first_raw, first_judged, first_spec = None, None, None
        for n, st in enumerate(steps):
            mode, fq = st.get("mode", case["mode"]), st.get("fill", case["fill"])
            fq_m = 0 if fq == "-0" else fq
            if n > 0:  # the caller edits the same image objects in place between the calls
                feats.add("history:edit-then-merge-again")
                for i, k, v in st.get("edits", []):
                    if i >= len(descs) or k >= len(descs[i]["data"]):
                        continue
                    view = args.pairs[i][0]
                    idx = np.unravel_index(k, view.shape)
                    ro = not view.flags.writeable
                    if ro:
                        view.flags.writeable = True
                    view[idx] = np.array(fval(v, descs[i].get("negzero", False))).astype(view.dtype)
                    if ro:
                        view.flags.writeable = False
                    for j in same[id(view)]:
                        descs[j]["data"][k] = v
                fobj, _ = make_fill({"fill": fq, "fill_kind": case.get("fill_kind", "float")})
                args.fill, args.mode = fobj, mode
                args.before = args.picture()
            got, raw = self.call_plain(register, args)
            unchanged = unchanged and args.unchanged()
            if st.get("repeat", case.get("repeat") if n == 0 else False):
                again, raw2 = self.call_plain(register, args)
                got["second_call_same"] = {k: v for k, v in again.items() if k != "msg"} == {k: v for k, v in got.items() if k != "msg"}
                unchanged = unchanged and args.unchanged()
                feats.add("calls:second-call-on-same-objects")
                if raw2 is not None:
                    kept.append((raw2, raw2.tobytes()))
            if raw is not None:
                aliased = aliased or any(np.shares_memory(raw, b) for _, b in args.pairs)
                kept.append((raw, raw.tobytes()))
            j = self.judge_plain(ctx, descs, mode, fq_m, ndim, got, feats)
            if j is None:
                not_judged = True
                break
            gi, gm, gs, judged = j
            if "second_call_same" in gi:
                gm["second_call_same"] = gs["second_call_same"] = True
            impl["calls"].append(gi)
            model["calls"].append(gm)
            spec["calls"].append(gs)
            if n == 0:
                first_raw, first_judged, first_spec = raw, judged, gs
        if not_judged:
            return outcome({"result": "raises"}, None, None, spec_ok=True, model_ok=True, undetermined=True, hyp=False,
                           features=feats)
        # results handed out earlier are not touched by later calls or by edits of the inputs
        impl["earlier_results_kept"] = all(r.tobytes() == b for r, b in kept)
        # the result is the caller's: writing into it does not reach an input
        if first_raw is not None and first_raw.flags.writeable and first_raw.size:
            scribble(first_raw)
            args.before_edit_ok = args.unchanged()
            impl["inputs_unchanged_by_editing_the_result"] = args.before_edit_ok and not aliased
            model["inputs_unchanged_by_editing_the_result"] = spec["inputs_unchanged_by_editing_the_result"] = True
        impl["inputs_unchanged"] = unchanged
        for d in (model, spec):
            d["inputs_unchanged"] = True
            d["earlier_results_kept"] = True
        # the first result fed into a second merge with further images (tiling)
        if case.get("feed") and first_raw is not None and all(first_judged):
            self.feed(register, case, ctx, descs0=[{**a, "data": list(a["data"])} for a in case["arrays"]],
                      impl=impl, model=model, spec=spec, feats=feats)
        if case.get("meta") and len(steps) == 1 and "data" in spec["calls"][0]:
            impl["meta"] = self.metamorphic(register, case, case["arrays"], case["mode"], case["fill"], spec["calls"][0], first_judged)
            model["meta"] = spec["meta"] = {k: True for k in impl["meta"]}
            feats |= {"meta:" + k for k in impl["meta"]}
        feats |= self.plain_feats(case, fq0)
        outside = self.outside(case)
        if outside:  # no clause of the property speaks about this call: a difference from the model is recorded, not judged
            if core.canon(impl) != core.canon(model):
                feats.add("outside:differs-from-model(recorded only)")
            return outcome(impl, model, spec, spec_ok=True, model_ok=True, undetermined=True, hyp=False,
                           features=feats | {"outside:" + o + "(recorded only)" for o in outside})
        return outcome(impl, model, spec, features=feats if NONTRIVIAL & feats else [])

    @staticmethod
    def outside(case):
        """reasons why the call lies outside the property's quantifier or in a choice its text leaves open"""
        out = []
        arrs, ndim = case["arrays"], case["ndim"]
        if ndim > 3:
            out.append("more-than-3-dimensions")
        if any(not -2 ** 63 <= v < 2 ** 63 for a in arrs for o, s in zip(a["off"], a["shape"]) for v in (o, o + s)):
            out.append("offset-beyond-int64")
        full = [a for a in arrs if 0 not in a["shape"]]
        if len(full) < len(arrs):
            # is an image without pixels part of "their bounding box"?  judged only where it makes no difference
            box = lambda l: [(min(a["off"][k] for a in l), max(a["off"][k] + a["shape"][k] for a in l)) for k in range(ndim)]
            if not full or box(full) != box(arrs):
                out.append("empty-image-decides-the-box")
        return out

    def feed(self, register, case, ctx, descs0, impl, model, spec, feats):
        """tiling: the images are merged once more (fill NaN), that result is handed in as the first image of a second
        merge together with the images `case["feed"]`; judged (a) against the Lean specification with the first result's
        values as an input and (b), in replace and sum mode, against the specification of the one merge of all images
        (theorem tiling)."""
        ndim, mode = case["ndim"], case["mode"]
        a1 = self.plain_args(case, descs0, None, mode, kinds=False)
        got1, raw1 = self.call_plain(register, a1)
        if raw1 is None or raw1.dtype != np.float64:
            return
        vals = []
        for v in raw1.ravel():
            q = None if math.isnan(v) else "inf" if v == math.inf else "-inf" if v == -math.inf else Fraction(float(v)) * 4
            if isinstance(q, Fraction):
                if q.denominator != 1:
                    feats.add("feed:skipped(first result not dyadic)")
                    return
                q = int(q)
            vals.append(q)
        lo = [min(a["off"][k] for a in descs0) for k in range(ndim)]
        first = {"off": lo, "shape": list(raw1.shape), "data": vals, "dtype": "f8"}
        more = [{**a, "data": list(a["data"])} for a in case["feed"]]
        descs2 = [first] + more
        if plain_inexact(descs2, 0 if case["fill"] == "-0" else case["fill"]) or plain_inexact(descs0 + more, case["fill"] if case["fill"] != "-0" else 0):
            feats.add("feed:skipped(inexact)")
            return
        keep = raw1.tobytes()
        a2 = self.plain_args(case, descs2, case["fill"], mode, kinds=False, extra_first=raw1)
        got2, raw2 = self.call_plain(register, a2)
        fq = 0 if case["fill"] == "-0" else case["fill"]
        f2 = set()
        j = self.judge_plain(ctx, descs2, mode, fq, ndim, got2, f2)
        if j is None:
            return
        gi, gm, gs, judged = j
        gi["inputs_unchanged"] = a2.unchanged() and raw1.tobytes() == keep
        gm["inputs_unchanged"] = gs["inputs_unchanged"] = True
        feats.add("history:result-fed-into-next-merge")
        if mode != "mean" and all(judged) and all(a.get("dtype", "f8") == "f8" for a in descs0 + more):
            j1 = self.judge_plain(ctx, descs0 + more, mode, fq, ndim, got2, set())
            if j1 is not None and all(j1[3]):
                gi["equals_one_merge_of_all"] = gi.get("data") == j1[2]["data"] and gi.get("shape") == j1[2]["shape"]
                gm["equals_one_merge_of_all"] = gs["equals_one_merge_of_all"] = True
                feats.add("history:tiling-equals-one-merge")
        impl["fed"], model["fed"], spec["fed"] = gi, gm, gs

    def plain_feats(self, case, fq0):
        """feature classes of a plain case (from the case, not from the generator's labels)"""
        feats = set()
        arrs, ndim, mode = case["arrays"], case["ndim"], case["mode"]
        lo = [min(a["off"][k] for a in arrs) for k in range(ndim)]
        hi = [max(a["off"][k] + a["shape"][k] for a in arrs) for k in range(ndim)]
        shape = [h - l for l, h in zip(lo, hi)]
        cover = np.zeros(shape, dtype=int)
        cover_any = np.zeros(shape, dtype=int)
        pinf = np.zeros(shape, dtype=bool)
        ninf = np.zeros(shape, dtype=bool)
        for a in arrs:
            sl = tuple(slice(o - m, o - m + s) for o, m, s in zip(a["off"], lo, a["shape"]))
            d = np.array([v is not None for v in a["data"]], dtype=bool).reshape(a["shape"])
            cover[sl] += d
            cover_any[sl] += 1
            pinf[sl] |= np.array([v == "inf" for v in a["data"]], dtype=bool).reshape(a["shape"])
            ninf[sl] |= np.array([v == "-inf" for v in a["data"]], dtype=bool).reshape(a["shape"])
        if (cover >= 2).any():
            feats.add("overlap>=2")
        if ((cover == 0) & (cover_any > 0)).any():
            feats.add("nan-only-pixel")
        if (cover_any == 0).any():
            feats.add("uncovered-pixel")
        if any(min(a["off"]) < 0 for a in arrs):
            feats.add("negative-offset")
        if any(a["data"] and all(v is None for v in a["data"]) for a in arrs):
            feats.add("whole-nan-array")
        if any(abs(o) >= 2 ** 53 for a in arrs for o in a["off"]):
            feats.add("offset>=2^53")
        if len(arrs) > 255:
            feats.add("contributions>255" if len(arrs) < 60000 else "contributions>=65535")
        if pinf.any() or ninf.any():
            feats.add("value:infinity")
            if (pinf & ninf).any():
                feats.add("value:inf-and-neg-inf-on-one-pixel")
        if any(0 in a["shape"] for a in arrs):
            feats.add("size:zero-length-axis")
        dts = [a.get("dtype", "f8") for a in arrs]
        if set(dts) != {"f8"}:
            feats.add("dtype:first=" + dts[0])
            feats |= {"dtype:has-" + d for d in dts}
            if len({dclass(d) for d in dts}) > 1:
                feats.add("dtype:mixed-list")
            seen_nan_float = False
            for a in arrs:
                if dclass(a.get("dtype", "f8")) in ("f8", "f4"):
                    seen_nan_float = seen_nan_float or any(v is None for v in a["data"])
                elif seen_nan_float:
                    feats.add("dtype:integer-or-bool-after-float-with-nan")
        finite = [{**a, "data": [v if isnum(v) else None for v in a["data"]]} for a in arrs]
        feats |= value_feats(finite, lo, shape, fq0, mode)
        feats |= geom_feats(arrs)
        return feats

    def eval_structured(self, register, case, ctx, feats, variant=False, session=None):
        """one structured merge against the Lean model (`variant`: a translated / reordered / edited form of a case,
        evaluated without legs of its own; `session`: the argument objects of an earlier call of the same history, which the
        caller has edited in place)"""
        import warnings

        ndim, mode = case["ndim"], case["mode"]
        fq = case["fill"]
        dfill = None if fq is None else core.rat(Fraction(0 if fq == "-0" else fq, 4))
        # exact arithmetic: the values of every field are representable in its dtype and their sums are exact in it
        for a in case["arrays"]:
            for f in a["fields"]:
                if f.get("dtype", "f8") == "f4" and any(v is not None and abs(v) >= 2 ** 24 for v in f["data"]):
                    return outcome({"excluded": "value not representable in float32"}, None, None, spec_ok=True, model_ok=True,
                                   undetermined=True, hyp=False, features=["excluded:inexact-sums"])
        first_dt = {}
        for a in case["arrays"]:
            for f in a["fields"]:
                first_dt.setdefault(f["name"], f.get("dtype", "f8"))
        lo = [min(a["off"][k] for a in case["arrays"]) for k in range(ndim)]
        hi = [max(a["off"][k] + a["shape"][k] for a in case["arrays"]) for k in range(ndim)]
        for nm in first_dt:
            vals = [v for a in case["arrays"] for f in a["fields"] if f["name"] == nm for v in f["data"]]
            narrow = any(f.get("dtype", "f8") == "f4" for a in case["arrays"] for f in a["fields"] if f["name"] == nm)
            if not exact_ok(vals, 24 if narrow else 53):
                return outcome({"excluded": "sums not exact"}, None, None, spec_ok=True, model_ok=True, undetermined=True,
                               hyp=False, features=["excluded:inexact-sums"])

        def make(a):
            dt = [(f["name"], NPDT[f.get("dtype", "f8")]) for f in a["fields"]]
            arr = np.empty(a["shape"], dtype=dt)
            for f in a["fields"]:
                vals = np.array([fval(v, f.get("negzero", False)) for v in f["data"]]).reshape(a["shape"])
                arr[f["name"]] = vals  # exact: the values are representable in the field's dtype (checked above)
            return lay_out(arr, a.get("layout", "c"))

        if session is None:
            pairs = build_objects(case["arrays"], make, case.get("share_objects", False))
            offsets, okind = make_offsets(case)
            fobj, fkind = make_fill(case)
            mobj = np.str_(mode) if case.get("mode_kind") == "npstr" else mode
            args = Args(pairs, offsets, fobj, mobj, case.get("arrs_kind", "list"))
            args.kinds = {"offsets": okind, "fill": fkind, "arrays": type(args.arrays).__name__, "mode": type(mobj).__name__}
            args.kept = []
        else:
            args = session
            args.fill, args.mode = make_fill(case)[0], (np.str_(mode) if case.get("mode_kind") == "npstr" else mode)
            args.before = args.picture()
        feats |= args_feats(args)
        if args.shared():
            feats.add("alias:same-object-twice")

        kept = args.kept
        n_before = len(kept)

        def call(offs):
            try:
                with warnings.catch_warnings():
                    warnings.simplefilter("ignore", RuntimeWarning)  # NaN cast to an integer field (pixel not compared)
                    res = register.overlap_structured_arrays(args.arrays, offs, fill=args.fill, mode=args.mode)
                kept.append([res, res.tobytes()])
                return {"fields": [{"name": n, "dtype": res.dtype[n].str.lstrip("<=|"), "shape": list(res.shape),
                                    "data": [impl_px(res.dtype[n].str.lstrip("<=|"), v) for v in res[n].ravel()]}
                                   for n in res.dtype.names]}
            except Exception as e:
                return {"raises": exc_class(e), "msg": str(e)[:200]}

        got = call(args.offsets)
        unchanged = args.unchanged()
        again = None
        if case.get("repeat"):
            again = call(args.offsets)
            unchanged = unchanged and args.unchanged()
            feats.add("calls:second-call-on-same-objects")
        # results handed out earlier stay as they were; writing into a result does not reach an input
        results_ok = all(r.tobytes() == b for r, b in kept)
        if len(kept) > n_before and kept[n_before][0].size and kept[n_before][0].flags.writeable:
            mine = kept[n_before]
            aliased = any(np.shares_memory(mine[0], b) for _, b in args.pairs)
            scribble(mine[0])
            mine[1] = mine[0].tobytes()
            results_ok = results_ok and not aliased and args.unchanged()
        rep = ctx.driver.call("c11.structuredD", mode=mode, fill=dfill, ndim=ndim,
                              arrays=[{"off": a["off"], "shape": a["shape"],
                                       "fields": [{"name": f["name"], "dtype": f.get("dtype", "f8"), "data": enc_data(f["data"])}
                                                  for f in a["fields"]]}
                                      for a in case["arrays"]])

        def conv(r):
            if r is None:
                return None
            if isinstance(r, dict) and "raises" in r:
                return {"raises": r["raises"]}
            fs = r["fields"] if isinstance(r, dict) else r
            return {"fields": [{"name": f["name"], "dtype": f["dtype"], "shape": f["shape"],
                                "data": [canon_px(f["dtype"], v) for v in f["data"]]} for f in fs]}

        model, dspec, plain = conv(rep["model"]), conv(rep["spec"]), conv(rep["plainSpec"])
        # pixels the model marks undefined (NaN cast to an integer) are not compared
        def mask(g):
            if "fields" in g and "fields" in model and len(g["fields"]) == len(model["fields"]):
                for gf, mf in zip(g["fields"], model["fields"]):
                    if gf["name"] == mf["name"] and len(gf["data"]) == len(mf["data"]):
                        gf["data"] = ["undef" if m == "undef" else x for x, m in zip(gf["data"], mf["data"])]
                        if "undef" in mf["data"]:
                            feats.add("dtype:nan-cast-to-int-masked")
            return g

        got = mask(got)
        impl_cmp = {k: v for k, v in got.items() if k != "msg"}
        if again is not None:
            again = {k: v for k, v in mask(again).items() if k != "msg"} == impl_cmp
        for nm in first_dt:
            feats |= value_feats([{"off": a["off"], "shape": a["shape"], "data": f["data"], "negzero": f.get("negzero", False)}
                                  for a in case["arrays"] for f in a["fields"] if f["name"] == nm],
                                 lo, [h - l for l, h in zip(lo, hi)], case["fill"], mode)
        feats |= geom_feats(case["arrays"])
        # the property speaks of the union of field names, not of their order
        key = lambda r: {"fields": sorted(r["fields"], key=lambda f: f["name"])} if r and "fields" in r else r
        dts = {f.get("dtype", "f8") for a in case["arrays"] for f in a["fields"]}
        names = {f["name"] for a in case["arrays"] for f in a["fields"]}
        feats.add("disjoint-fields" if any(set(f["name"] for f in a["fields"]) != names for a in case["arrays"]) else "same-fields")
        sets = [[f["name"] for f in a["fields"]] for a in case["arrays"]]
        if len(sets) > 1:
            if set(sets[0]) != names:
                feats.add("fields:missing-from-first")
            if set(sets[-1]) != names:
                feats.add("fields:missing-from-last")
            if any(set(x) != names for x in sets[1:-1]):
                feats.add("fields:missing-from-middle")
            if any(not set(x) & set(y) for x in sets for y in sets):
                feats.add("fields:two-inputs-share-no-name")
            for x in sets:
                for y in sets:
                    common = [n for n in x if n in y]
                    if common != [n for n in y if n in x]:
                        feats.add("fields:order-differs-between-inputs")
            first_seen = []
            for x in sets:
                first_seen += [n for n in x if n not in first_seen]
            if first_seen != sorted(first_seen):
                feats.add("fields:union-not-in-name-order")
        by_name = {}
        for a in case["arrays"]:
            for f in a["fields"]:
                by_name.setdefault(f["name"], set()).add(f.get("dtype", "f8"))
        clash = any(len(v) > 1 for v in by_name.values())
        hyp = True
        if plain is not None:
            spec = plain  # all float64: the right-hand side of theorem structured_whole
        else:
            feats |= {"dtype:" + d for d in dts}
            spec = dspec
            if clash:
                feats.add("dtype:same-name-two-dtypes")
            if "raises" in model:
                if not clash:
                    # an integer canvas (mean mode, or NaN fill with mean/sum): which exception, and whether any, is an
                    # accident of the NumPy calls used, nothing the property speaks of: recorded, not compared
                    return outcome({"result": impl_cmp}, {"result": model}, {"result": dspec}, spec_ok=True, model_ok=True,
                                   undetermined=True, hyp=False,
                                   features=feats | {"dtype:integer-canvas-raises-" + model["raises"] + "(not compared)"})
                feats.add("dtype:clash-raises-" + model["raises"])
                if DTYPE_CLASH_IN_SCOPE:
                    spec = {"expected": "one merged field per name, no exception"}
                else:
                    hyp = False  # no statement of the property about this call
                    if impl_cmp != model:
                        # e.g. a rewrite that merges the fields by name: outside every clause of the property, recorded only
                        return outcome({"result": impl_cmp}, {"result": model}, {"result": dspec}, spec_ok=True, model_ok=True,
                                       undetermined=True, hyp=False,
                                       features=feats | {"dtype:clash-handled-differently-from-model(recorded only)"})
        meta_i = meta_s = None
        if case.get("meta") and not variant and "fields" in got:
            # the same merge translated, and with the inputs in every order (<= 4 inputs): each judged against the Lean
            # specification of that call, per field (theorems structured_translation_invariant / structured_perm_invariant
            # say the specifications agree)
            t = case["meta"]["t"]
            base = {k: v for k, v in case.items() if k not in ("meta", "repeat")}

            def judged_ok(c):
                o = self.eval_structured(register, c, ctx, set(), variant=True)
                return True if o["undetermined"] else bool(o["spec_ok"] and o["model_ok"])

            moved = {**base, "arrays": [{**a, "off": [o + d for o, d in zip(a["off"], t)]} for a in case["arrays"]]}
            meta_i = {}
            if not self.outside(moved):
                meta_i["translation"] = judged_ok(moved)
                feats.add("meta:translation")
            cells = len(names)
            for l, h in zip(lo, hi):
                cells *= h - l
            if len(case["arrays"]) <= 4 and cells <= 30000:
                meta_i["permutations"] = all(judged_ok({**base, "arrays": list(p)}) for p in itertools.permutations(case["arrays"]))
                feats.add("meta:permutations")
            meta_s = {k: True for k in meta_i}
        if case.get("then") and not variant and "fields" in got:
            # the caller edits field values of the same image objects in place and merges again (other mode / fill)
            cur = {k: v for k, v in case.items() if k not in ("meta", "repeat", "then")}
            cur["arrays"] = [{**a, "fields": [{**f, "data": list(f["data"])} for f in a["fields"]]} for a in case["arrays"]]
            same = {}
            for i, (v, _) in enumerate(args.pairs):
                same.setdefault(id(v), []).append(i)
            hist = []
            for st in case["then"]:
                for i, nm, k, v in st.get("edits", []):
                    if i >= len(cur["arrays"]):
                        continue
                    fl = [f for f in cur["arrays"][i]["fields"] if f["name"] == nm]
                    if not fl or k >= len(fl[0]["data"]):
                        continue
                    view = args.pairs[i][0]
                    ro = not view.flags.writeable
                    if ro:
                        view.flags.writeable = True
                    view[nm][np.unravel_index(k, view.shape)] = fval(v, fl[0].get("negzero", False))
                    if ro:
                        view.flags.writeable = False
                    for j in same[id(view)]:
                        for f in cur["arrays"][j]["fields"]:
                            if f["name"] == nm:
                                f["data"][k] = v
                cur = {**cur, "mode": st.get("mode", cur["mode"]), "fill": st.get("fill", cur["fill"])}
                o = self.eval_structured(register, cur, ctx, set(), variant=True, session=args)
                hist.append(True if o["undetermined"] else bool(o["spec_ok"] and o["model_ok"]))
            meta_i = {**(meta_i or {}), "history": hist}
            meta_s = {**(meta_s or {}), "history": [True] * len(hist)}
            feats.add("history:edit-then-merge-again")
        outside = self.outside(case)
        if outside:
            differs = {"outside:differs-from-model(recorded only)"} if core.canon(impl_cmp) != core.canon(model) else set()
            return outcome({"result": impl_cmp}, {"result": model}, {"result": key(spec)}, spec_ok=True, model_ok=True,
                           undetermined=True, hyp=False, features=feats | differs | {"outside:" + o + "(recorded only)" for o in outside})
        impl = {"result": impl_cmp, "inputs_unchanged": unchanged, "results_are_the_callers": results_ok, "meta": meta_i}
        extra = {"results_are_the_callers": True}
        if again is not None:  # the second call on the same objects returned the same
            impl["second_call_same"] = again
            extra["second_call_same"] = True
        spec_ok = (unchanged and results_ok and again is not False and (meta_i == meta_s)
                   and (not hyp or core.canon(key(impl_cmp)) == core.canon(key(spec))))
        model_ok = unchanged and results_ok and again is not False and core.canon(impl_cmp) == core.canon(model)
        return outcome(impl, {"result": model, "inputs_unchanged": True, "meta": meta_s, **extra},
                       {"result": key(spec), "inputs_unchanged": True, "meta": meta_s, **extra},
                       spec_ok=spec_ok, model_ok=model_ok, hyp=hyp, features=feats)

    def known(self, case, out):
        # only reachable with DTYPE_CLASH_IN_SCOPE = True: the ValueError on one field name with two dtypes
        if case.get("kind") == "structured":
            by_name = {}
            for a in case["arrays"]:
                for f in a["fields"]:
                    by_name.setdefault(f["name"], set()).add(f.get("dtype", "f8"))
            if any(len(v) > 1 for v in by_name.values()):
                return "C11-structured-dtype-clash"
        return None

    def shrink(self, case):
        arrs = case["arrays"]
        if len(arrs) > 8:  # long lists: drop halves, quarters, ... before single arrays
            n = len(arrs)
            k = n // 2
            while k >= 4:
                for start in range(0, n, k):
                    yield {**case, "arrays": arrs[:start] + arrs[start + k:]}
                k //= 2
            return
        if len(arrs) > 1:
            for i in range(len(arrs)):
                yield {**case, "arrays": arrs[:i] + arrs[i + 1:]}
        for k in ("meta", "repeat", "share_objects", "offs_kind", "arrs_kind", "fill_kind", "mode_kind"):  # legs and options the failure does not need
            if k in case:
                yield {k2: v for k2, v in case.items() if k2 != k}
        for i, a in enumerate(arrs):
            for k in ("layout", "negzero", "dtype"):
                if k in a:
                    yield {**case, "arrays": arrs[:i] + [{k2: v for k2, v in a.items() if k2 != k}] + arrs[i + 1:]}
        # histories: fewer calls, fewer edits; the second merge of a tiling; infinite values made finite
        if case.get("then"):
            then = case["then"]
            yield {**case, "then": then[:-1]} if len(then) > 1 else {k: v for k, v in case.items() if k != "then"}
            for j, st in enumerate(then):
                for e in range(len(st.get("edits", []))):
                    yield {**case, "then": then[:j] + [{**st, "edits": st["edits"][:e] + st["edits"][e + 1:]}] + then[j + 1:]}
        if case.get("feed"):
            yield {k: v for k, v in case.items() if k != "feed"}
            if len(case["feed"]) > 1:
                yield {**case, "feed": case["feed"][:-1]}
        if case["kind"] == "plain" and any(isinstance(v, str) for a in arrs for v in a["data"]):
            yield {**case, "arrays": [{**a, "data": [4 if v == "inf" else -4 if v == "-inf" else v for v in a["data"]]} for a in arrs]}
        if case["kind"] == "plain":
            for i, a in enumerate(arrs):
                for ax in range(case["ndim"]):
                    if a["shape"][ax] > 1:
                        arr = np.array(a["data"], dtype=object).reshape(a["shape"])
                        sl = [slice(None)] * case["ndim"]
                        sl[ax] = slice(0, a["shape"][ax] - 1)
                        sub = arr[tuple(sl)]
                        b = {**a, "shape": list(sub.shape), "data": list(sub.ravel())}
                        yield {**case, "arrays": arrs[:i] + [b] + arrs[i + 1:]}
            # remove a large common translation (all arrays together, so the box stays small)
            mins = [min(a["off"][k] for a in arrs) for k in range(case["ndim"])]
            if any(abs(m) > 5 for m in mins):
                yield {**case, "arrays": [{**a, "off": [o - m for o, m in zip(a["off"], mins)]} for a in arrs]}


PROP = C11()

if __name__ == "__main__":
    sys.exit(core.main(PROP, "harness.c11"))
