"""C11 — merging images by offset: pewlib.process.register.overlap_arrays / overlap_structured_arrays
against PewModel/Overlap.lean (mechanism `mech`, specification `spec`)."""
import math
import sys
from fractions import Fraction

import numpy as np

from harness import core
from harness.core import Prop, outcome, orat, unrat


def fhex(v) -> str:
    """canonical float: NaN -> 'nan', zeros unsigned, else the exact hex form"""
    v = float(v)
    if math.isnan(v):
        return "nan"
    if v == 0.0:
        return "0"
    return v.hex()


def qhex(j) -> str:
    """driver value (null | [num, den]) -> canonical float after correct rounding"""
    q = unrat(j)
    return "nan" if q is None else fhex(float(q))


def val(x):
    return None if x is None else float(Fraction(x[0], x[1]))


def to_np(a, ndim):
    arr = np.array([math.nan if v is None else v / 4 for v in a["data"]], dtype=np.float64)
    return arr.reshape(a["shape"])


def enc_data(data):
    return [None if v is None else core.rat(Fraction(v, 4)) for v in data]


class C11(Prop):
    id = "C11"
    anchored = ["src/pewlib/process/register.py"]
    cases = {"quick": 400, "thorough": 12000}
    rule = ("random lists of 1..6 arrays (1-3 D, sides 1..4, offsets -5..5, dyadic values k/4, NaNs incl. whole arrays), "
            "fills NaN/0/finite, three modes, plain and structured; non-trivial = some pixel receives >=2 contributions, "
            "or a NaN-only covered pixel, or an uncovered pixel; distinct by canonical case hash")
    trusted = ["np.nansum/np.full/boolean-mask assignment as documented; float sums of the generated dyadic values are exact, "
               "the mean's single division is correctly rounded (compared with float(Fraction))"]

    def gen_array(self, rng, ndim, allnan=False):
        shape = [rng.randint(1, 4) for _ in range(ndim)]
        size = int(np.prod(shape))
        pnan = 1.0 if allnan else rng.choice([0.0, 0.0, 0.15, 0.5])
        data = [None if rng.random() < pnan else rng.randint(-20, 20) for _ in range(size)]
        return {"off": [rng.randint(-5, 5) for _ in range(ndim)], "shape": shape, "data": data}

    def generate(self, rng, tier):
        ndim = rng.choice([1, 2, 2, 2, 3])
        n = rng.choice([1, 2, 2, 3, 3, 4, 5, 6])
        mode = rng.choice(["replace", "mean", "sum"])
        fill = rng.choice([None, None, 0, 40, -7, 1])  # quarters: 10.0, -1.75, 0.25
        structured = rng.random() < 0.25
        case = {"kind": "structured" if structured else "plain", "ndim": ndim, "mode": mode, "fill": fill}
        if structured:
            names = ["A", "B", "C"]
            arrs = []
            for _ in range(n):
                a = self.gen_array(rng, ndim)
                k = rng.randint(1, 3)
                fields = rng.sample(names, k)
                size = len(a["data"])
                a["fields"] = [{"name": f, "data": [None if rng.random() < 0.15 else rng.randint(-20, 20) for _ in range(size)]}
                               for f in fields]
                del a["data"]
                arrs.append(a)
            case["arrays"] = arrs
        else:
            case["arrays"] = [self.gen_array(rng, ndim, allnan=rng.random() < 0.08) for _ in range(n)]
            if rng.random() < 0.25:  # a common translation, also large and beyond the exactly representable doubles
                big = rng.random() < 0.4
                t = [rng.choice([2 ** 53, -(2 ** 53), 2 ** 53 + 2, 3 - 2 ** 55, 2 ** 56 + 1, -(2 ** 57) + 5]) + rng.randint(-3, 3)
                     if big else rng.randint(-1000, 1000) for _ in range(ndim)]
                for a in case["arrays"]:
                    a["off"] = [o + d for o, d in zip(a["off"], t)]
        return case

    def many(self, n, mode, fill):
        """n one-pixel images on one pixel of a 1x2 base (visit counters of any width must not wrap)"""
        arrs = [{"off": [0, 0], "shape": [1, 2], "data": [8, None]}]
        arrs += [{"off": [0, 0], "shape": [1, 1], "data": [(i % 7) * 4]} for i in range(n)]
        return {"kind": "plain", "ndim": 2, "mode": mode, "fill": fill, "arrays": arrs}

    def targeted(self, tier):
        # many contributions to one pixel: past 2^8 always, past 2^16 in the thorough tier
        for n in ([255, 256, 257] if tier == "quick" else [255, 256, 257, 65535, 65536]):
            for mode in ("mean", "sum"):
                yield self.many(n, mode, None if n % 2 else 40)
        ones = {"off": [0, 0], "shape": [2, 2], "data": [4, 4, 4, 4]}
        twos = {"off": [1, 1], "shape": [2, 2], "data": [8, 8, 8, 8]}
        nanarr = {"off": [1, 1], "shape": [2, 2], "data": [None, 8, 8, None]}
        for mode in ("replace", "mean", "sum"):
            for fill in (None, 0, 40):
                yield {"kind": "plain", "ndim": 2, "mode": mode, "fill": fill, "arrays": [ones, twos]}
                yield {"kind": "plain", "ndim": 2, "mode": mode, "fill": fill, "arrays": [ones, nanarr]}
                yield {"kind": "plain", "ndim": 2, "mode": mode, "fill": fill, "arrays": [nanarr]}
                yield {"kind": "plain", "ndim": 1, "mode": mode, "fill": fill,
                       "arrays": [{"off": [3], "shape": [1], "data": [5]}, {"off": [-3], "shape": [2], "data": [None, 7]},
                                  {"off": [3], "shape": [1], "data": [9]}]}

    def evaluate(self, case, ctx):
        from pewlib.process import register

        # the canvas is the bounding box: a case (e.g. derived by a shrinker) whose box is astronomically large cannot
        # be evaluated by anyone; it is outside what this check explores
        lo = [min(a["off"][k] for a in case["arrays"]) for k in range(case["ndim"])]
        hi = [max(a["off"][k] + a["shape"][k] for a in case["arrays"]) for k in range(case["ndim"])]
        cells = 1
        for l, h in zip(lo, hi):
            cells *= h - l
        if cells > 2_000_000:
            return outcome({"excluded": "canvas too large"}, None, None, spec_ok=True, model_ok=True, undetermined=True,
                           hyp=False, features=["excluded:canvas-too-large"])
        ndim, mode = case["ndim"], case["mode"]
        fill = math.nan if case["fill"] is None else case["fill"] / 4
        dfill = None if case["fill"] is None else core.rat(Fraction(case["fill"], 4))
        offsets = [tuple(a["off"]) for a in case["arrays"]]
        feats = {f"ndim{ndim}", f"mode:{mode}", "fill:" + ("nan" if case["fill"] is None else "zero" if case["fill"] == 0 else "finite"),
                 f"n{len(case['arrays'])}", case["kind"]}
        if case["kind"] == "plain":
            arrays = [to_np(a, ndim) for a in case["arrays"]]
            before = [a.copy() for a in arrays]
            offs_before = [tuple(o) for o in offsets]
            try:
                res = register.overlap_arrays(arrays, offsets, fill=fill, mode=mode)
                impl = {"shape": list(res.shape), "data": [fhex(v) for v in res.ravel()]}
            except Exception as e:  # the quantified inputs never raise
                impl = {"raises": type(e).__name__, "msg": str(e)[:200]}
            impl["inputs_unchanged"] = all(np.array_equal(x, y, equal_nan=True) for x, y in zip(arrays, before)) \
                and [tuple(o) for o in offsets] == offs_before
            rep = ctx.driver.call("c11.overlap", mode=mode, fill=dfill, ndim=ndim,
                                  arrays=[{"off": a["off"], "shape": a["shape"], "data": enc_data(a["data"])} for a in case["arrays"]])
            model = {"shape": rep["shape"], "data": [qhex(v) for v in rep["model"]], "inputs_unchanged": True}
            spec = {"shape": rep["shape"], "data": [qhex(v) for v in rep["spec"]], "inputs_unchanged": True}
            # feature classification from the driver's own per-pixel contributions is not available; use numpy counts
            cover = np.zeros(rep["shape"], dtype=int)
            cover_any = np.zeros(rep["shape"], dtype=int)
            mo = np.min(np.array(offsets), axis=0)
            for a, arr in zip(case["arrays"], arrays):
                sl = tuple(slice(o - m, o - m + s) for o, m, s in zip(a["off"], mo, a["shape"]))
                cover[sl] += ~np.isnan(arr)
                cover_any[sl] += 1
            if (cover >= 2).any():
                feats.add("overlap>=2")
            if ((cover == 0) & (cover_any > 0)).any():
                feats.add("nan-only-pixel")
            if (cover_any == 0).any():
                feats.add("uncovered-pixel")
            if any(min(a["off"]) < 0 for a in case["arrays"]):
                feats.add("negative-offset")
            if any(all(v is None for v in a["data"]) for a in case["arrays"]):
                feats.add("whole-nan-array")
            if any(abs(o) >= 2 ** 53 for a in case["arrays"] for o in a["off"]):
                feats.add("offset>=2^53")
            if len(case["arrays"]) > 255:
                feats.add("contributions>255" if len(case["arrays"]) < 60000 else "contributions>=65535")
            nontrivial = {"overlap>=2", "nan-only-pixel", "uncovered-pixel"} & feats
            return outcome(impl, model, spec, features=feats if nontrivial else [])
        else:
            arrays = []
            for a in case["arrays"]:
                dt = [(f["name"], np.float64) for f in a["fields"]]
                arr = np.empty(a["shape"], dtype=dt)
                for f in a["fields"]:
                    arr[f["name"]] = np.array([math.nan if v is None else v / 4 for v in f["data"]]).reshape(a["shape"])
                arrays.append(arr)
            before = [a.copy() for a in arrays]
            try:
                res = register.overlap_structured_arrays(arrays, offsets, fill=fill, mode=mode)
                impl_fields = [{"name": n, "shape": list(res.shape), "data": [fhex(v) for v in res[n].ravel()]} for n in res.dtype.names]
            except Exception as e:
                impl_fields = [{"raises": type(e).__name__, "msg": str(e)[:200]}]
            unchanged = all(x.tobytes() == y.tobytes() for x, y in zip(arrays, before))
            rep = ctx.driver.call("c11.structured", mode=mode, fill=dfill, ndim=ndim,
                                  arrays=[{"off": a["off"], "shape": a["shape"],
                                           "fields": [{"name": f["name"], "data": enc_data(f["data"])} for f in a["fields"]]}
                                          for a in case["arrays"]])
            conv = lambda fs: [{"name": f["name"], "shape": f["shape"], "data": [qhex(v) for v in f["data"]]} for f in fs]
            model, spec = conv(rep["model"]), conv(rep["spec"])
            # the property speaks of the union of field names, not of their order
            key = lambda fs: sorted(fs, key=lambda f: f.get("name", ""))
            impl = {"fields": impl_fields, "inputs_unchanged": unchanged}
            names = {f["name"] for a in case["arrays"] for f in a["fields"]}
            feats.add("disjoint-fields" if any(set(f["name"] for f in a["fields"]) != names for a in case["arrays"]) else "same-fields")
            return outcome(impl, {"fields": model, "inputs_unchanged": True}, {"fields": key(spec), "inputs_unchanged": True},
                           spec_ok=(core.canon(key(impl_fields)) == core.canon(key(spec)) and unchanged),
                           features=feats)

    def shrink(self, case):
        arrs = case["arrays"]
        if len(arrs) > 8:  # long lists: drop halves, quarters, ... before single arrays
            n = len(arrs)
            k = n // 2
            while k >= 4:
                for start in range(0, n, k):
                    yield {**case, "arrays": arrs[:start] + arrs[start + k:]}
                k //= 2
            return
        if len(arrs) > 1:
            for i in range(len(arrs)):
                yield {**case, "arrays": arrs[:i] + arrs[i + 1:]}
        if case["kind"] == "plain":
            for i, a in enumerate(arrs):
                for ax in range(case["ndim"]):
                    if a["shape"][ax] > 1:
                        arr = np.array(a["data"], dtype=object).reshape(a["shape"])
                        sl = [slice(None)] * case["ndim"]
                        sl[ax] = slice(0, a["shape"][ax] - 1)
                        sub = arr[tuple(sl)]
                        b = {"off": a["off"], "shape": list(sub.shape), "data": list(sub.ravel())}
                        yield {**case, "arrays": arrs[:i] + [b] + arrs[i + 1:]}
            # remove a large common translation (all arrays together, so the box stays small)
            mins = [min(a["off"][k] for a in arrs) for k in range(case["ndim"])]
            if any(abs(m) > 5 for m in mins):
                yield {**case, "arrays": [{**a, "off": [o - m for o, m in zip(a["off"], mins)]} for a in arrs]}


PROP = C11()

if __name__ == "__main__":
    sys.exit(core.main(PROP, "harness.c11"))
