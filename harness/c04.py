"""C04 — per-line CSV directory import keeps acquisition order under any schedule:
pewlib.io.csv.load(dir, full=True) against PewModel/CsvDir.lean (mechanism `load`, specification `specLoad`).

In-process substitutions, all restored in `finally`: the result of `Path.glob` on the case
directory is put into the case's listing order; `pewlib.io.csv.ProcessPoolExecutor` is replaced by
an executor that completes its tasks in the case's completion order; `TZ` + `time.tzset()`.
"""
import calendar
import concurrent.futures
import itertools
import logging
import math
import os
import pathlib
import random
import re
import shutil
import sys
import time
import warnings
from fractions import Fraction

from harness import core, gen_csvdir
from harness.core import Prop, outcome, InternalError

MARGIN = Fraction(1, 10 ** 6)  # a rounding decision closer than this to a tie is undetermined


def fhex(v) -> str:
    v = float(v)
    if math.isnan(v):
        return "nan"
    if v == 0.0:
        return "0"
    return v.hex()


# ----------------------------------------------------------------------------- substitutions
class _Future(concurrent.futures.Future):
    def __init__(self, ex, fn, args, kwargs):
        super().__init__()
        self._ex, self._task = ex, (fn, args, kwargs)

    def result(self, timeout=None):
        self._ex._drain()
        return super().result(timeout)

    def exception(self, timeout=None):
        self._ex._drain()
        return super().exception(timeout)

    def done(self):
        self._ex._drain()
        return super().done()


class FakeExecutor:
    """stands in for ProcessPoolExecutor: tasks run in-process, in the completion order `order`
    (indices into the submission sequence), when the pool is shut down or a result is first needed"""
    order = []

    def __init__(self, *a, **k):
        import threading

        self.futures, self.ran = [], 0
        self._lock = threading.RLock()
        self._helper, self._last, self._closed = None, 0.0, False

    def _idle_drain(self):
        while not self._closed:
            time.sleep(0.02)
            if time.monotonic() - self._last >= 0.02:
                self._drain()
                return

    def submit(self, fn, /, *args, **kwargs):
        import threading

        f = _Future(self, fn, args, kwargs)
        self.futures.append(f)
        # a caller that blocks in concurrent.futures.as_completed / wait never asks a future for its result, so the
        # tasks must also complete on their own: once no task has been submitted for a moment they are run (in the
        # chosen completion order) on a helper thread (one per executor)
        self._last = time.monotonic()
        if self._helper is None or not self._helper.is_alive():
            self._helper = threading.Thread(target=self._idle_drain, daemon=True)
            self._helper.start()
        return f

    def map(self, fn, *iterables, timeout=None, chunksize=1):
        fs = [self.submit(fn, *a) for a in zip(*iterables)]
        return (f.result() for f in fs)

    def _drain(self):
        with self._lock:
            n = len(self.futures)
            todo = [i for i in type(self).order if i < n] + [i for i in range(n) if i not in type(self).order]
            for i in todo:
                f = self.futures[i]
                if f._task is None:
                    continue
                fn, args, kwargs = f._task
                f._task = None
                try:
                    f.set_result(fn(*args, **kwargs))
                except BaseException as e:  # delivered to the caller of result()
                    f.set_exception(e)

    def shutdown(self, wait=True, cancel_futures=False):
        self._drain()
        self._closed = True

    def __enter__(self):
        return self

    def __exit__(self, *exc):
        self.shutdown()
        return False


class substitutions:
    def __init__(self, d, listing, order, tz):
        self.d, self.listing, self.order, self.tz = d, {n: i for i, n in enumerate(listing)}, order, tz

    def __enter__(self):
        import pewlib.io.csv as pcsv

        self.pcsv = pcsv
        self.old_glob = pathlib.Path.glob
        self.old_exec = getattr(pcsv, "ProcessPoolExecutor", None)
        self.old_tz = os.environ.get("TZ")
        old_glob, d, listing = self.old_glob, self.d, self.listing

        def glob(self_, pattern, **kw):
            res = list(old_glob(self_, pattern, **kw))
            if self_ == d:
                res.sort(key=lambda p: listing.get(p.name, len(listing)))
            return iter(res)

        pathlib.Path.glob = glob
        FakeExecutor.order = list(self.order)
        if self.old_exec is not None:
            pcsv.ProcessPoolExecutor = FakeExecutor
        os.environ["TZ"] = self.tz
        time.tzset()
        logging.disable(logging.WARNING)  # "y_[um] not found ..." of readParams
        return self

    def __exit__(self, *exc):
        logging.disable(logging.NOTSET)
        pathlib.Path.glob = self.old_glob
        if self.old_exec is not None:
            self.pcsv.ProcessPoolExecutor = self.old_exec
        if self.old_tz is None:
            os.environ.pop("TZ", None)
        else:
            os.environ["TZ"] = self.old_tz
        time.tzset()
        return False


# ----------------------------------------------------------------------------- canonical forms
def canon_image(names, lines):
    """lines[k][j][c] exact rationals / None"""
    shape = [len(lines), len(lines[0]) if lines else 0]
    return {"names": list(names), "shape": shape, "lines": lines}


def impl_result(data, params, bits=False):
    import numpy as np

    names = list(data.dtype.names or [])
    if data.ndim != 2:
        return {"bad_ndim": data.ndim, "names": names}
    lines = [[[core.orat(float(data[n][k, j])) for n in names] for j in range(data.shape[1])] for k in range(data.shape[0])]
    img = canon_image(names, lines)
    img["shape"] = list(data.shape)
    if bits:  # the bit pattern of every value (sign of zero): see C04.written_bits
        img["bits"] = [[["nan" if math.isnan(float(data[n][k, j])) else float(data[n][k, j]).hex() for n in names]
                        for j in range(data.shape[1])] for k in range(data.shape[0])]
    p = {}
    for k, v in params.items():
        vs = list(v) if isinstance(v, (tuple, list, np.ndarray)) else [v]
        p[str(k)] = [fhex(x) for x in vs]
    return {"image": img, "params": p}


def driver_result(r):
    """-> (canonical result, set of (param, index) whose rounding decision is within MARGIN of a tie)"""
    if "raises" in r:
        return {"raises": r["raises"]}, set()
    img = canon_image(r["image"]["names"], r["image"]["lines"])
    p, und = {}, set()
    for e in r["params"]:
        vals = []
        for i, v in enumerate(e["vals"]):
            q = core.unrat(v["val"])
            vals.append("nan" if q is None else fhex(float(q)))
            m = core.unrat(v["margin"])
            if m is not None and m < MARGIN:
                und.add((e["name"], i))
        p[e["name"]] = vals
    return {"image": img, "params": p}, und


def blank(res, und):
    if "params" not in res or not und:
        return res
    p = {k: list(v) for k, v in res["params"].items()}
    for k, i in und:
        if k in p and i < len(p[k]):
            p[k][i] = "~"
    return {**res, "params": p}


HISTORY_SHARE = 0.17  # of the generated cases: histories of 2-4 calls, every call judged
KEPT_MTIME_NS = 1_600_000_000 * 10 ** 9  # the instant "kept" modification times are set to


def OPTION_CLASS(pcsv, vendor):
    return {"nu": pcsv.NuOption, "ldr": pcsv.ThermoLDROption, "tofwerk": pcsv.TofwerkOption, "generic": pcsv.GenericOption}[vendor]


PATTERNS = {"nu": r"line_\d+\.csv", "ldr": r"\w*_ldr_\d+\.csv", "tofwerk": r"\w+?([0-9.]+-\d\dh\d\dm\d\ds).*\.csv",
            "generic": r".*\.csv"}


class C04(Prop):
    id = "C04"
    anchored = ["src/pewlib/io/csv.py"]
    cases = {"quick": 1150, "thorough": 22000}
    rule = ("synthetic directories in the Nu / iCap LDR / TOFWERK / generic layouts (1..8 line files, numbers 9/10/11/100, "
            "plain / zero-padded / per-file (mixed) padding of the index, LDR sample names with digits and the lines of two "
            "samples in one directory, unequal lengths, 1..4 elements, distractor / hidden / directory entries, shuffled "
            "listing, shuffled task completion (targeted: EVERY completion order of directories of up to 5 files - thorough, "
            "x 5 time zones; up to 3 files - quick), 5 time zones with stamps around DST transitions, month/day written with "
            "one digit, a few stamps outside the valid ones (not judged, agreement with the model counted), explicit and "
            "auto-detected option; 40% of the cases "
            "with an explicit option object first import one or two primer directories of the same layout - other line "
            "count / element set / helper columns, element or helper columns empty in every line, or the real directory "
            "itself - through the SAME option instance, and the import that follows is compared with the specification "
            "of the real directory alone) plus batches of "
            "file names on which the model's matchers, filter, sort and the order its sort keys induce (which names have a "
            "key, how neighbouring keys compare) are compared with the real option.regex / option.filter / option.sort / "
            "option.sortkey (TOFWERK: under 5 TZ settings) of the four options; 17% of the cases are HISTORIES of 2-4 calls in "
            "one process, every call judged against the specification of the directory as it is on disk at that call: the same "
            "path rewritten (other vendor layout / same file names with another header or other values / other line count, "
            "modification times kept or not), a second path, the directory left unchanged, calls without an option "
            "(option_for_path), with option_for_path's result, with one shared or a new option instance, load(path) without "
            "full (made, not judged), the caller overwriting the returned image / params and editing attributes of its own "
            "option instance or of the object option_for_path returned (the latter recorded only); the model side of a "
            "history is the Lean world model (trace) run on the whole history; plus 64 deterministic histories; values with "
            "a negative zero are compared bit for bit through cell identities; path given as Path or str, directory names "
            "with dots / spaces / vendor-like / hidden; 14 time zones; indices of 5..21 digits; non-trivial = at least two "
            "line files or a distractor or a judged history; distinct by case hash")
    trusted = [
        "np.genfromtxt parses a written table to the values float(token) (NaN for unparsable/empty tokens) and names the "
        "fields as the writer expects (spaces -> '_', quotes deleted for TOFWERK, empty -> f0); np.stack/np.delete/"
        "rfn.drop_fields/np.median/np.diff/np.round as documented",
        "Python: sorted is stable, re / pathlib.PurePath.stem / str.isdigit / str.lower / tuple and Path comparison / "
        "time.strptime / calendar.timegm on ASCII names (the Lean matchers, stem, keys, filter and sort are compared with the "
        "real option objects on generated names in every run)",
        "a future returns the result of its own task; the substituted executor completes tasks in the chosen order",
        "scantime/spotsize: exact rational evaluation; a value whose unrounded exact value is within 1e-6 of a rounding "
        "tie is not compared (float evaluation error of diff/median/scale is far below that)",
    ]
    assumptions = [
        "file names are ASCII and no two differ in letter case only; all line files of one directory share their header; "
        "every line has at least two samples; Nu names are exactly line_<digits>.csv (nothing after .csv)",
        "acquisition order of an LDR directory that holds several sample names: grouped by lower-cased sample name (string "
        "order), then numeric line index - the order the code documents; the property text only names the line index",
        "TOFWERK stamps have the form YYYY.MM.DD-HHhMMmSSs (every field zero-padded) and are valid dates and times of day: a "
        "directory with a stamp time.strptime rejects (the import raises ValueError), with a leap-second stamp (seconds 60/61) "
        "or with a one-digit month / day (both accepted by time.strptime) is not judged; whether pewlib does what the model "
        "says there is only counted (feature stamp-out-of-domain:model-agrees / model-differs)",
        "an empty selection (no accepted file) is not compared (the property does not say what happens)",
        "histories: the result of importing a directory does not depend on earlier calls in the process (same or other "
        "path, same or other option object, objects returned earlier and edited by the caller); an option object the caller "
        "has edited is never passed to load again; a later call seeing the caller's edit of the object option_for_path "
        "returned is recorded only (an implementation may hand out one shared instance per vendor)",
        "an LDR directory in which every element column is empty (no element left in the image) is not judged",
    ]

    # ------------------------------------------------------------------ generation
    def generate(self, rng, tier):
        k = rng.random()
        if k < 0.08:
            return self.gen_names(rng)
        if k < 0.08 + HISTORY_SHARE:
            return gen_csvdir.gen_history(rng, tier)
        return gen_csvdir.generate(rng, tier)

    def gen_names(self, rng):
        alphabet = "line_LDR0123456789.csvCSVhms-_ xA.."
        pieces = ["line_", "LINE_", "_ldr_", "_LDR_", ".csv", ".CSV", ".Csv", "10", "9", "007", "2021.03.28", "-02h30m00s", "-10H10M10S",
                  "IMG_", "a", "_", ".", "-", " ", "x.y", ".bak", "csv", "1", "2021.1.5", "h", "m", "s", "s1", "S1", "B", "009",
                  "2021.02.30", "2021.13.01", "2020.02.29", "2021.6.30", "-23h59m60s", "-24h00m00s", "-10h60m00s", "0000.01.01",
                  "2021.010.1", "x_", "_ldr_10.csv", "_ldr_009.csv", "line_007.csv"]
        names = []
        for _ in range(40):
            k = rng.random()
            if k < 0.25:
                nm = "".join(rng.choice(alphabet) for _ in range(rng.randint(1, 14)))
            elif k < 0.8:
                nm = "".join(rng.choice(pieces) for _ in range(rng.randint(1, 7)))
            else:
                v = rng.choice(["nu", "ldr", "tofwerk"])
                nm = gen_csvdir.line_names(rng, v, 1, "UTC")[0][0]
                if rng.random() < 0.5:  # a one-character mutation
                    i = rng.randrange(len(nm))
                    nm = nm[:i] + rng.choice(alphabet) + nm[i + rng.choice([0, 1]):]
            if nm and "/" not in nm and nm not in (".", ".."):
                names.append(nm)
        return {"kind": "names", "names": names}

    def fixed_dir(self, vendor, names, seed, tz="UTC", feats=()):
        """a directory with the given line-file names (in listing order), tables drawn from a fixed seed"""
        rng = random.Random(seed)
        tables, f2 = gen_csvdir.make_tables(rng, vendor, len(names))
        entries = [{"name": nm, "type": "file", "role": "line", "eol": "\n", **t} for nm, t in zip(names, tables)]
        return {"kind": "load", "vendor": vendor, "auto": False, "tz": tz, "pi": list(reversed(range(len(names)))),
                "entries": entries, "gen_features": sorted(set(list(feats) + f2))}

    def targeted(self, tier):
        import random

        for i, vendor in enumerate(gen_csvdir.VENDORS):
            for n in (1, 2, 4):
                for auto in (False, True):
                    rng = random.Random(f"C04-targeted-{vendor}-{n}-{auto}")
                    c = gen_csvdir.generate(rng, tier)
                    while c["vendor"] != vendor or sum(e["role"] == "line" for e in c["entries"]) != n:
                        c = gen_csvdir.generate(rng, tier)
                    c["auto"] = auto
                    c["pi"] = list(reversed(range(n)))  # last submitted task completes first
                    c.pop("primers", None)
                    yield c
        # histories on one option object: a primer with an element column of the real directory empty in every line,
        # the real directory itself as primer, two primers
        for vendor in gen_csvdir.VENDORS:
            for want in ("primer-all-nan-element-of-real", "primer-same-dir", "two-primers", "primer-all-nan-helper"):
                if want == "primer-all-nan-helper" and vendor == "generic":
                    continue
                rng = random.Random(f"C04-targeted-history-{vendor}-{want}")
                while True:
                    c = gen_csvdir.generate(rng, tier)
                    if c["vendor"] == vendor and not c["auto"] and want in c["gen_features"] and "k1" not in c["gen_features"]:
                        break
                yield c
        yield from gen_csvdir.targeted_histories()
        # the LDR key repaired by 0a523e4 (all digits of the stem -> sample name, integer index): mixed zero padding,
        # digits in the sample name, the lines of two samples, one sample in two letter cases; Nu with mixed padding
        for vendor, names, feats in (
                ("ldr", ["s1_ldr_10.csv", "s1_ldr_009.csv"], ["mixed-padding", "prefix-digits"]),
                ("ldr", ["s1_ldr_10.csv", "s1_ldr_9.csv", "s1_ldr_011.csv", "s1_ldr_0100.csv"], ["mixed-padding", "prefix-digits"]),
                ("ldr", ["s2_ldr_1.csv", "s1_ldr_10.csv", "s1_ldr_9.csv", "s2_ldr_02.csv", "s10_ldr_3.csv"], ["two-samples", "prefix-digits"]),
                ("ldr", ["b_LDR_2.csv", "B_ldr_10.CSV", "a_ldr_11.csv", "b_ldr_009.csv"], ["two-samples", "sample-case-mix", "mixed-padding"]),
                ("ldr", ["a_ldr_1_ldr_10.csv", "a_ldr_1_ldr_9.csv", "a_ldr_2.csv"], ["two-samples", "prefix-digits"]),
                ("nu", ["line_10.csv", "line_007.csv", "LINE_9.CSV", "line_0100.csv"], ["mixed-padding"]),
                ("nu", ["line_010.csv", "line_9.csv"], ["mixed-padding"]),
                ("nu", ["line_9007199254740993.csv", "line_9007199254740992.csv", "line_18446744073709551616.csv", "line_99999.csv"],
                 ["index>=5digits"])):
            for rev in (False, True):
                yield self.fixed_dir(vendor, list(reversed(names)) if rev else names, f"C04-targeted-pad-{names}", feats=feats + ["lex!=num"])
        # a stamp time.strptime rejects: the import raises (compared with the model); one-digit month and day
        yield self.fixed_dir("tofwerk", ["IMG_2021.02.30-10h10m10s.csv", "IMG_2021.02.28-10h10m10s.csv"], "C04-targeted-bad", feats=["invalid-stamp"])
        yield self.fixed_dir("tofwerk", ["IMG_2021.06.30-23h59m60s.csv", "IMG_2021.07.01-00h00m00s.csv"], "C04-targeted-leap", feats=["leap-second-stamp"])
        yield self.fixed_dir("tofwerk", ["IMG_2021.10.2-10h10m10s.csv", "IMG_2021.9.30-10h10m10s.csv", "IMG_2021.09.3-10h10m10s.csv"],
                             "C04-targeted-short", feats=["short-date-fields"])
        # EVERY completion order of the reader tasks of one directory per layout and size
        nmax, zones = (5, gen_csvdir.ZONES) if tier == "thorough" else (3, ["UTC"])
        for vendor in gen_csvdir.VENDORS:
            for n in range(1, nmax + 1):
                rng = random.Random(f"C04-targeted-allorders-{vendor}-{n}")
                c = gen_csvdir.generate(rng, tier)
                while (c["vendor"] != vendor or sum(e["role"] == "line" for e in c["entries"]) != n
                       or {"invalid-stamp", "leap-second-stamp"} & set(c["gen_features"])):
                    c = gen_csvdir.generate(rng, tier)
                c.pop("primers", None)
                c["gen_features"] = sorted(set(c["gen_features"]) | {"all-completion-orders"})
                for tz in zones:
                    for pi in itertools.permutations(range(n)):
                        yield {**c, "tz": tz, "pi": list(pi)}
        # the DST defect repaired by 61edfa9: a stamp inside the spring gap and one shortly after it
        for tz, date, a, b in (("Europe/Berlin", "2021.03.28", "02h30m00s", "03h10m00s"),
                               ("America/New_York", "2021.03.14", "02h45m10s", "03h05m00s"),
                               ("Australia/Lord_Howe", "2021.10.03", "02h20m00s", "02h40m00s")):
            for order in ((0, 1), (1, 0)):
                ents = [{"name": f"IMG_{date}-{s}_AS.csv", "type": "file", "role": "line", "header": ["'A'", "t_elapsed_Buf"],
                         "names": ["A", "t_elapsed_Buf"], "rows": [[str(10 * k + j), repr(0.1 * (j + 1))] for j in range(3)]}
                        for k, s in enumerate((a, b))]
                yield {"kind": "load", "vendor": "tofwerk", "auto": False, "tz": tz, "pi": [1, 0],
                       "entries": [ents[i] for i in order], "gen_features": ["dst-gap"]}
        # sweep of the stamp -> seconds conversion over the transition days (model timegm vs calendar.timegm)
        step = 7 if tier == "thorough" else 211
        for _, date, _, _, _ in gen_csvdir.TRANSITIONS:
            yield {"kind": "names", "names": [f"I_{gen_csvdir.stamp(date, s)}.csv" for s in range(0, 86400, step)]}

    # ------------------------------------------------------------------ evaluation
    @staticmethod
    def driver_entries(entries):
        out = []
        for e in entries:
            if e["role"] == "line":
                out.append({"name": e["name"], "isFile": True, "names": e["names"],
                            "rows": [[core.orat(gen_csvdir.value_of(t)) for t in r] for r in e["rows"]]})
            else:
                out.append({"name": e["name"], "isFile": e["type"] == "file", "names": [], "rows": []})
        return out

    @staticmethod
    def written_bits(ctx, vendor, entries, pi):
        """'every value exactly as written', to the bit: the specification (and the mechanism model) evaluated on CELL
        IDENTITIES instead of values - every non-NaN cell of the written tables gets its own number - says for each cell of
        the result which written token it must be; the canonical form is float(token).hex() (keeps the sign of a zero,
        which the exact rationals of the main comparison cannot)"""
        ids, dentries = {}, []
        for e in entries:
            if e["role"] != "line":
                dentries.append({"name": e["name"], "isFile": e["type"] == "file", "names": [], "rows": []})
                continue
            rows = []
            for r in e["rows"]:
                row = []
                for t in r:
                    v = gen_csvdir.value_of(t)
                    if math.isnan(v):
                        row.append(None)
                    else:
                        ids[len(ids) + 1] = v
                        row.append(len(ids))
                rows.append(row)
            dentries.append({"name": e["name"], "isFile": True, "names": e["names"], "rows": rows})
        rep = ctx.driver.call("c04.cells", vendor=vendor, entries=dentries, pi=pi)

        def bits(r):
            if "raises" in r:
                return None
            return [[["nan" if c is None else float(ids[int(core.unrat(c))]).hex() for c in row] for row in line] for line in r["image"]["lines"]]
        return bits(rep["model"]), bits(rep["spec"])

    def import_once(self, pcsv, ctx, d, dirc, call, option, pi, tz, path_as="path"):
        """one judged call of load(d, ..., full=True) on the directory `dirc` as it is on disk at `d`:
        -> (impl, model, spec, rep, data, params)"""
        vendor, entries = dirc["vendor"], dirc["entries"]
        auto = call in ("auto", "detected")
        rep = ctx.driver.call("c04.load", vendor="auto" if auto else vendor, entries=self.driver_entries(entries), pi=pi)
        lines = [e["name"] for e in entries if e["role"] == "line"]
        if sorted(rep["accepted"]) != sorted(lines):
            raise InternalError(f"generator: accepted {rep['accepted']} != line files {lines}")
        if rep["vendor"] != vendor:
            raise InternalError(f"generator: auto-detection gives {rep['vendor']} for a {vendor} directory")
        model, und = driver_result(rep["model"])
        spec, und2 = driver_result(rep["spec"])
        und |= und2
        negzero = any(t.lstrip().startswith("-") and gen_csvdir.value_of(t) == 0.0 for e in entries if e["role"] == "line"
                      for r in e["rows"] for t in r)
        if negzero:
            mb, sb = self.written_bits(ctx, rep["vendor"], entries, pi)
            if "image" in model:
                model["image"]["bits"] = mb
            if "image" in spec:
                spec["image"]["bits"] = sb
        data = params = None
        with substitutions(d, [e["name"] for e in entries], pi, tz), warnings.catch_warnings():
            warnings.simplefilter("ignore")
            try:
                arg = str(d) + ("/" if path_as == "str/" else "") if path_as.startswith("str") else d
                if call == "detected":
                    option = pcsv.option_for_path(arg)
                data, params = pcsv.load(arg, option=option, full=True)
                impl = impl_result(data, params, bits=negzero)
            except Exception as e:
                impl = {"raises": type(e).__name__, "msg": str(e)[:200]}
        if "msg" in impl and impl["raises"] == model.get("raises"):
            impl = {"raises": impl["raises"]}
        impl, model, spec = blank(impl, und), blank(model, und), blank(spec, und)
        rep = {**rep, "und": bool(und), "und_set": und, "negzero": negzero, "option": option}
        return impl, model, spec, rep, data, params

    @staticmethod
    def no_element_left(spec):
        """every element column is empty in every line (LDR drops them all): an image without a single element is outside
        the property's quantifier (1..k elements); what pewlib returns for it - an array without fields, an exception - is
        not judged"""
        return isinstance(spec, dict) and "image" in spec and not spec["image"]["names"]

    @staticmethod
    def out_of_domain(rep):
        # a stamp that is no valid date / a leap second / a month or day written with one digit (not what the instrument
        # writes): the property does not say what the import does with such a directory (time.strptime rejects the first
        # and accepts the others; another parser, or the stamp text as key, may differ), so the import is not judged
        return not (rep["keys_defined"] and rep["valid_stamps"] and rep["strict_stamps"])

    def evaluate(self, case, ctx):
        if case["kind"] == "names":
            return self.eval_names(case, ctx)
        if case["kind"] == "history":
            return self.eval_history(case, ctx)
        import pewlib.io.csv as pcsv

        vendor, entries = case["vendor"], case["entries"]
        # the directory is "lines" under the per-process root (the same path for every case of a worker) unless the case
        # names it otherwise (a name with spaces / dots / digits / a vendor-like or hidden name)
        d = ctx.tmpdir() / case.get("dirname", "lines")
        d.mkdir()
        gen_csvdir.write_dir(d, case)
        lines = [e["name"] for e in entries if e["role"] == "line"]
        option = None if case["auto"] else OPTION_CLASS(pcsv, vendor)()
        # history: earlier imports through the SAME option object (auto-detection: earlier imports in the same process);
        # what they return or raise is not judged, only the import of the real directory that follows them is
        primers = case.get("primers", [])
        for i, p in enumerate(primers):
            if p.get("same"):
                pd, plisting = d, [e["name"] for e in entries]
                random.Random(p["shuffle"]).shuffle(plisting)
            else:
                pd = d.parent / f"primer{i}"
                pd.mkdir()
                gen_csvdir.write_dir(pd, {"vendor": vendor, "entries": p["entries"]})
                plisting = [e["name"] for e in p["entries"]]
            with substitutions(pd, plisting, p["pi"], case["tz"]), warnings.catch_warnings():
                warnings.simplefilter("ignore")
                try:
                    pcsv.load(pd, option=option, full=True)
                except Exception:
                    pass
        impl, model, spec, rep, _, _ = self.import_once(pcsv, ctx, d, case, "auto" if case["auto"] else "shared", option,
                                                         case["pi"], case["tz"], case.get("path_as", "path"))

        n = len(lines)
        feats = set(case.get("gen_features", [])) | {f"vendor:{vendor}", "n1" if n == 1 else "n2" if n == 2 else "n>=3",
                                                      "tz:" + case["tz"], "auto" if case["auto"] else "explicit-option"}
        if case["pi"] != sorted(case["pi"]):
            feats.add("completion!=submission")
        if lines != rep["order"]:
            feats.add("listing!=acquisition")
        if rep["und"]:
            feats.add("param-near-rounding-tie")
        if rep["negzero"]:
            feats.add("negative-zero-bits")
        if case.get("path_as", "path") != "path":
            feats.add("path-as-str")
        if case.get("dirname", "lines") != "lines":
            feats.add("other-directory-name")
        feats |= self.length_features(entries, rep["order"])
        if primers:
            feats.add("history-auto" if case["auto"] else "history-shared-option")
        else:
            feats = {f for f in feats if not f.startswith(("primer-", "two-primers"))}
        empty = not lines
        if self.no_element_left(spec):
            empty = True
            feats.add("no-element-left-unjudged")
        nontrivial = n >= 2 or any(e["role"] != "line" for e in entries)
        if self.out_of_domain(rep):
            # whether pewlib does what the model says (ValueError exactly when time.strptime rejects a stamp) is recorded only
            feats.add("stamp-out-of-domain:" + ("model-agrees" if core.canon(impl) == core.canon(model) else "model-differs"))
            return outcome(impl, model, spec, undetermined=True, hyp=False, features=feats if nontrivial else [])
        return outcome(impl, model, spec, undetermined=empty, hyp=rep["hyp"], features=feats if nontrivial else [])

    @staticmethod
    def length_features(entries, order):
        """where the shortest line stands in acquisition order"""
        by = {e["name"]: len(e["rows"]) for e in entries if e["role"] == "line"}
        ls = [by[nm] for nm in order if nm in by]
        if len(ls) < 2 or len(set(ls)) == 1:
            return set()
        m, out = min(ls), set()
        if ls.count(m) == 1:
            i = ls.index(m)
            out.add("shortest-first" if i == 0 else "shortest-last" if i == len(ls) - 1 else "shortest-middle")
        return out

    # ------------------------------------------------------------------ histories, every import judged
    @staticmethod
    def rewrite_dir(d, dirc, mtime):
        """the directory at path `d` is emptied (the directory itself stays) and written anew"""
        if d.exists():
            for q in list(d.iterdir()):
                if q.is_dir() and not q.is_symlink():
                    shutil.rmtree(q)
                else:
                    q.unlink()
        else:
            d.mkdir()
        gen_csvdir.write_dir(d, dirc)
        if mtime == "kept":
            for q in list(d.iterdir()) + [d]:
                os.utime(q, ns=(KEPT_MTIME_NS, KEPT_MTIME_NS))

    def eval_history(self, case, ctx, skip_library_edits=False):
        import numpy as np
        import pewlib.io.csv as pcsv

        root = ctx.tmpdir()
        content, shared, dirty, saved = {}, {}, set(), []
        impl, model, spec, feats = [], [], [], set(case.get("gen_features", [])) | {"history", "tz:" + case["tz"]}
        hyp, seen, calls, judged = True, [], [], 0
        # the same history as calls of the Lean world model (PewModel.CsvDir.Call): paths 0 / 1, option objects by the
        # order in which the caller obtained them
        hcalls, optidx, pathidx, und_at, pos_of = [], {}, {"lines": 0, "b": 1}, {}, {}

        def hold(o, call):
            hcalls.append(call)
            optidx[id(o)] = len(optidx)
            keep.append(o)
            return optidx[id(o)]

        keep = []  # (the objects stay alive: id() must not be reused)

        def edit_option(o, dirc):
            """what a caller may do to an option object it holds; undone after the history (an object that the library
            shares between calls must not carry the edit into later cases)"""
            saved.append((o, {k: (v, list(v) if isinstance(v, list) else dict(v) if isinstance(v, dict) else None)
                              for k, v in vars(o).items()}))
            els = [nm for e in dirc["entries"] if e["role"] == "line" for nm in e["names"]]
            if isinstance(getattr(o, "drop_names", None), list):
                o.drop_names.extend(els[-2:])
                if o.drop_names and len(els) % 2:
                    del o.drop_names[0]
            if isinstance(getattr(o, "kw_genfromtxt", None), dict):
                o.kw_genfromtxt["skip_header"] = 1
                o.kw_genfromtxt["usecols"] = (0,)
            for flag in ("drop_nan_rows", "drop_nan_columns"):
                if isinstance(getattr(o, flag, None), bool):
                    setattr(o, flag, not getattr(o, flag))
            if hasattr(o, "regex"):
                o.regex = re.compile(r"never-\d+\.csv")
            dirty.add(id(o))
            hcalls.append({"c": "edit", "i": optidx[id(o)], "drop": els[-2:]})

        try:
            for i, st in enumerate(case["steps"]):
                d = root / st["slot"]
                if "dir" in st:
                    self.rewrite_dir(d, st["dir"], st.get("mtime", "natural"))
                    content[st["slot"]] = st["dir"]
                    hcalls.append({"c": "write", "p": pathidx[st["slot"]], "entries": self.driver_entries(st["dir"]["entries"])})
                dirc = content.get(st["slot"])
                if dirc is None:  # (a shrunk case: the step that wrote this path is gone)
                    continue
                vendor, call = dirc["vendor"], st["call"]
                nlines = sum(e["role"] == "line" for e in dirc["entries"])
                pi = [x for x in st["pi"] if x < nlines] + [x for x in range(nlines) if x not in st["pi"]]
                if call == "auto-nofull":  # not an observation point: the call is made, nothing is judged
                    with substitutions(d, [e["name"] for e in dirc["entries"]], pi, case["tz"]), warnings.catch_warnings():
                        warnings.simplefilter("ignore")
                        try:
                            pcsv.load(d)
                        except Exception:
                            pass
                    feats.add("call:auto-nofull-unjudged")
                    hcalls.append({"c": "auto", "p": pathidx[st["slot"]], "pi": pi})
                    continue
                option = None
                if call == "shared":
                    if vendor not in shared or id(shared[vendor]) in dirty:
                        shared[vendor] = OPTION_CLASS(pcsv, vendor)()
                        hold(shared[vendor], {"c": "new", "vendor": vendor})
                    option = shared[vendor]
                elif call == "fresh":
                    option = OPTION_CLASS(pcsv, vendor)()
                    hold(option, {"c": "new", "vendor": vendor})
                im, mo, sp, rep, data, params = self.import_once(pcsv, ctx, d, dirc, call, option, pi, case["tz"])
                if call == "detected" and rep["option"] is not None:
                    hold(rep["option"], {"c": "detect", "p": pathidx[st["slot"]]})
                if call == "auto":
                    hcalls.append({"c": "auto", "p": pathidx[st["slot"]], "pi": pi})
                elif id(rep["option"]) in optidx:
                    hcalls.append({"c": "with", "i": optidx[id(rep["option"])], "p": pathidx[st["slot"]], "pi": pi})
                else:  # option_for_path itself raised: there is no object to import with
                    hcalls.append({"c": "auto", "p": pathidx[st["slot"]], "pi": pi})
                pos_of[len(impl)] = (len(hcalls) - 1, rep["und_set"], mo.get("image", {}).get("bits") if isinstance(mo, dict) else None)
                tag = {"step": i, "path": st["slot"], "call": call}
                if self.out_of_domain(rep) or nlines == 0 or self.no_element_left(sp):
                    im = mo = sp = {"not-judged": True}
                    feats.add("history-step-unjudged")
                else:
                    judged += 1
                hyp = hyp and rep["hyp"]
                impl.append({**tag, **im}), model.append({**tag, **mo}), spec.append({**tag, **sp})
                feats |= {"call:" + call, "vendor:" + vendor}
                if rep["und"]:
                    feats.add("param-near-rounding-tie")
                if rep["negzero"]:
                    feats.add("negative-zero-bits")
                if (st["slot"], vendor) in seen:
                    feats.add("hist:same-vendor-again")
                elif any(s == st["slot"] for s, _ in seen):
                    feats.add("hist:other-vendor-same-path")
                if call in ("auto", "detected") and any(c in ("auto", "detected") and v != vendor for (_, v), c in zip(seen, calls)):
                    feats.add("hist:auto-after-auto-other-vendor")
                seen.append((st["slot"], vendor))
                calls.append(call)
                # the caller edits what the call returned
                for ed in st.get("edits", []):
                    if ed == "image" and data is not None:
                        try:
                            for nm in data.dtype.names or []:
                                data[nm][...] = -7.25
                            feats.add("edit:returned-image")
                        except ValueError:  # a read-only array cannot be edited: nothing to do
                            pass
                    elif ed == "params" and isinstance(params, dict):
                        params.clear()
                        params.update(scantime=-1.0, spotsize=(9.0, 9.0), junk=[1])
                        feats.add("edit:returned-params")
                    elif ed == "own-option" and option is not None and call in ("shared", "fresh"):
                        edit_option(option, dirc)
                        feats.add("edit:own-option")
                    elif ed == "library-option" and not skip_library_edits:
                        with substitutions(d, [e["name"] for e in dirc["entries"]], pi, case["tz"]):
                            o = rep["option"] if call == "detected" else pcsv.option_for_path(d)
                        if id(o) not in optidx:
                            hold(o, {"c": "detect", "p": pathidx[st["slot"]]})
                        edit_option(o, dirc)
                        feats.add("edit:library-option")
        finally:
            for o, attrs in reversed(saved):
                for k, (v, copy) in attrs.items():
                    if isinstance(v, list):
                        v[:] = copy
                    elif isinstance(v, dict):
                        v.clear()
                        v.update(copy)
                    setattr(o, k, v)
        # the model side of a history: the Lean world model run on the whole history (`trace`), not call by call
        if hcalls:
            results = ctx.driver.call("c04.history", calls=hcalls)["results"]
            for k, (pos, und, bits) in pos_of.items():
                if model[k].get("not-judged"):
                    continue
                r = results[pos]
                if r is None:
                    raise InternalError(f"history model: call {pos} is no import")
                m, _ = driver_result(r)
                if bits is not None and "image" in m:
                    m["image"]["bits"] = bits
                model[k] = {**{t: model[k][t] for t in ("step", "path", "call")}, **blank(m, und)}
        feats.add(f"history-judged:{min(judged, 4)}")
        out = outcome({"steps": impl}, {"steps": model}, {"steps": spec}, undetermined=judged == 0, hyp=hyp,
                      features=feats if judged else [])
        if not out["spec_ok"] and not skip_library_edits and "edit:library-option" in feats:
            # The caller changed attributes of the object option_for_path RETURNED.  Whether a later import may see that
            # (an implementation may hand out one shared instance per vendor) is behaviour no clause of the property
            # speaks about: if the history agrees with the specification once these edits are left out, the difference
            # is recorded only.
            again = self.eval_history(case, ctx, skip_library_edits=True)
            if again["spec_ok"]:
                return outcome(out["impl"], out["model"], out["spec"], undetermined=True, hyp=hyp,
                               features=set(out["features"]) | {"recorded:library-option-edit-visible-later"})
        return out

    def eval_names(self, case, ctx):
        """the model's matchers, filter, sort and the ORDER its sort keys induce against the real option objects.
        The value of a sort key is not observable through `load` (a rewrite may return a datetime, a tuple, another
        epoch): only which names a key exists for, how two keys compare, and what filter / sort return are compared."""
        import pewlib.io.csv as pcsv

        allnames = case["names"]
        flags = ctx.driver.call("c04.names", names=allnames)["model"]
        # names the TOFWERK pattern accepts but whose stamp is no valid date and time of day (or a leap second) are outside
        # the property: what sortkey does with them (time.strptime: ValueError / accepted) is not compared
        # likewise names the Nu pattern accepts that are not line_<digits>.csv in full (text after .csv: "the line index"
        # is not defined for them)
        ok = [(r["tofwerk"] is None or (r["valid_stamp"] and r["strict_stamp"])) and (r["nu"] is None or r["nufull"]) for r in flags]
        names = [nm for nm, k in zip(allnames, ok) if k]
        rep = [r for r, k in zip(flags, ok) if k]
        srt = ctx.driver.call("c04.sort", names=names)["model"]
        opts = {"nu": pcsv.NuOption(), "ldr": pcsv.ThermoLDROption(), "tofwerk": pcsv.TofwerkOption(), "generic": pcsv.GenericOption()}
        base = pathlib.Path("/nonexistent-c04-dir")
        byname = dict(zip(names, rep))
        impl, model, feats = [], [], set()
        if len(names) < len(allnames):
            feats.add("names-out-of-domain")

        def model_key(v, nm):
            r = byname[nm]
            if v == "nu":
                return [r["numkey"]]
            if v == "ldr":
                return r["ldrkey"]  # code points of the lower-cased sample name, -1, index (compared as a list = as the tuple)
            if v == "tofwerk":
                return [r["timegm"]] if r["strptime_ok"] else None
            return [ord(ch) for ch in nm]

        def key_relations(v, o, kept):
            """(names without a key, [relation of neighbours in the model's key order]) on the real and the model side"""
            real, undef_i, undef_m = {}, [], []
            for nm in kept:
                try:
                    real[nm] = o.sortkey(base / nm)
                except ValueError:
                    undef_i.append(nm)
                if model_key(v, nm) is None:
                    undef_m.append(nm)
            both = sorted((nm for nm in kept if nm in real and model_key(v, nm) is not None), key=lambda nm: (model_key(v, nm), nm))
            rel_i, rel_m = [], []
            for a, b in zip(both, both[1:]):
                ka, kb = model_key(v, a), model_key(v, b)
                if ka == kb and a != b:
                    continue  # two files with one index / stamp: the property does not order them
                rel_m.append("<" if ka < kb else "=" if ka == kb else ">")
                try:
                    rel_i.append("<" if real[a] < real[b] else "=" if real[a] == real[b] else ">")
                except TypeError:
                    rel_i.append("incomparable")
            return (sorted(undef_i), rel_i), (sorted(undef_m), rel_m)

        old_tz = os.environ.get("TZ")
        try:
            for nm, r in zip(names, rep):
                i, m = {"name": nm}, {"name": nm}
                for v, o in opts.items():
                    rx = getattr(o, "regex", None)
                    rx = rx if isinstance(rx, re.Pattern) else re.compile(PATTERNS[v], re.IGNORECASE)
                    mt = rx.match(nm)
                    i[v] = mt is not None
                    m[v] = r[v] is not None and r[v] is not False
                    if mt is not None:
                        feats.add("match:" + v)
                    if v == "tofwerk" and mt is not None and mt.re.groups >= 1:
                        i["group"], m["group"] = mt.group(1).lower(), (r[v] or "").lower()
                i["hidden"], m["hidden"] = nm.startswith("."), r["hidden"]
                i["stem"], m["stem"] = pathlib.PurePosixPath(nm).stem, r["stem"]
                if r["tofwerk"] is not None:
                    feats.add("stamp")
                if r["ldrparts"] is not None:
                    feats.add("ldr-sample-index")
                impl.append(i)
                model.append(m)
            # option.filter / option.sort / the order of option.sortkey on the whole batch
            paths = [base / nm for nm in names]
            bi, bm = {"name": "<batch>"}, {"name": "<batch>"}
            for v, o in opts.items():
                try:
                    kept = o.filter(paths)
                    bi[v + ".filter"], bm[v + ".filter"] = [q.name for q in kept], srt[v]["filter"]
                    keys = {q.name: model_key(v, q.name) for q in kept}
                    if len({core.canon(k) for k in keys.values()}) == len(keys):  # no two files with one index / stamp
                        try:
                            bi[v + ".sort"] = [q.name for q in o.sort(kept)]
                        except ValueError:
                            bi[v + ".sort"] = {"raises": "ValueError"}
                        bm[v + ".sort"] = srt[v]["sort"]
                    if len(kept) >= 2 and isinstance(bi.get(v + ".sort"), list) and bi[v + ".sort"] != bi[v + ".filter"]:
                        feats.add("sort-reorders:" + v)
                    # the real keys are taken under every zone of the generator for TOFWERK
                    for tz in (gen_csvdir.ZONES if v == "tofwerk" else ["UTC"]):
                        os.environ["TZ"] = tz
                        time.tzset()
                        bi[f"{v}.keys@{tz}"], bm[f"{v}.keys@{tz}"] = key_relations(v, o, [q.name for q in kept])
                except AttributeError:  # an option without filter / sort / sortkey: not an observation point of the property
                    feats.add("option-api-missing")
            impl.append(bi)
            model.append(bm)
        finally:
            if old_tz is None:
                os.environ.pop("TZ", None)
            else:
                os.environ["TZ"] = old_tz
            time.tzset()
        # the matchers are part of the model, not of the property: only the correspondence is judged here
        return outcome(impl, model, impl, features=feats | {"names"})

    # ------------------------------------------------------------------ shrinking
    def shrink(self, case):
        if case["kind"] == "names":
            ns = case["names"]
            if len(ns) > 1:
                yield {**case, "names": ns[: len(ns) // 2]}
                yield {**case, "names": ns[len(ns) // 2:]}
                for i in range(len(ns)):
                    yield {**case, "names": ns[:i] + ns[i + 1:]}
            return
        if case["kind"] == "history":
            yield from self.shrink_history(case)
            return
        ents = case["entries"]
        nlines = sum(e["role"] == "line" for e in ents)
        prs = case.get("primers", [])
        if prs:
            yield {k: v for k, v in case.items() if k != "primers"}
            for i, p in enumerate(prs):
                if len(prs) > 1:
                    yield {**case, "primers": prs[:i] + prs[i + 1:]}
                if not p.get("same"):
                    pl = [e for e in p["entries"] if e["role"] == "line"]
                    for j, e in enumerate(p["entries"]):
                        if e["role"] != "line" or len(pl) > 1:
                            q = {"entries": p["entries"][:j] + p["entries"][j + 1:],
                                 "pi": p["pi"] if e["role"] != "line" else [x for x in p["pi"] if x < len(pl) - 1]}
                            yield {**case, "primers": prs[:i] + [q] + prs[i + 1:]}
        for i, e in enumerate(ents):
            if e["role"] != "line":
                yield {**case, "entries": ents[:i] + ents[i + 1:]}
            elif nlines > 1:
                yield {**case, "entries": ents[:i] + ents[i + 1:], "pi": [p for p in case["pi"] if p < nlines - 1]}
        if case["pi"] != sorted(case["pi"]):
            yield {**case, "pi": sorted(case["pi"])}
        for fld in ("dirname", "path_as"):
            if fld in case:
                yield {k: v for k, v in case.items() if k != fld}
        if case["tz"] != "UTC":
            yield {**case, "tz": "UTC"}
        first = 1 if case["vendor"] == "ldr" else 0
        for i, e in enumerate(ents):
            if e["role"] == "line" and len(e["rows"]) > 2 + first:
                yield {**case, "entries": ents[:i] + [{**e, "rows": e["rows"][:-1]}] + ents[i + 1:]}


    def shrink_history(self, case):
        steps = case["steps"]
        for i, st in enumerate(steps):  # drop a step (the directory it wrote goes to the next step on that path)
            if len(steps) > 1:
                rest = [dict(x) for x in steps[:i] + steps[i + 1:]]
                if "dir" in st:
                    for x in rest[i:]:
                        if x["slot"] == st["slot"]:
                            if "dir" not in x:
                                x["dir"], x["mtime"] = st["dir"], st.get("mtime", "natural")
                            break
                yield {**case, "steps": rest}
        for i, st in enumerate(steps):
            def put(new):
                return {**case, "steps": steps[:i] + [new] + steps[i + 1:]}
            for ed in st.get("edits", []):
                yield put({**st, "edits": [x for x in st["edits"] if x != ed]})
            if st.get("mtime") == "kept":
                yield put({**st, "mtime": "natural"})
            if st["call"] != "auto":
                yield put({**st, "call": "auto"})
            if st["pi"] != sorted(st["pi"]):
                yield put({**st, "pi": sorted(st["pi"])})
            if "dir" in st:
                ents = st["dir"]["entries"]
                nl = sum(e["role"] == "line" for e in ents)
                first = 1 if st["dir"]["vendor"] == "ldr" else 0
                for j, e in enumerate(ents):
                    if e["role"] != "line" or nl > 1:
                        yield put({**st, "dir": {**st["dir"], "entries": ents[:j] + ents[j + 1:]}})
                for j, e in enumerate(ents):
                    if e["role"] == "line" and len(e["rows"]) > 2 + first:
                        yield put({**st, "dir": {**st["dir"], "entries": ents[:j] + [{**e, "rows": e["rows"][:-1]}] + ents[j + 1:]}})
        if case["tz"] != "UTC":
            yield {**case, "tz": "UTC"}


PROP = C04()

if __name__ == "__main__":
    sys.exit(core.main(PROP, "harness.c04"))
