"""Synthetic Agilent '.b' batch writer for C02.

Writes, from an abstract batch description (plain JSON, see `harness/c02.py`), the files that
`pewlib.io.agilent` reads, with the layouts of the fixtures under /repo/tests/data/agilent:

  <batch>/BatchLog.csv                       29 columns + trailing comma, `#`, ..., `File Name` (col 5), `Acquisition Result` (col 6)
  <batch>/Method/BatchLog.xml                <BatchLogDataSet xmlns="BatchLog"><BatchLogInfo>...<AcqResult/><DataFileName/>
  <batch>/Method/AcqMethod.xml               <AcquisitionDataSet xmlns="Acquisition"> IcpmsElement*, TuneStep*, SampleParameter*
  <batch>/<name>.d/AcqData/MSScan.bin        magic 257, 68 byte header, uint32 at byte 88 = start of the 136 byte scan records
  <batch>/<name>.d/AcqData/MSProfile.bin     magic 258, 68 byte header, records (ID f4[k], Analog f8[k], Analog2 f8[k], Digital f8[k])
  <batch>/<name>.d/AcqData/MSTS_XSpecific.xml
  <batch>/<name>.d/MSTS_XAddition.xml        optional
  <batch>/<name>.d/<name>.csv                optional per-line export

Nothing here is imported from pewlib: the record dtypes are restated from the fixture bytes
(5 scans: MSScan.bin = 208 + 5*136 bytes, MSProfile.bin = 68 + 5*3*28 bytes, SpectrumOffset = 68 + 84 r,
ByteCount = 84, PointCount = 3).
"""
from __future__ import annotations

import struct
from pathlib import Path
from xml.sax.saxutils import escape

import numpy as np

MSSCAN_MAGIC = 257
MSPROFILE_MAGIC = 258
HEADER = 68

MSSCAN_DTYPE = np.dtype(
    [
        ("ScanID", "<i4"), ("ScanMethodID", "<i4"), ("TimeSegmentID", "<i4"), ("ScanTime", "<f8"),
        ("MSLevel", "<i4"), ("ScanType", "<i4"), ("TIC", "<f8"), ("BasePeakMZ", "<f8"), ("BasePeakValue", "<f8"),
        ("Status", "<i4"), ("IonMode", "<i4"), ("IonPolarity", "<i4"), ("SamplingPeriod", "<f8"),
        ("SpectrumFormatID", "<i4"), ("SpectrumOffset", "<i8"), ("ByteCount", "<i4"), ("PointCount", "<i4"),
        ("MinX", "<f8"), ("MaxX", "<f8"), ("MinY", "<f8"), ("MaxY", "<f8"),
        ("XOffset", "<i8"), ("XByteCount", "<i4"),
    ]
)
assert MSSCAN_DTYPE.itemsize == 136


def f64(tok: int) -> float:
    return struct.unpack("<d", struct.pack("<q", int(tok)))[0]


def write_msscan(path: Path, offs, bcs, times_min, k: int, start: int = 208):
    """offs/bcs: SpectrumOffset and ByteCount of every scan record; times_min: ScanTime (float, minutes)"""
    n = len(offs)
    rec = np.zeros(n, dtype=MSSCAN_DTYPE)
    rec["ScanID"] = np.arange(1, n + 1)
    rec["ScanMethodID"] = 1
    rec["TimeSegmentID"] = 1
    rec["ScanTime"] = times_min
    rec["MSLevel"] = 2
    rec["ScanType"] = 256
    rec["TIC"] = 12345.0
    rec["BasePeakMZ"] = 1.0
    rec["BasePeakValue"] = 777.0
    rec["Status"] = 2
    rec["IonMode"] = 1024
    rec["SamplingPeriod"] = 0.05
    rec["SpectrumFormatID"] = 1
    rec["SpectrumOffset"] = offs
    rec["ByteCount"] = bcs
    rec["PointCount"] = k
    rec["MaxX"] = float(k)
    rec["XOffset"] = [72 + 12 * k * r for r in range(n)]
    rec["XByteCount"] = 12 * k
    head = bytearray(start)
    head[0:4] = MSSCAN_MAGIC.to_bytes(4, "little")
    head[HEADER + 20 : HEADER + 24] = start.to_bytes(4, "little")
    # the index block between header and records is filled with a recognisable non-zero pattern
    for i in range(HEADER + 24, start):
        head[i] = 0xEE
    path.write_bytes(bytes(head) + rec.tobytes())


def write_msprofile(path: Path, analog_tokens, k: int, decoys=None):
    """analog_tokens: D records x k float64 bit tokens.  Analog2/Digital get decoy values that never
    occur among the Analog values of a well-formed case (the caller passes them)."""
    d = len(analog_tokens)
    dt = np.dtype([("ID", "<f4", (k,)), ("Analog", "<f8", (k,)), ("Analog2", "<f8", (k,)), ("Digital", "<f8", (k,))])
    assert dt.itemsize == 28 * k
    rec = np.zeros(d, dtype=dt)
    for r in range(d):
        rec["ID"][r] = np.arange(1, k + 1, dtype=np.float32)
        rec["Analog"][r] = np.array([int(t) for t in analog_tokens[r]], dtype="<i8").view("<f8")
        if decoys is not None:
            rec["Analog2"][r] = decoys[0][r]
            rec["Digital"][r] = decoys[1][r]
    head = bytearray(HEADER)
    head[0:4] = MSPROFILE_MAGIC.to_bytes(4, "little")
    path.write_bytes(bytes(head) + rec.tobytes())


def write_xspecific(path: Path, masses):
    """masses: list of {"name", "mass" (int written into <Mass>), "acctime" (repr string)}"""
    out = ['\ufeff<?xml version="1.0" encoding="UTF-8"?>',
           '<IonRecords xmlns:xsi="http://www.w3.org/2001/XMLSchema-instance" xsi:noNamespaceSchemaLocation="MSTS_XSpecific.xsd">',
           "  <Version>1</Version>", '  <IonRecord TimeSegmentID="1">', "    <ExpandXValue>1</ExpandXValue>"]
    for m in masses:
        out += ["    <Masses>", f"      <Mass>{m['mass']}</Mass>", f"      <Name>{escape(m['name'])}</Name>",
                f"      <AccumulationTime>{m['acctime']}</AccumulationTime>", "    </Masses>"]
    out += ["  </IonRecord>", "</IonRecords>"]
    path.write_text("\n".join(out), encoding="utf-8")


def write_xaddition(path: Path, scan_type: str, rows):
    """rows: list of (index, precursor, product) in document order"""
    out = ['\ufeff<?xml version="1.0" encoding="utf-8"?>',
           '<ArrayOfMSTS_XAddition xmlns:xsi="http://www.w3.org/2001/XMLSchema-instance" xmlns:xsd="http://www.w3.org/2001/XMLSchema">',
           '  <MSTS_XAddition TimeSegmentID="1">', f"    <ScanType>{scan_type}</ScanType>",
           "    <IonGuideMode>Off</IonGuideMode>", "    <IndexedMasses>"]
    for idx, pre, pro in rows:
        out += ["      <MSTS_XAddition_IndexedMasses>", f"        <Index>{idx}</Index>",
                f"        <PrecursorIonMZ>{pre}</PrecursorIonMZ>", f"        <ProductIonMZ>{pro}</ProductIonMZ>",
                "      </MSTS_XAddition_IndexedMasses>"]
    out += ["    </IndexedMasses>", "  </MSTS_XAddition>", "</ArrayOfMSTS_XAddition>"]
    path.write_text("\n".join(out), encoding="utf-8")


def write_batch_xml(path: Path, entries, batch_name="synthetic.b"):
    """entries: list of {"result": str, "file": str | None[, "stamp": str | None]} in log order"""
    out = ['\ufeff<?xml version="1.0" encoding="utf-8"?>',
           f'<BatchLogDataSet SchemaVersion="65536" DataVersion="1" BatchName="{escape(batch_name)}" '
           f'BatchDataPath="D:\\DATA\\{escape(batch_name)}" xmlns="BatchLog">']
    for i, e in enumerate(entries):
        out += ["  <BatchLogInfo>", "    <BatchLogID>-1</BatchLogID>", f"    <SampleLogID>{i}</SampleLogID>"]
        stamp = e.get("stamp", "2020-11-16T13:08:48+11:00")  # None: the entry has no AcqDateTime element
        if stamp is not None:
            out.append(f"    <AcqDateTime>{escape(stamp)}</AcqDateTime>")
        out.append(f"    <AcqResult>{escape(e['result'])}</AcqResult>")
        if e["file"] is not None:
            out.append(f"    <DataFileName>{escape(e['file'])}</DataFileName>")
        out += ["    <DilutionResult>1</DilutionResult>", "    <OperatorName>verif</OperatorName>",
                f"    <SampleName>{i:03d}</SampleName>", "    <SampleType>Sample</SampleType>", "    <ErrorMessage />", "  </BatchLogInfo>"]
    out.append("</BatchLogDataSet>")
    path.write_text("\n".join(out), encoding="utf-8")


BATCH_CSV_HEADER = ("#,Acq. Date-Time,Sample Type,Sample Name,Vial#,File Name,Acquisition Result,Error Message,Dilution Result,"
                    "Comment,Operator,Error Action,Replicates,Level,ISTD Conc,Auto Dilution (ISIS 2),Total Dil.,Final Weight or Volume,"
                    "Sample Weight or Volume,Dilution Multiplier,Sublist,Total Acq Time,Max. Daily Dose,%J,User Def. 1,User Def. 2,"
                    "User Def. 3,QC Failed Criteria,QC Failed Elements,")


def write_batch_csv(path: Path, rows):
    """rows: list of {"id": int, "file": str, "result": str}"""
    lines = [BATCH_CSV_HEADER]
    for r in rows:
        stamp = r.get("stamp", "16/11/2020 1:08:48 PM")  # None: no date in the row
        lines.append(f"{r['id']},{'-' if stamp is None else stamp},Sample,{r['id']:03d},<Manual>,{r['file']},{r['result']},-,1,-,verif,"
                     + ",".join(["-"] * 18) + ",")
    path.write_text("\r\n".join(lines) + "\r\n", encoding="utf-8")


def write_acq_method(path: Path, elements, msms_tune: bool, samples):
    """elements: list of {"name", "mz" (<MZ>), "selected" (<SelectedMZ>)} in document order;
    samples: list of {"id": int | None, "file": str | None} in document order"""
    out = ['\ufeff<?xml version="1.0" encoding="utf-8"?>',
           '<AcquisitionDataSet SchemaVersion="65555" DataVersion="91" InstrumentType="ICPQQQ" xmlns="Acquisition">',
           "  <AcquisitionMethod>", "    <AcqID>-1</AcqID>", "    <AcqMode>TRA</AcqMode>", "  </AcquisitionMethod>"]
    for i, e in enumerate(elements):
        out += ["  <IcpmsElement>", "    <AcqID>-1</AcqID>", f"    <ElementID>{i}</ElementID>", f"    <MZ>{e['mz']}</MZ>",
                f"    <SelectedMZ>{e['selected']}</SelectedMZ>", "    <DetectorMode>Auto</DetectorMode>",
                f"    <ElementName>{escape(e['name'])}</ElementName>", "  </IcpmsElement>"]
    out += ["  <TuneStep>", "    <AcqID>-1</AcqID>", "    <QuickScan>false</QuickScan>", "  </TuneStep>",
            "  <TuneStep>", "    <AcqID>-1</AcqID>",
            f"    <ScanType_Acq>{'MS_MS' if msms_tune else 'SingleQuad'}</ScanType_Acq>", "  </TuneStep>"]
    for i, s in enumerate(samples):
        out += ["  <SampleParameter>", "    <AcqID>-1</AcqID>", "    <ListID>0</ListID>"]
        if s["id"] is not None:
            out.append(f"    <SampleID>{s['id']}</SampleID>")
        out += [f"    <SampleListDisplayOrder>{i}</SampleListDisplayOrder>", "    <SampleType>Sample</SampleType>"]
        if s["file"] is not None:
            out.append(f"    <DataFileName>{escape(s['file'])}</DataFileName>")
        out += ["  </SampleParameter>"]
    out.append("</AcquisitionDataSet>")
    path.write_text("\n".join(out), encoding="utf-8")


def write_line_csv(path: Path, lines):
    """lines: the literal text lines of the export (without terminator); written with CRLF like the instrument"""
    path.write_bytes(("\r\n".join(lines) + "\r\n").encode("utf-8"))
