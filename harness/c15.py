"""C15 — Otsu threshold: pewlib.process.threshold.otsu against PewModel/Otsu.lean.

The driver gets the histogram NumPy produced for the same data (`np.histogram(x, bins=256)`), evaluates the
mechanism (`otsuHist`: cumulative sums, first-maximum argmax, centre) and the specification (`specCrit` at every
cut point, brute force), and — separately — bins the raw data itself in exact arithmetic (`histogram`, `otsuData`).
"""
import json
import math
import sys
import warnings
from fractions import Fraction

import numpy as np

from harness import core
from harness.core import Prop, outcome, orat, unrat

EPS = 2.0 ** -52
BINS = 256
LIMIT = 6000          # arrays up to this size are sent value by value to the binning model
MASK64 = (1 << 64) - 1
# Which of several maximising cuts comes back.  Cuts inside one run of empty bins give the float criterion identical
# operands, so np.argmax (first maximum) returns the first cut of the run; the mechanism model says so
# (`returned_is_first_of_run`) and with this switch on the check demands it of the implementation (impl-vs-model).
# The property text itself only asks for *a* maximiser: switched off, the position inside the run is recorded as a
# feature and not judged.
STRICT_FIRST_OF_RUN = False
# Behaviour the property text does not reach (NaN kept -> ValueError; constant arrays and stub histograms with empty end
# bins -> first centre through 0/0) is compared with the model and the outcome recorded as a feature
# ("outside-property:...:as-modelled" / "...:DIFFERS(recorded only)"); it is judged (impl-vs-model) only with this switch on.
JUDGE_OUTSIDE_PROPERTY = False
KNOWN_TOP_BINADE = "C15-top-binade-centres"
# "attains the maximum up to rounding": a cut passes when its exact criterion is within BUDGET_SLACK times the proved
# rounding budgets (of that cut and of the best cut) of the exact maximum
BUDGET_SLACK = 2


def fnum(v):
    return None if v is None or (isinstance(v, float) and math.isnan(v)) else float(v)


def np_dtype_of(case):
    """the NumPy dtype of the array handed to otsu: `np_dtype` when the case names one (uint8, int16, int32, bool, '>f8',
    ...), otherwise int64 / float64"""
    if case.get("np_dtype"):
        return np.dtype(case["np_dtype"])
    return np.dtype(np.int64 if case.get("dtype") == "int" else np.float64)


def cast_val(case, v):
    """a value of the abstract case as the array holds it (after conversion to the case's dtype), as int or float"""
    if v is None:
        return None
    dt = np_dtype_of(case)
    base = np.int64 if case.get("dtype") == "int" else np.float64
    w = np.array([v], dtype=base).astype(dt)[0]
    return int(w) if dt.kind in "iub" else float(w)


def tiles_of(case):
    """a pattern encoded case as [[pattern, repetitions], ...]: `tiles` as given, `rle` = patterns of length one"""
    if "tiles" in case:
        return [([cast_val(case, v) for v in p], int(r)) for p, r in case["tiles"]]
    return [([cast_val(case, v)], int(c)) for v, c in case["rle"]]


def encoded(case):
    return "rle" in case or "tiles" in case


def runs_of(case):
    """the (value, count) pairs of a pattern encoded case without its NaNs (what `x[~np.isnan(x)]` leaves, as a
    multiset): element i of a pattern repeated r times stands for r equal elements"""
    return [(v, r) for p, r in tiles_of(case) for v in p if v is not None and r > 0]


def m_n(case, clean):
    """the values the binning model was given: the runs of a pattern encoded case, every value otherwise"""
    return runs_of(case) if encoded(case) else range(int(clean.size))


def np_next(v, d):
    return float(np.nextafter(v, math.inf if d > 0 else -math.inf))


def run_otsu(x, *args, **kw):
    from pewlib.process.threshold import otsu

    with warnings.catch_warnings():
        warnings.simplefilter("ignore")
        with np.errstate(all="ignore"):
            try:
                return float(otsu(x, *args, **kw))
            except Exception as e:
                return {"raises": type(e).__name__, "msg": str(e)[:200]}


def expand(case):
    """the flat value sequence of a case (float64, or int64 for integer-valued cases): explicit `data`, or pattern
    encoded: `tiles` = [[pattern, repetitions], ...] (each pattern written out `repetitions` times, one tile after the
    other; `rle` = [[value, count], ...] is the special case of patterns of length one).  Large arrays: the abstract
    case stays a few hundred numbers long; NaN = null as in `data`"""
    dt = np.int64 if case.get("dtype") == "int" else np.float64
    if encoded(case):
        tiles = [([v for v in p], int(r)) for p, r in (case["tiles"] if "tiles" in case else [[[v], c] for v, c in case["rle"]])]
        parts = [np.tile(np.array([math.nan if v is None else v for v in p], dtype=dt), r) for p, r in tiles]
        return np.concatenate(parts) if parts else np.zeros(0, dtype=dt)
    if case.get("dtype") == "int":
        return np.array(case["data"], dtype=np.int64)
    return np.array([math.nan if v is None else v for v in case["data"]], dtype=np.float64)


LAYOUTS = ["C", "F", "strided", "reversed", "transposed", "readonly", "offset"]


def lay_out(a, layout):
    """the same array (same shape, same element at every index) in another memory layout: Fortran order, every
    second element of a larger buffer along the last axis, a negative stride along the first axis, a transposed view of
    the transposed copy, a read-only array, a view that starts inside a larger buffer"""
    if layout in (None, "C"):
        return a
    if layout == "F":
        return np.asfortranarray(a)
    if layout == "strided":
        big = np.empty(a.shape[:-1] + (2 * a.shape[-1],), dtype=a.dtype)
        big[..., 1::2] = a[..., ::-1]         # what lies between the elements: the same values in another order
        big[..., ::2] = a
        return big[..., ::2]
    if layout == "reversed":
        return a[::-1].copy()[::-1]
    if layout == "transposed":
        return a.T.copy().T
    if layout == "readonly":
        a = a.copy()
        a.setflags(write=False)
        return a
    if layout == "offset":
        big = np.empty(a.size + 3, dtype=a.dtype)
        big[:3] = a.ravel()[:1]
        big[3:] = a.ravel()
        return big[3:].reshape(a.shape)
    raise ValueError("unknown layout " + str(layout))


def build(case):
    a = expand(case)
    dt = np_dtype_of(case)
    if a.dtype != dt:
        a = a.astype(dt)
    return lay_out(a.reshape(case["shape"]), case.get("layout"))


class C15(Prop):
    id = "C15"
    anchored = ["src/pewlib/process/threshold.py"]
    cases = {"quick": 125, "thorough": 2400}
    rule = ("arrays of 2..1500 (thorough: ..6000) values in 1-5 dimensions: two values only, sizes 2 and 3, uni-, bi- and "
            "multi-modal normal mixtures, heavy tails (lognormal, Cauchy-like), integer-valued incl. int64 arrays and "
            "values exactly on bin edges (0..256), gapped clusters with empty bins, large offsets, negative values, "
            "NaNs at 0-60 % incl. first/last position; 11 %: exactly mirror-symmetric data (2..6 value pairs, 4..200 "
            "elements, small integers / dyadic fractions, centre- or edge-heavy: tied maxima in two separate runs of cuts); "
            "5 %: two populations in the last (first) two bins plus a far outlier of mass 1..3, 2^10..2^20 elements, "
            "run-length encoded; 2.5 % (+ 4 always): MORE THAN 2^21 ELEMENTS (thorough: up to 2^23 + 7; 1500 x 1500, "
            "1449 x 1449, 2^21 + 1, 1774 x 1774, 128 x 128 x 129, ...), pattern encoded (tiles = pattern x repetitions): the "
            "value depends on the flat index - alternating by parity, period 2..16 / 840 with the extreme values at one "
            "residue only, 1..25 bright pixels at indices of one residue class, a tiled 255..1024-value bimodal sample, "
            "sorted blocks with the extremes in a short tail, NaN runs; 6 %: EXTREME SCALES, ordinary data times m * 2^K "
            "(1 <= m < 2, |K| = 200..1070, largest magnitude below 2^1023, subnormal values); 1 % (+ 2 always): the top "
            "binade (known finding); 5 %: exactly two or three distinct values with populations up to 1 : 10^6, two values "
            "1..10^6 float steps apart, boolean images; then for every case: a narrower or byte-swapped dtype that holds "
            "the values (uint8 .. uint64, int8 .. int32, '>i4', '>f8', bool), unit axes / a split last axis (4-5 "
            "dimensions, 12 %), a memory layout (30 %: Fortran, strided, negative stride, transposed, read-only, offset "
            "view), remove_nan passed positionally (30 %).  Every case: otsu(x without NaN), otsu(x, remove_nan), the same "
            "values in a fresh array (second call), that array multiplied by a power of two IN PLACE and handed over "
            "again.  non-trivial = every case with >= 2 distinct values; distinct by canonical case hash")
    trusted = [
        "np.histogram(x, bins=256) (uniform bins between min and max, last bin closed) and np.argmax (first maximum) "
        "are external; the histogram NumPy returned is the input of the criterion check, and is itself compared with "
        "the binary64 binning model (counts and edge bits) for every array whose values or pattern positions number at "
        "most 6000",
        "IEEE-754 binary64 arithmetic is correctly rounded: every operation returns the double nearest to the exact "
        "result, so |fl(z) - z| <= 2^-53 |z| + 2^-1075 - the hypothesis of `float_criterion_within_budget`; Lean's `Float` "
        "operations (run natively by the driver) are those operations; np.ldexp by the frexp exponent is exact "
        "(evaluated per case: `scaled_centres_exact`)",
        "multiplying float data by a power of two is exact and NumPy's edges of the scaled data are the scaled edges "
        "(evaluated per case; otherwise the scaling clause is not judged)",
    ]
    assumptions = [
        "'attains the maximum up to rounding': the cut of the returned centre must reach the exact maximum of the "
        "criterion within BUDGET_SLACK = 2 times the proved rounding budgets of the two cuts (budget of a cut = bound on "
        "|binary64 criterion - exact criterion| for the code's operation sequence, `critListB` with u = 2^-53, "
        "eta = 2^-1075; about 5e-14 of the maximum for ordinary data, offset/spread * 5e-14 * ... for data on an offset)",
        "arrays whose 257 float edges are not strictly increasing, or for which np.histogram refuses 256 bins "
        "('Too many bins for data range', e.g. [1+2eps, 1+eps], subnormal data with a range below 256 steps, ranges "
        "beyond the float maximum: otsu raises ValueError there), are undetermined",
        "the power-of-two clause is judged when np.histogram's edges of the scaled data are the scaled edges and every "
        "bin centre before and after scaling is a double (midpoints of subnormal edges may not be)",
        "data whose larger end is >= 2^1023 in magnitude: pewlib's bin centres overflow (known finding "
        "C15-top-binade-centres)",
    ]

    # ------------------------------------------------------------------ generation
    def gen_values(self, rng, tier):
        big = tier == "thorough"
        n = rng.choice([2, 3, 4, 10, 50, 200, 200, 500, 1000, 1500] + ([3000, 6000] if big else []))
        kind = rng.choice(["two", "uni", "bi", "bi", "multi", "lognormal", "cauchy", "int255", "int256", "poisson",
                           "gapped", "offset", "negative", "uniform", "outlier", "tiny-range"])
        dtype = "float"
        return self.gen_kind(rng, tier, kind, n)

    def gen_kind(self, rng, tier, kind, n):
        big = tier == "thorough"
        dtype = "float"
        if kind in ("uni", "uniform", "negative", "int255") and rng.random() < 0.7:
            n = rng.choice([1000, 1500, 2500] + ([6000] if big else []))  # dense histograms: unique maximiser
        if kind == "two":
            a = rng.choice([0.0, 1.0, -3.5, rng.uniform(-100, 100)])
            b = a + rng.choice([1.0, 0.5, 255.0, 10.0 ** rng.uniform(-3, 6)])
            p = rng.choice([0.5, 0.1, 0.9, 0.01])
            v = [a if rng.random() < p else b for _ in range(n)]
            v[0], v[-1] = a, b
        elif kind == "uni":
            v = [rng.gauss(10, 2) for _ in range(n)]
        elif kind == "bi":
            m2, s1, s2, p = rng.uniform(1, 12), rng.uniform(0.3, 2), rng.uniform(0.3, 2), rng.choice([0.5, 0.2, 0.8, 0.05])
            v = [rng.gauss(0, s1) if rng.random() < p else rng.gauss(m2, s2) for _ in range(n)]
        elif kind == "multi":
            k = rng.choice([3, 4, 5])
            mus = [rng.uniform(0, 100) for _ in range(k)]
            v = [rng.gauss(rng.choice(mus), rng.uniform(0.5, 4)) for _ in range(n)]
        elif kind == "lognormal":
            v = [rng.lognormvariate(0, rng.choice([0.5, 1.5, 3.0])) for _ in range(n)]
        elif kind == "cauchy":
            v = [math.tan(math.pi * (rng.random() - 0.5)) for _ in range(n)]
        elif kind == "int255":
            v = [rng.randint(0, 255) for _ in range(n)]
            dtype = rng.choice(["float", "int"])
        elif kind == "int256":
            v = [rng.choice([0, 256, rng.randint(0, 256)]) for _ in range(n)]
            v[0], v[-1] = 0, 256  # bin width exactly 1: every value sits on an edge
            dtype = rng.choice(["float", "int"])
        elif kind == "poisson":
            lam = rng.choice([2, 20, 200])
            v = [int(max(0, round(rng.gauss(lam, math.sqrt(lam))))) + (1000 if rng.random() < 0.3 else 0) for _ in range(n)]
            dtype = rng.choice(["float", "int"])
        elif kind == "gapped":
            gap = 10.0 ** rng.uniform(1, 5)
            v = [rng.uniform(0, 1) + (gap if rng.random() < rng.choice([0.5, 0.1]) else 0) for _ in range(n)]
        elif kind == "offset":
            # a constant offset 10^4 .. 2^50 times the spread (beyond about 2^44 the 256 bins fall below the float
            # spacing and np.histogram refuses; just below, the rounding budget of the criterion approaches the criterion)
            off = rng.choice([1e4, 1e6, 1e8, 2.0 ** 20, 2.0 ** 27, 2.0 ** 30, 2.0 ** 36, 2.0 ** 40, 2.0 ** 44, 2.0 ** 47, 2.0 ** 50])
            off *= rng.choice([1, 1, -1])
            v = [off + (rng.gauss(0, 1) if rng.random() < 0.5 else rng.gauss(6, 1)) for _ in range(n)]
        elif kind == "negative":
            v = [-abs(rng.gauss(50, 30)) - (200 if rng.random() < 0.4 else 0) for _ in range(n)]
        elif kind == "uniform":
            v = [rng.uniform(-1, 1) for _ in range(n)]
        elif kind == "outlier":
            c = rng.choice([0.0, 5.0])
            v = [c] * n
            v[rng.randrange(n)] = c + rng.choice([1.0, 1e6, -3.0])
        else:  # tiny-range: a few ulps of spread around a large value
            base = rng.choice([1.0, 1e6])
            v = [base * (1 + rng.randint(0, rng.choice([1, 3, 1000, 10 ** 6])) * EPS) for _ in range(n)]
        if dtype == "int":
            v = [int(x) for x in v]
        else:
            v = [float(x) for x in v]
        return kind, dtype, v

    def gen_symmetric(self, rng):
        """exactly mirror-symmetric data: 2..6 value pairs lo + a_i / hi - a_i with the same count on both sides,
        4..200 elements, small integers or dyadic fractions (so that the float criterion is as symmetric as the exact
        one), no interior value on a bin edge (a value on an edge falls into the bin to its right, which would break
        the symmetry of the histogram); centre-heavy (counts grow towards the centre: cutting off either tail can
        beat the central cut, the tied maxima are then two separate runs of cuts), edge-heavy or arbitrary counts"""
        p = rng.choice([2, 2, 3, 3, 4, 5, 6])
        mode = rng.choice(["integer", "integer", "dyadic", "dyadic-about-0"])
        weight = rng.choice(["centre-heavy", "centre-heavy", "edge-heavy", "any"])
        # a dominant central population: the inner values sit close to the centre of the range
        tight = weight == "centre-heavy" and rng.random() < 0.7
        dtype = "float"
        if mode == "integer":
            while True:
                span = rng.randint(max(3, 2 * p - 1), rng.choice([12, 30, 64, 200]))
                ok = [a for a in range(1, (span + 1) // 2) if (a * BINS) % span != 0]
                if tight and len([a for a in ok if a > 0.35 * span]) >= p - 1:
                    ok = [a for a in ok if a > 0.35 * span]
                if len(ok) >= p - 1:
                    break
            offs = [0] + sorted(rng.sample(ok, p - 1))
            lo = rng.choice([0, 1, -span, rng.randint(-20, 20), rng.randint(0, 1000)])
            if span % 2 == 0 and rng.random() < 0.3:
                lo = -span // 2
            low = [lo + a for a in offs]
            high = [lo + span - a for a in offs]
            if rng.random() < 0.4:
                dtype = "int"
            else:
                low, high = [float(v) for v in low], [float(v) for v in high]
        else:
            span = 2.0 ** rng.randint(-3, 8)
            ks = sorted(rng.sample(range(90, 128) if tight else range(0, 128), p - 1))
            offs = [0.0] + [span * (k + rng.choice([0.25, 0.5, 0.75])) / BINS for k in ks]
            lo = -span / 2 if mode == "dyadic-about-0" else rng.choice([0.0, 1.0, -3.0, 100.0, -span, span * 0.75])
            low = [lo + a for a in offs]
            high = [lo + span - a for a in offs]
        half = rng.choice([2, 3, 5, 9, 20, 50, 100])
        half = max(half, p)
        g = rng.choice([1.5, 2.0, 3.5, 6.0])
        if weight == "any":
            w = [rng.uniform(0.2, 5) for _ in range(p)]
        else:
            w = [g ** i * rng.uniform(0.8, 1.25) for i in range(p)]      # index 0 = the two extreme values
            if weight == "edge-heavy":
                w.reverse()
        cnt = [max(1, int(round(x / sum(w) * half))) for x in w]
        while 2 * sum(cnt) > 200:
            cnt[cnt.index(max(cnt))] -= 1
        v = []
        for a, b, c in zip(low, high, cnt):
            v += [a] * c + [b] * c
        rng.shuffle(v)
        return "symmetric-" + weight, dtype, v

    def gen_extreme(self, rng, tier):
        """optimum at the last (mirrored: the first) cut: two populations in the last two bins and a far outlier of
        tiny mass that stretches the range to 256 bins.  Cutting off the outlier scores about m*n, the cut between
        the two populations about a*b/256^2, so the extreme cut is the optimum only beyond ~2^18 elements: sizes
        2^10..2^20, run-length encoded (the abstract case is a handful of runs)"""
        side = rng.choice(["last", "first"])
        large = rng.random() < 0.35
        n = rng.choice([2 ** 19, 2 ** 20, 2 ** 20] if large else [2 ** 10, 2 ** 12, 2 ** 14, 2 ** 16, 2 ** 18])
        if rng.random() < 0.3:
            n += rng.randint(-5, 5)
        dtype = "float"
        if rng.random() < 0.2:
            dtype, lo, span = "int", rng.choice([0, -1024, 7]), 1024             # quarter-bin positions are integers
        else:
            lo, span = rng.choice([(0.0, 1.0), (0.0, 256.0), (-1.0, 2.0), (3.0, 10.0), (1000.0, 64.0), (-0.7, 1.9)])
        m = rng.choice([1, 1, 1, 2, 3])
        pos = [(0.0, m)]                                                        # (bin position in [0, 256], count)
        if rng.random() < 0.25:
            pos.append((rng.randint(1, 250) + 0.5, 1))                          # a second straggler
        a = int(round((n - sum(c for _, c in pos)) * rng.choice([0.5, 0.5, 0.4, 0.6, 0.3])))
        b = n - sum(c for _, c in pos) - a
        for base, tot, must in ((254, a, None), (255, b, 256.0)):
            qs = rng.sample([0.25, 0.5, 0.75], rng.choice([1, 1, 2, 3]))
            qs = [base + q for q in qs]
            if must is not None:
                qs = [must] + qs[:-1]
            cuts = sorted(rng.sample(range(1, tot), len(qs) - 1))
            parts = [y - x for x, y in zip([0] + cuts, cuts + [tot])]
            pos += list(zip(qs, parts))
        if side == "first":
            pos = [(BINS - q, c) for q, c in pos]
        if dtype == "int":
            rle = [[int(lo + q * 4), c] for q, c in pos]
        else:
            rle = [[float(lo + span * q / BINS), c] for q, c in pos]
        rng.shuffle(rle)
        if dtype == "float" and rng.random() < 0.3:
            rle.insert(rng.choice([0, len(rle) // 2, len(rle)]), [None, rng.choice([1, 2, max(1, n // 100)])])
        n = sum(c for _, c in rle)
        shape = [n]
        if rng.random() < 0.6:
            d = rng.choice([2, 4, 8, 64, 1024])
            if n % d == 0:
                shape = [d, n // d] if rng.random() < 0.7 or (n // d) % 2 else [d, 2, n // d // 2]
        k = rng.choice([1, 2, 3, 10, -1, -7, 20, -20, -60, 100]) if dtype == "float" else rng.choice([1, 2, 5])
        return {"kind": "extreme-cut-" + side, "dtype": dtype, "shape": shape, "rle": rle, "scale_exp": k}

    # shapes with more than 2^21 elements (1-D, 2-D, 3-D; just above 2^21, 3*2^20, 2^22; 1500 x 1500)
    LARGE = [[1500, 1500], [1449, 1449], [2 ** 21 + 1], [2 ** 21 + 2], [2048, 1025], [1774, 1774], [128, 128, 129],
             [3 * 2 ** 20 + 5], [2, 1100000]]
    LARGER = [[2048, 2048], [2 ** 22 + 1], [2049, 2049], [2047, 2049], [5 * 2 ** 20 + 3], [6 * 2 ** 20 + 1], [7 * 2 ** 20 + 2], [2896, 2897],
              [2 ** 23], [2 ** 23 + 7], [256, 256, 128], [3000, 2500]]

    def gen_large(self, rng, tier):
        """more than 2^21 elements (thorough: up to 2^23 + 7), pattern encoded: the abstract case is a list of tiles
        (pattern, repetitions).  The value of an element depends on its flat index: alternating by parity, periodic
        with period 2..16 / 840 with the largest (smallest) value at one residue only, a few bright pixels at flat
        indices of one residue class on a flat background, a 255..1024-value bimodal sample tiled, or large sorted
        blocks with the extreme values in a short tail.  Any computation that does not look at every element (every
        k-th element, a leading block, whole blocks only) sees another minimum, maximum or histogram."""
        shape = list(rng.choice(self.LARGE + (self.LARGER if tier == "thorough" else [])))
        n = 1
        for d in shape:
            n *= d
        kind = rng.choice(["parity", "periodic", "periodic", "sparse", "sparse", "bimodal-tile", "bimodal-tile", "blocks"])
        dtype = "int" if rng.random() < 0.2 else "float"
        if dtype == "int":
            lo, span = rng.choice([0, -1024, 7, 1000]), rng.choice([255, 1024, 4095, 65535])
            val = lambda q: int(round(lo + span * q))
        else:
            lo, span = rng.choice([(0.0, 1.0), (0.0, 255.0), (-1.0, 2.0), (3.0, 10.0), (1000.0, 64.0), (-0.7, 1.9), (5e-7, 3e-6)])
            val = lambda q: float(lo + span * q)

        def fill(pattern, total):
            """tiles that write `pattern` again and again up to exactly `total` elements"""
            p = len(pattern)
            ts = [[pattern, total // p]] if total >= p else []
            if total % p:
                ts.append([pattern[:total % p], 1])
            return ts
        if kind == "parity":
            a, b = val(0.0), val(rng.choice([1.0, 0.5, 0.01]))
            pat = [a, b] if rng.random() < 0.6 else [b, a]
            tiles = fill(pat, n)
        elif kind == "periodic":
            p = rng.choice([2, 3, 3, 4, 5, 6, 7, 8, 12, 16, 840])
            dark = [val(rng.uniform(0.02, 0.3)) for _ in range(3)]
            bright = [val(rng.uniform(0.6, 0.95)) for _ in range(3)]
            frac = rng.choice([0.5, 0.3, 0.1])
            pat = [rng.choice(bright) if rng.random() < frac else rng.choice(dark) for _ in range(p)]
            r = rng.randrange(1, p)
            pat[r] = val(1.0)                               # the maximum: only at flat indices = r (mod p), r != 0
            r2 = rng.choice([i for i in range(p) if i != r])
            pat[r2] = val(0.0)                              # the minimum: only at another residue (may be 0)
            tiles = fill(pat, n)
        elif kind == "sparse":
            a, b = val(0.0), val(1.0)
            if rng.random() < 0.3:
                a, b = b, a                                 # dark pixels on a bright background
            k = rng.choice([1, 1, 2, 5, 25])
            p = rng.choice([2, 2, 2, 3, 4, 6, 8, 840])
            r = rng.randrange(1, p) if rng.random() < 0.85 else 0
            where = rng.choice(["anywhere", "anywhere", "last", "first"])
            m = (n - 1 - r) // p                            # residue class: indices r, r + p, ..., r + m p
            js = {m} if where == "last" else {0} if where == "first" else set()
            while len(js) < min(k, m + 1):
                js.add(rng.randint(0, m))
            tiles, at = [], 0
            for j in sorted(js):
                i = r + j * p
                if i > at:
                    tiles.append([[a], i - at])
                tiles.append([[b], 1])
                at = i + 1
            if n > at:
                tiles.append([[a], n - at])
        elif kind == "bimodal-tile":
            L = rng.choice([255, 256, 840, 1000, 1024])
            m2, s1, s2, pp = rng.uniform(4, 12), rng.uniform(0.3, 1.5), rng.uniform(0.3, 1.5), rng.choice([0.5, 0.3, 0.8, 0.05])
            raw = [rng.gauss(0, s1) if rng.random() < pp else rng.gauss(m2, s2) for _ in range(L)]
            a0, b0 = min(raw), max(raw)
            pat = [val((v - a0) / (b0 - a0)) for v in raw]
            tiles = fill(pat, n)
        else:  # blocks: a few levels in long sorted runs, the extreme values in a short tail (or head)
            levels = sorted(rng.uniform(0.05, 0.95) for _ in range(rng.choice([1, 2, 3, 5])))
            tail = rng.choice([1, 3, 1000, 65535, n % 65536 or 7])
            body = n - 2 * tail
            cuts = sorted(rng.sample(range(1, body), len(levels) - 1))
            runs = [[[val(q)], c] for q, c in zip(levels, [y - x for x, y in zip([0] + cuts, cuts + [body])])]
            ends = [[[val(0.0)], tail], [[val(1.0)], tail]]
            tiles = runs + ends if rng.random() < 0.6 else ends + runs
        if dtype == "float" and rng.random() < 0.35:
            # NaNs: a run of odd or even length in front (after removal every flat index has moved), inside, or at the end
            c = rng.choice([1, 1, 2, 3, 1001, n // 100])
            at = rng.choice([0, 0, len(tiles) // 2, len(tiles)])
            # keep the element count: take the NaNs out of the longest tile
            j = max(range(len(tiles)), key=lambda i: len(tiles[i][0]) * tiles[i][1])
            pj, rj = tiles[j]
            take = -(-c // len(pj))
            if rj > take + 1:
                tiles[j] = [pj, rj - take]
                c = take * len(pj)
                tiles.insert(at, [[None], c])
        tiles = [[list(pp_), int(r_)] for pp_, r_ in tiles if r_ > 0 and pp_]
        k = rng.choice([1, 2, 3, 10, -1, -7, 20, -20, -60, 100]) if dtype == "float" else rng.choice([1, 2, 5])
        return {"kind": "large-" + kind, "dtype": dtype, "shape": shape, "tiles": tiles, "scale_exp": k}

    def gen_stub(self, rng):
        """a hand-made histogram (handed to otsu through a stubbed np.histogram): empty bins at one or both ends, so that
        a class of some cuts is empty and the float mechanism produces 0/0"""
        n = rng.choice([2, 3, 8, 64, 256, 256])
        hist = [rng.choice([0, 0, 1, 2, 7, 100]) for _ in range(n)]
        a, b = rng.randint(0, n - 1), rng.randint(0, n - 1)
        hist[a], hist[b] = max(1, hist[a]), max(1, hist[b])
        end = rng.choice(["first", "last", "both", "none"])
        if end in ("first", "both"):
            for i in range(rng.randint(1, max(1, n // 3))):
                hist[i] = 0
        if end in ("last", "both"):
            for i in range(rng.randint(1, max(1, n // 3))):
                hist[n - 1 - i] = 0
        if end == "none":
            hist[0], hist[-1] = max(1, hist[0]), max(1, hist[-1])
        if sum(hist) == 0:
            hist[n // 2] = 3
        lo = rng.choice([0.0, -4.0, 1.0, 100.0])
        return {"kind": "stub-histogram", "hist": hist, "lo": lo, "hi": lo + rng.choice([1.0, 8.0, 256.0, 0.5])}

    def gen_few(self, rng, tier):
        """images with exactly two or three distinct values: populations as unbalanced as 1 : 10^6 (run-length encoded),
        values a few hundred float steps apart (256 steps is the least np.histogram accepts; below: it raises and the
        case is undetermined), boolean images"""
        kind = rng.choice(["two-unbalanced", "two-unbalanced", "two-adjacent", "two-adjacent", "three-valued", "three-valued", "bool"])
        if kind == "bool":
            n = rng.choice([2, 3, 10, 1000])
            v = [int(rng.random() < rng.choice([0.5, 0.1, 0.9])) for _ in range(n)]
            v[rng.randrange(n)] = 1
            v[rng.choice([i for i in range(n) if v[i] == 0] or [0])] = 0
            if sum(v) == n:
                v[0] = 0
            return {"kind": "bool", "dtype": "int", "np_dtype": "bool", "shape": [n], "data": v, "scale_exp": rng.choice([1, 3])}
        a = rng.choice([0.0, 1.0, -3.5, 1e6, rng.uniform(-100, 100), 2.0 ** -20])
        if kind == "two-adjacent":
            steps = rng.choice([256, 256, 257, 300, 511, 512, 1000, 4096, 10 ** 6, 255, 2, 1])
            b = a
            if steps <= 4096:
                for _ in range(steps):
                    b = np_next(b, 1)
            else:
                b = a + steps * (np_next(abs(a) or 1.0, 1) - (abs(a) or 1.0))
            vals = [a, b]
        elif kind == "two-unbalanced":
            vals = [a, a + rng.choice([1.0, 0.5, 255.0, 10.0 ** rng.uniform(-3, 6)])]
        else:
            d1, d2 = rng.choice([(1.0, 1.0), (1.0, 9.0), (9.0, 1.0), (1.0, 1000.0), (1e-3, 1.0), (0.5, 0.25)])
            vals = [a, a + d1, a + d1 + d2]
        big = rng.choice([10 ** 3, 10 ** 5, 10 ** 6])
        cnts = [rng.choice([1, 1, 2, 7, big, big // 2]) for _ in vals]
        if max(cnts) < 100:
            cnts[rng.randrange(len(cnts))] = big
        rle = [[v, c] for v, c in zip(vals, cnts)]
        rng.shuffle(rle)
        if rng.random() < 0.3:       # a population split in two runs: the rare value in the middle of the common one
            j = max(range(len(rle)), key=lambda i: rle[i][1])
            v, c = rle[j]
            if c > 3:
                rest = [r_ for i, r_ in enumerate(rle) if i != j]
                cut = rng.randint(1, c - 1)
                rle = [[v, cut]] + rest + [[v, c - cut]]
        if rng.random() < 0.25:
            rle.insert(rng.choice([0, len(rle)]), [None, rng.choice([1, 2, 1000])])
        n = sum(c for _, c in rle)
        return {"kind": kind, "dtype": "float", "shape": [n], "rle": rle,
                "scale_exp": rng.choice([1, 2, 3, 10, -1, -7, 20, -20, -60, 100])}

    def gen_extreme_scale(self, rng, tier):
        """ordinary data multiplied by m * 2^K, 1 <= m < 2 (not a power of two in general), K up to +-1070: magnitudes
        whose squares overflow or underflow, down to subnormal values; the largest magnitude stays below 2^1023 (top
        binade: see `gen_top_binade`).  The scaled run goes back towards ordinary magnitudes, or further out"""
        while True:
            kind, dtype, v = self.gen_values(rng, tier)
            if dtype == "float" and kind not in ("tiny-range",) and len(v) <= 1500:
                break
        sgn = rng.choice([1, 1, -1, -1, -1])
        K = rng.choice([200, 400, 500, 505, 508, 511, 512, 520, 538, 539, 540, 600, 900, 1000, 1010, 1020] +
                       ([1040, 1060, 1070] if sgn < 0 else []))
        m = rng.choice([1.0, rng.uniform(1, 2), 1.5])
        while True:
            try:
                data = [math.ldexp(x * m, sgn * K) for x in v]
            except OverflowError:
                data = [math.inf]
            if all(math.isfinite(x) for x in data) and max(abs(x) for x in data) < 2.0 ** 1023:
                break
            K -= 7
        pn = rng.choice([0, 0, 0, 0.1])
        if pn:
            data = [None if rng.random() < pn else x for x in data]
        k = rng.choice([1, -1, 3, -sgn * K, -sgn * (K - 100), -sgn * 2 * K])
        while True:      # the scaled data stays finite and below the top binade
            fin = [x for x in data if x is not None]
            try:
                sc = [math.ldexp(x, k) for x in fin]
            except OverflowError:
                sc = [math.inf]
            if all(abs(x) < 2.0 ** 1023 for x in sc):
                break
            k = k // 2 if abs(k) > 1 else -1
        return {"kind": "extreme-scale-" + kind, "dtype": "float", "shape": [len(data)], "data": data, "scale_exp": k}

    def gen_top_binade(self, rng):
        """finite data whose larger end is at least 2^1023 in magnitude (known finding C15-top-binade-centres: the sum
        of two neighbouring edges overflows in pewlib's bin centres)"""
        base = rng.choice([[0.0, 1.0, 3.0], [-3.0, -1.0, 0.0], [0.5, 1.0, 1.0, 1.75], [0.0, 0.25, 0.5, 0.5, 1.9],
                           [-1.9, -1.0, -0.5, -0.5, 0.0]])
        top = max(abs(x) for x in base)
        e = 1023 - int(math.floor(math.log2(top)))
        data = [math.ldexp(x, e) for x in base]
        rng.shuffle(data)
        return {"kind": "top-binade", "dtype": "float", "shape": [len(data)], "data": data,
                "scale_exp": rng.choice([-1, -3, -600, -1022])}

    def decorate(self, case, rng):
        """the same values as another array: a narrower or byte-swapped dtype that holds them exactly, another memory
        layout, more dimensions; remove_nan passed positionally"""
        if case.get("kind") == "stub-histogram":
            return case
        vals = [v for v in (case["data"] if "data" in case else [w for p, _ in
                (case["tiles"] if "tiles" in case else [[[v], c] for v, c in case["rle"]]) for w in p]) if v is not None]
        if "np_dtype" not in case and vals:
            if case["dtype"] == "int" and rng.random() < 0.6:
                lo, hi = min(vals), max(vals)
                fits = [d for d, (a, b) in (("uint8", (0, 255)), ("int8", (-128, 127)), ("uint16", (0, 65535)),
                                            ("int16", (-32768, 32767)), ("int32", (-2 ** 31, 2 ** 31 - 1)),
                                            ("uint32", (0, 2 ** 32 - 1)), (">i4", (-2 ** 31, 2 ** 31 - 1)),
                                            ("uint64", (0, 2 ** 53))) if a <= lo and hi <= b]
                if fits:
                    case["np_dtype"] = rng.choice(fits)
            elif case["dtype"] == "float" and rng.random() < 0.06:
                case["np_dtype"] = ">f8"
        shape = list(case["shape"])
        if rng.random() < 0.12:
            # four or five dimensions: unit axes added, and the last axis split when it is even
            if shape[-1] % 2 == 0 and shape[-1] >= 4 and rng.random() < 0.6:
                shape = shape[:-1] + [shape[-1] // 2, 2]
            while len(shape) < rng.choice([4, 5]):
                shape.insert(rng.randint(0, len(shape)), 1)
            case["shape"] = shape
        if rng.random() < 0.3:
            case["layout"] = rng.choice([l for l in LAYOUTS if l != "C"])
        if rng.random() < 0.3:
            case["positional"] = True
        return case

    def generate(self, rng, tier):
        return self.decorate(self.generate_values(rng, tier), rng)

    def generate_values(self, rng, tier):
        r = rng.random()
        if r < 0.05:
            return self.gen_extreme(rng, tier)
        if r < 0.075:
            return self.gen_large(rng, tier)
        if r < 0.135:
            return self.gen_extreme_scale(rng, tier)
        if r < 0.185:
            return self.gen_few(rng, tier)
        if r < 0.195:
            return self.gen_top_binade(rng)
        if r > 0.96:
            return self.gen_stub(rng)
        if r > 0.94:   # constant arrays (outside the property; the model's NaN path is recorded)
            n = rng.choice([1, 2, 5, 40])
            c = rng.choice([0.0, 5.0, -2.5, 1e6, 2.0 ** -30])
            v = [c] * n
            if rng.random() < 0.4:
                v.insert(rng.randint(0, n), None)
            return {"kind": "constant", "dtype": "float", "shape": [len(v)], "data": v, "scale_exp": 1}
        if r < 0.31:
            kind, dtype, v = self.gen_symmetric(rng)
        else:
            kind, dtype, v = self.gen_values(rng, tier)
        if dtype == "float" and kind.startswith("symmetric"):
            # NaNs are added, not substituted: the finite part stays mirror symmetric
            for _ in range(rng.choice([0, 0, 0, 1, 3, len(v) // 2])):
                v.insert(rng.choice([0, len(v), rng.randint(0, len(v))]), None)
        elif dtype == "float":
            pn = rng.choice([0, 0, 0.02, 0.2, 0.6])
            if pn:
                v = [None if rng.random() < pn else x for x in v]
                if rng.random() < 0.5:
                    v[0] = None
                if rng.random() < 0.5:
                    v[-1] = None
        n = len(v)
        shape = [n]
        if n >= 4 and rng.random() < 0.6:
            divs = [d for d in range(2, int(math.isqrt(n)) + 1) if n % d == 0]
            if divs:
                d = rng.choice(divs)
                shape = [d, n // d]
                if (n // d) % 2 == 0 and rng.random() < 0.3:
                    shape = [d, 2, n // d // 2]
        k = rng.choice([1, 2, 3, 8, 10, -1, -2, -7, 20, -20, -45, -60, -100, 45, 100]) if dtype == "float" else rng.choice([1, 2, 5])
        return {"kind": kind, "dtype": dtype, "shape": shape, "data": v, "scale_exp": k}

    def targeted(self, tier):
        yield {"kind": "two", "dtype": "float", "shape": [2], "data": [0.0, 1.0], "scale_exp": 3}
        yield {"kind": "two", "dtype": "float", "shape": [2], "data": [1.0, 0.0], "scale_exp": -3}
        yield {"kind": "two", "dtype": "int", "shape": [2, 2], "data": [0, 255, 255, 0], "scale_exp": 1}
        yield {"kind": "three", "dtype": "float", "shape": [3], "data": [0.0, 1.0, 10.0], "scale_exp": 1}
        yield {"kind": "three", "dtype": "float", "shape": [3], "data": [0.0, 9.0, 10.0], "scale_exp": 1}
        yield {"kind": "nan", "dtype": "float", "shape": [2, 3], "data": [None, 0.0, 1.0, None, 10.0, None], "scale_exp": 2}
        yield {"kind": "int256", "dtype": "int", "shape": [257], "data": list(range(257)), "scale_exp": 1}
        yield {"kind": "int255", "dtype": "float", "shape": [16, 16], "data": [float(i) for i in range(256)], "scale_exp": -4}
        yield {"kind": "symmetric", "dtype": "float", "shape": [4], "data": [0.0, 1.0, 9.0, 10.0], "scale_exp": 1}
        yield {"kind": "first-bin-heavy", "dtype": "float", "shape": [6], "data": [0.0, 0.0, 0.0, 0.0, 0.0, 1.0], "scale_exp": 1}
        yield {"kind": "last-bin-heavy", "dtype": "float", "shape": [6], "data": [0.0, 1.0, 1.0, 1.0, 1.0, 1.0], "scale_exp": 1}
        # mirror-symmetric about 0, dyadic: centre-heavy (either tail cut beats the central cut) and edge-heavy
        a, b = 0.265625, 1.765625
        yield {"kind": "symmetric-centre-heavy", "dtype": "float", "shape": [2, 10],
               "data": [-4.0, -a, a, -a, a, 4.0, -a, a, -a, a, -a, a, -b, b, a, -a, -4.0, a, -a, 4.0], "scale_exp": 2}
        yield {"kind": "symmetric-edge-heavy", "dtype": "float", "shape": [10],
               "data": [-4.0, 4.0, -4.0, 4.0, -4.0, 4.0, -0.765625, 0.765625, -4.0, 4.0], "scale_exp": -2}
        # outside the property: the NaN path of the mechanism (empty end bins), through a stubbed np.histogram / constant data
        yield {"kind": "stub-histogram", "hist": [0, 3, 0, 2], "lo": 0.0, "hi": 4.0}
        yield {"kind": "stub-histogram", "hist": [2, 1, 0, 0], "lo": 0.0, "hi": 4.0}
        yield {"kind": "stub-histogram", "hist": [0, 0, 5, 1, 0, 2, 0, 0], "lo": -4.0, "hi": 4.0}
        yield {"kind": "stub-histogram", "hist": [0] * 100 + [7] + [0] * 100 + [3] + [0] * 54, "lo": 1.0, "hi": 257.0}
        yield {"kind": "stub-histogram", "hist": [2, 0, 1, 3], "lo": 0.0, "hi": 4.0}
        yield {"kind": "constant", "dtype": "float", "shape": [4], "data": [5.0, 5.0, 5.0, 5.0], "scale_exp": 1}
        yield {"kind": "constant", "dtype": "float", "shape": [3], "data": [None, 0.0, 0.0], "scale_exp": 1}
        # values one ulp either side of an interior edge, and on it (the correction steps of np.histogram decide)
        e = 1.0 + 77 / 256
        yield {"kind": "edge-ulp", "dtype": "float", "shape": [8],
               "data": [1.0, 2.0, e, np_next(e, 1), np_next(e, -1), 1.5, np_next(1.5, -1), np_next(2.0, -1)], "scale_exp": 1}
        yield {"kind": "edge-ulp", "dtype": "float", "shape": [6],
               "data": [0.1, 0.7, 0.1 + 0.6 * 3 / 256, 0.1 + 0.6 * 7 / 256, 0.1 + 0.6 * 100 / 256, 0.1 + 0.6 * 255 / 256], "scale_exp": 2}
        # 2^20 elements: two populations in the last (first) two bins and one far outlier; the optimum is the extreme cut
        h = 2 ** 19
        yield {"kind": "extreme-cut-last", "dtype": "float", "shape": [1024, 1024],
               "rle": [[0.0, 1], [254.5 / 256, h - 1], [1.0, h]], "scale_exp": 1}
        yield {"kind": "extreme-cut-first", "dtype": "float", "shape": [2 ** 20 + 1],
               "rle": [[3.5, h - 7], [2.0, h + 7], [258.0, 1]], "scale_exp": -3}
        # magnitudes whose squares overflow / underflow (the criterion is formed from rescaled centres), subnormal values
        yield {"kind": "extreme-scale", "dtype": "float", "shape": [3], "data": [0.0, math.ldexp(1.0, 511), math.ldexp(3.0, 511)], "scale_exp": -511}
        yield {"kind": "extreme-scale", "dtype": "float", "shape": [3], "data": [0.0, math.ldexp(1.0, -539), math.ldexp(3.0, -539)], "scale_exp": 539}
        yield {"kind": "extreme-scale", "dtype": "float", "shape": [2, 3],
               "data": [math.ldexp(v, 1020) for v in (-1.75, 1.5, 1.25, -1.0, 1.9, 1.6)], "scale_exp": -2040}
        yield {"kind": "extreme-scale", "dtype": "float", "shape": [6],
               "data": [math.ldexp(v, -1066) for v in (0.0, 1.0, 3.0, 3.0, 2.5, 0.25)], "scale_exp": 1066}
        yield {"kind": "extreme-scale", "dtype": "float", "shape": [5],
               "data": [v * 1.7e150 for v in (0.3, 1.1, 3.9, 4.0, 0.31)], "scale_exp": -1000}
        yield {"kind": "extreme-scale", "dtype": "float", "shape": [4],
               "data": [math.ldexp(-3.0, 600), math.ldexp(-2.0, 600), 0.0, math.ldexp(-2.0, 600)], "scale_exp": -600}
        # the top binade: finite data, the sum of two neighbouring edges overflows (known finding C15-top-binade-centres)
        yield {"kind": "top-binade", "dtype": "float", "shape": [3], "data": [0.0, math.ldexp(1.0, 1022), math.ldexp(3.0, 1022)], "scale_exp": -1022}
        yield {"kind": "top-binade", "dtype": "float", "shape": [3], "data": [math.ldexp(-3.0, 1022), math.ldexp(-1.0, 1022), 0.0], "scale_exp": -3}
        # dtypes and memory layouts
        yield {"kind": "int255", "dtype": "int", "np_dtype": "uint8", "shape": [4, 4], "layout": "F",
               "data": [0, 10, 12, 200, 255, 9, 11, 201, 13, 199, 198, 12, 10, 9, 202, 8], "scale_exp": 1}
        yield {"kind": "poisson", "dtype": "int", "np_dtype": "int16", "shape": [2, 2, 2], "layout": "strided",
               "data": [-300, -290, 5, 7, 6, -295, 1000, 4], "scale_exp": 2}
        yield {"kind": "bool", "dtype": "int", "np_dtype": "bool", "shape": [5], "data": [1, 0, 1, 1, 0], "scale_exp": 1}
        yield {"kind": "bi", "dtype": "float", "np_dtype": ">f8", "shape": [1, 3, 1, 2], "layout": "reversed", "positional": True,
               "data": [0.5, None, 7.25, 0.75, 8.0, 7.5], "scale_exp": -3}
        yield {"kind": "bi", "dtype": "float", "shape": [3, 2], "layout": "readonly",
               "data": [0.5, 1.0, 7.25, 0.75, 8.0, None], "scale_exp": 5}
        yield {"kind": "bi", "dtype": "float", "shape": [2, 3], "layout": "transposed", "data": [0.5, 1.0, 7.25, 0.75, 8.0, 7.0], "scale_exp": 1}
        yield {"kind": "bi", "dtype": "float", "shape": [6], "layout": "offset", "data": [0.5, 1.0, 7.25, 0.75, 8.0, 7.0], "scale_exp": 1}
        # two values 1 : 10^6, the rare one in the middle; two values 256 float steps apart; three values
        yield {"kind": "two-unbalanced", "dtype": "float", "shape": [10 ** 6 + 1], "rle": [[2.5, 400000], [7.0, 1], [2.5, 600000]], "scale_exp": 1}
        yield {"kind": "two-adjacent", "dtype": "float", "shape": [10 ** 5 + 2],
               "rle": [[1.0 + 256 * EPS, 1], [1.0, 10 ** 5], [1.0 + 256 * EPS, 1]], "scale_exp": -1}
        yield {"kind": "three-valued", "dtype": "float", "shape": [1003], "rle": [[0.0, 1], [1.0, 1000], [1000.0, 2]], "scale_exp": 2}
        # more than 2^21 elements, value by flat index (pattern encoded).  1500 x 1500: flat background, five bright
        # pixels at odd flat indices (two-valued)
        pos, tiles, at = [101, 70001, 1234567, 2000001, 2249999], [], 0
        for i in pos:
            tiles += [[[0.0], i - at], [[1.0], 1]]
            at = i + 1
        yield {"kind": "large-sparse", "dtype": "float", "shape": [1500, 1500], "tiles": tiles, "scale_exp": 1}
        # 2^21 + 2 elements alternating by index parity (two-valued, balanced)
        yield {"kind": "large-parity", "dtype": "float", "shape": [2 ** 21 + 2], "tiles": [[[3.0, 7.5], 2 ** 20 + 1]], "scale_exp": 3}
        # 1774 x 1774 (> 3 * 2^20), period 3: the maximum at indices = 1 (mod 3), the minimum at indices = 2 (mod 3)
        yield {"kind": "large-periodic", "dtype": "int", "shape": [1774, 1774],
               "tiles": [[[40, 255, 0], 1774 * 1774 // 3], [[40], 1]], "scale_exp": 1}
        # 2 800 001 elements, period 4 with a NaN at indices = 0 (mod 4): removal requested, 2 100 001 numbers remain
        yield {"kind": "large-periodic", "dtype": "float", "shape": [2800001],
               "tiles": [[[None, 0.25, 10.0, 0.5], 700000], [[9.5], 1]], "scale_exp": -2}

    # ------------------------------------------------------------------ evaluation
    def evaluate(self, case, ctx):
        if case["kind"] == "stub-histogram":
            return self.eval_stub(case, ctx)
        x = build(case)
        isfloat = x.dtype.kind == "f"
        isint = not isfloat
        flat = x.ravel()
        clean = flat[~np.isnan(flat)] if isfloat else flat
        has_nan = clean.size != flat.size
        feats = {f"kind:{case['kind']}", f"ndim{len(case['shape'])}", "dtype:" + x.dtype.str.lstrip("<|="),
                 "size:" + ("2" if clean.size == 2 else "3" if clean.size == 3 else "<=50" if clean.size <= 50 else ">50")}
        if case.get("layout") not in (None, "C"):
            feats.add("layout:" + case["layout"])
        # the distinct values: of a pattern encoded case they are read off the patterns (its value sequence is large)
        distinct = (np.array(sorted({float(v) for v, _ in runs_of(case)}), dtype=np.float64) if encoded(case)
                    else np.unique(clean).astype(np.float64))
        if distinct.size < 2:
            return self.eval_outside(case, x, flat, clean, ctx)
        lo, hi = float(clean.min()), float(clean.max())
        if clean.size > 2 ** 21:
            feats.add("size:>2^21" if clean.size <= 2 ** 22 else "size:>2^22")
            feats.add("large:" + ("%d-D" % len(case["shape"])))
            # what a computation that looks at every s-th element only would lose
            for s_ in (2, 3, 4, 8):
                sub = clean[::s_]
                if float(sub.min()) != lo or float(sub.max()) != hi:
                    feats.add("large:every-%d-th-element-misses-min-or-max" % s_)
        hist = edges = None
        with np.errstate(all="ignore"), warnings.catch_warnings():
            warnings.simplefilter("ignore")
            try:
                hist, edges = np.histogram(clean, bins=BINS)
            except ValueError:  # "Too many bins for data range": 256 finite-sized float bins do not exist
                pass
        # --- np.histogram against its double-precision model (every value, no tolerance)
        binning_ok, bfeats, drep = self.check_binning(case, flat, clean, isint, hist, edges, ctx)
        if hist is None:
            return outcome({}, {}, {}, undetermined=binning_ok, model_ok=binning_ok,
                           features=feats | bfeats | {"range-below-float-resolution(histogram raises)"},
                           note="range below float resolution")
        big_mag = max(abs(lo), abs(hi))
        if big_mag >= 2.0 ** 500 or big_mag <= 2.0 ** -500:
            feats.add("extreme-scale:" + ("max|x|>=2^1023" if big_mag >= 2.0 ** 1023 else "max|x|>=2^500" if big_mag >= 1
                                          else "subnormal-values" if big_mag < 2.0 ** -1022 else "max|x|<=2^-500"))
        # --- the implementation at its observation point (and the two relational runs)
        arg = x if not has_nan else clean.reshape(-1)
        t = run_otsu(arg)                       # data without NaNs
        # NaN removal requested on the data as given (positionally or by keyword)
        t_rm = run_otsu(x, True) if case.get("positional") else run_otsu(x, remove_nan=True)
        k = case["scale_exp"]
        # a history on one array object: the same image in a fresh array (second call), then that array multiplied by
        # 2^k IN PLACE and handed over again (a result that depends on earlier calls or on the identity of the object
        # is judged as well)
        with np.errstate(all="ignore"):
            if isfloat:
                scaled = np.array(arg, dtype=arg.dtype.newbyteorder("="), order="C", copy=True)
            elif k >= 0 and max(abs(lo), abs(hi)) * 2.0 ** k < 2.0 ** 62:
                scaled = arg.astype(np.int64, order="C", copy=True)
            else:
                scaled = arg.astype(np.float64, order="C", copy=True)
            t2 = run_otsu(scaled)
            if scaled.dtype.kind == "f":
                np.ldexp(scaled, k, out=scaled)
            else:
                scaled *= 2 ** k
        t_sc = run_otsu(scaled)
        impl = {"threshold": t, "threshold_remove_nan": t_rm, "threshold_scaled": t_sc, "threshold_second_call": t2}
        # --- Lean: mechanism (NaN-carrying, rescaled centres) + brute-force specification on NumPy's histogram
        rep = ctx.driver.call("c15.hist", hist=[int(v) for v in hist], edges=[core.rat(float(v)) for v in edges],
                              edge_bits=[str(core.tok(float(v)) & MASK64) for v in edges], slack=[BUDGET_SLACK, 1])
        flt = rep["float"]
        centres_exact = [unrat(c) for c in rep["centres"]]
        centres = [float(c) for c in centres_exact]
        crit = [unrat(c) for c in rep["spec_crit"]]      # in units of 4^scale_exp
        best = unrat(rep["spec_best"])
        du = abs(float(unrat(rep["spec_best_du"])))       # in units of 2^scale_exp
        # "up to rounding": the cuts whose exact criterion is within the rounding budget of the maximum.  The budget
        # of a cut is the proved bound on |float criterion - exact criterion| for the code's sequence of binary64
        # operations (Lean: `float_criterion_within_budget`, evaluated by the driver with u = 2^-53, eta = 2^-1075);
        # a cut j can win the float argmax only if crit_j + budget_j >= best - budget_best
        # (`float_argmax_within_budget`).  BUDGET_SLACK (2) allows for implementations that order the same sums and
        # products differently.  Where the float criterion is not finite (top binade) the old allowance is used.
        if flt["all_finite"]:
            near = [int(j) for j in flt["near_budget"]]
        else:
            tol = 1e-9 + 2048 * EPS * float(unrat(rep["outer_scaled"])) / du if du > 0 else 1.0
            near = [j for j, c in enumerate(crit) if c >= best * (1 - Fraction(tol))]
        cls = rep["class_start"]                # first cut of the run of empty bins each cut lies in (Lean: classStart)
        near_classes = sorted({cls[j] for j in near})
        model_t = float(unrat(rep["threshold"]))
        model = {"threshold": model_t, "index": rep["index"], "threshold_remove_nan": model_t,
                 "threshold_scaled": math.ldexp(model_t, k), "threshold_second_call": model_t,
                 "scale_exp": rep["scale_exp"]}
        spec = {"best_index": rep["spec_best_index"], "best_criterion(units 4^scale_exp)": float(best),
                "cuts_within_rounding": near[:8], "tie_classes_within_rounding": near_classes[:8],
                "centre_of_best": centres[rep["spec_best_index"]], "range": [lo, hi]}
        # pewlib's own arithmetic on finite data: the sum of two neighbouring edges overflows in the top binade
        with np.errstate(all="ignore"):
            centre_sum_overflows = bool(np.any(np.isinf(edges[1:] + edges[:-1])))
        if centre_sum_overflows:
            feats.add("top-binade:centre-sum-overflows")
        note = json.dumps({"centre_sum_overflows": centre_sum_overflows, "max_abs": big_mag >= 2.0 ** 1023})
        # (e) power-of-two scaling.  The clause can only be met together with "is a bin centre" when NumPy's edges of the
        # scaled data are the scaled edges (always, short of over/underflow inside np.histogram): judged then
        with np.errstate(all="ignore"), warnings.catch_warnings():
            warnings.simplefilter("ignore")
            try:
                hist_s, edges_s = np.histogram(scaled, bins=BINS)
                edges_scale = (np.array_equal(hist_s, hist)
                               and np.array_equal(np.asarray(edges_s, dtype=np.float64),
                                                  np.ldexp(np.asarray(edges, dtype=np.float64), k))
                               and bool(np.all(np.isfinite(edges_s))))
            except ValueError:
                edges_scale = False
                if isinstance(t_sc, dict) and t_sc.get("raises") == "ValueError":
                    # NumPy cannot bin the scaled data (256 bins below float resolution): nothing to compare
                    t_sc = impl["threshold_scaled"] = None
                    model["threshold_scaled"] = None
        if any(isinstance(v, dict) for v in impl.values()):
            return outcome(impl, model, spec, spec_ok=False, model_ok=False, features=feats | bfeats, note=note)
        # (a) one of the 256 centres
        idx = [j for j, c in enumerate(centres) if c == t]
        is_centre = len(idx) >= 1
        ki = idx[0] if idx else None
        impl["index"] = ki
        # (b) in [min, max)
        in_range = lo <= t < hi
        # (c) attains the maximum between-class criterion over all cut points, up to rounding
        attains = ki is not None and ki <= BINS - 2 and ki in near
        impl["criterion_at_returned_cut(units 4^scale_exp)"] = None if ki is None or ki > BINS - 2 else float(crit[ki])
        # (d) two-valued images are separated
        separates = True
        if distinct.size == 2:
            feats.add("two-valued")
            separates = (not (float(distinct[0]) > t)) and float(distinct[1]) > t
        elif distinct.size == 3:
            feats.add("three-valued")
        # ... and when rounding a bin centre to a double commutes with the scaling (not so for midpoints of subnormal
        # edges, or when the scaled centre is subnormal)

        def commutes(c, e):
            try:
                return math.ldexp(float(c), e) == float(c * Fraction(2) ** e)
            except OverflowError:
                return False
        centres_scale = all(commutes(c, k) for c in centres_exact)
        if edges_scale and centres_scale:
            scales = t_sc == math.ldexp(t, k)
        else:
            scales = True
            feats.add("scaling-not-judged:" + ("numpy-edges-of-scaled-data-are-not-the-scaled-edges" if not edges_scale
                                               else "rounding-of-a-bin-centre-does-not-commute-with-the-scaling(subnormal)"))
        # (f) NaN removal; and the second call on the same image
        nan_same = t_rm == t
        again = t2 == t
        feats.add("scale:2^%+d" % k)
        if case.get("positional"):
            feats.add("remove_nan-passed-positionally")
        if has_nan:
            feats.add("with-NaN")
            if math.isnan(float(flat[0])):
                feats.add("NaN-first")
            if math.isnan(float(flat[-1])):
                feats.add("NaN-last")
        spec_ok = is_centre and in_range and attains and separates and scales and nan_same and again
        impl["checks"] = {"is_centre": is_centre, "in_[min,max)": in_range, "attains_max": attains, "separates": separates,
                          "scales": scales, "nan_removed_same": nan_same, "second_call_same": again}
        spec["checks"] = {kk: True for kk in impl["checks"]}
        if int(np.count_nonzero(hist == 0)) > 0:
            feats.add("empty-bins")
        if len(near) > 1:
            feats.add("flat-criterion(>1 cut within rounding)")
        if sum(1 for c in crit if c == best) > 1:
            feats.add("exact-ties-at-maximum")
        if rep["spec_best_index"] == 0:
            feats.add("best-cut-first")
        if rep["spec_best_index"] == BINS - 2:
            feats.add("best-cut-last")
        if [int(v) for v in hist] == [int(v) for v in hist[::-1]]:
            feats.add("mirror-symmetric-histogram")
        tied = [j for j, c in enumerate(crit) if c == best]
        if tied[-1] - tied[0] + 1 > len(tied):
            feats.add("tied-maxima-in-separate-runs")
        if case["kind"].startswith("extreme-cut"):
            if rep["spec_best_index"] == BINS - 2 and len(near) == 1:
                feats.add("extreme-cut:optimum-is-last-cut")
            elif rep["spec_best_index"] == 0 and len(near) == 1:
                feats.add("extreme-cut:optimum-is-first-cut")
            else:
                feats.add("extreme-cut:optimum-cuts-off-the-outlier")
        # --- correspondence with the mechanism model.  The histogram comes from data with two distinct values, so
        # its end bins are occupied (`guard`): no class is empty, no NaN arises, the mechanism is the specification;
        # the rescaling step moves neither the argmax nor the value (`rescaling_keeps_argmax`), the rescaled centres
        # are below one in magnitude (`scaled_centres_bounded`)
        model_ok = rep["guard"] and rep["first_nan"] is None and rep["mech_is_spec"] and rep["model_index_is_best"]
        model_ok = (model_ok and rep["unscaled_index"] == rep["index"] and rep["unscaled_threshold"] == rep["threshold"]
                    and rep["scaled_centres_below_one"] and rep["spec_units_agree"])
        model_ok = model_ok and binning_ok
        # the float criterion: the budget program's exact components are the specification (`critListB_fst`), every
        # binary64 entry lies within its budget (an instance of `float_criterion_within_budget`), the rescaling was exact
        if flt["all_finite"]:
            feats.add("rounding-budget(relative to the maximum):" + (
                "<1e-12" if float(unrat(flt["budget_rel_best"])) < 1e-12 else
                "<1e-9" if float(unrat(flt["budget_rel_best"])) < 1e-9 else
                "<1e-6" if float(unrat(flt["budget_rel_best"])) < 1e-6 else
                "<1e-3" if float(unrat(flt["budget_rel_best"])) < 1e-3 else ">=1e-3"))
            model_ok = model_ok and flt["within_budget"] and flt["budget_exact_is_spec"] and flt["scaled_centres_exact"]
            model["float_model_index"] = flt["index"]
            # recorded only: does the binary64 model of the code (same operations in the same order) return the same cut
            same_cut = ki == flt["index"] and (core.tok(t) & MASK64) == int(flt["threshold_bits"])
            feats.add("binary64-model:" + ("same-cut-same-bits" if same_cut else "other-cut(recorded only)"))
        else:
            feats.add("binary64-criterion-not-finite")
        # Which maximiser.  Cuts in one run of empty bins separate the same two groups: their class sums, hence all
        # float inputs of the criterion, are identical (Lean: `empty_run_ties`), the float criterion is the same number
        # at each of them and np.argmax returns the first.  So when every cut within rounding of the maximum lies in ONE
        # such run, the returned centre must be the model's (first cut of the run).  When cuts of different runs are
        # within rounding of each other, which run wins is decided by rounding and is not tested - but the returned cut
        # must still be the first of its own run.
        first_of_run = ki is not None and ki < len(cls) and cls[ki] == ki
        impl["first_cut_of_its_run"] = first_of_run
        model["first_cut_of_its_run"] = True
        if not first_of_run:
            feats.add("returned-cut-is-not-the-first-of-its-run")
        strict_run = first_of_run or not STRICT_FIRST_OF_RUN
        if len(near_classes) == 1:
            feats.add("unique-maximiser(strict comparison)" if len(near) == 1
                      else "maximisers-in-one-empty-bin-run(strict comparison: first cut of the run)")
            model_ok = model_ok and strict_run and (t == model_t if STRICT_FIRST_OF_RUN else ki in near)
        else:
            feats.add("maximisers-in-%s-runs-within-rounding(which run not tested; first cut of the run demanded)"
                      % ("2" if len(near_classes) == 2 else "3+"))
            model_ok = model_ok and (ki in near) and strict_run
        # --- the exact-uniform-edges layer (otsuArr on the data as given, NaN = none): same histogram => same threshold
        if drep is not None and drep["exact"] is not None:
            ex = drep["exact"]
            same_hist = ex is not None and ex["hist"] == [int(v) for v in hist]
            feats.add("exact-uniform-binning:" + ("same-histogram" if same_hist else "differs-near-an-edge"))
            if drep["otsu_remove_nan"] is None or (drep["otsu_keep_nan"] is None) != has_nan:
                model_ok = False
            elif same_hist and len(near_classes) == 1 and (len(near) == 1 or STRICT_FIRST_OF_RUN):
                dt = float(unrat(drep["otsu_remove_nan"]))
                model["threshold_exact_binning"] = dt
                # (absolute floor: with a subnormal bin width np.linspace's step is rounded to a multiple of 2^-1074, so an
                # edge is off by up to 256 half-steps of the subnormal grid, which no relative bound covers)
                model_ok = model_ok and abs(dt - t) <= 16 * EPS * max(abs(lo), abs(hi)) + 1024 * 5e-324
            if case["kind"] == "int256":
                feats.add("values-on-bin-edges")
        feats |= bfeats
        # --- outside the property (recorded, never a verdict): without NaN removal a NaN makes np.histogram raise
        if has_nan:
            raw = run_otsu(x)
            agrees = isinstance(raw, dict) and raw.get("raises") == "ValueError"
            feats.add("outside-property:NaN-kept->ValueError:" + ("as-modelled" if agrees else "DIFFERS(recorded only)"))
            if JUDGE_OUTSIDE_PROPERTY and not agrees:
                model_ok = False
        return outcome(impl, model, spec, spec_ok=spec_ok, model_ok=model_ok, features=feats, note=note)

    def known(self, case, out):
        """`C15-top-binade-centres`: data whose larger end is at least 2^1023 in magnitude, where pewlib's
        `bin_edges[1:] + bin_edges[:-1]` overflows for at least one pair of neighbouring edges (evaluated on the edges
        NumPy returned for this case).  Nothing else is a known finding."""
        try:
            note = json.loads(out.get("note") or "{}")
        except ValueError:
            return None
        if note.get("centre_sum_overflows") and note.get("max_abs"):
            return KNOWN_TOP_BINADE
        return None

    def check_binning(self, case, flat, clean, isint, hist, edges, ctx):
        """np.histogram(clean, bins=256) against `npHistogram` (Lean `Float` = IEEE binary64): the same counts and
        bit-identical edges, or both raise.  Returns (ok, features, driver reply or None)"""
        if isint and not np.all(np.abs(flat) <= 2 ** 53):
            return True, {"binning-model-skipped:int-beyond-2^53"}, None
        feats = set()
        if encoded(case) and len(runs_of(case)) > LIMIT:
            return True, {"binning-model-skipped:large"}, None
        if encoded(case):
            # pattern encoded (large) arrays: the model bins the value of every pattern position once, the counts are
            # weighted by the repetitions; NaNs are dropped here as `x[~np.isnan(x)]` drops them
            runs = [(float(v), int(c)) for v, c in runs_of(case)]
            drep = ctx.driver.call("c15.data", bits=[str(core.tok(v) & MASK64) for v, _ in runs],
                                   data=[orat(v) for v, _ in runs], counts=[c for _, c in runs], bins=BINS)
            feats.add("binning:run-length-weighted")
        elif clean.size > LIMIT:
            # every value travels to the driver; only done for small arrays.  The histogram NumPy produced is still the
            # input of all criterion checks
            return True, {"binning-model-skipped:large"}, None
        else:
            f64 = flat.astype(np.float64)
            drep = ctx.driver.call("c15.data", bits=[str(core.tok(float(v)) & MASK64) for v in f64],
                                   data=[orat(float(v)) for v in f64], bins=BINS)
        m = drep["np"]
        if "raises" in m:
            ok = hist is None and m["raises"].startswith("ValueError")
            feats.add("binning-compared:both-raise" if ok else "binning-model-raises:" + m["raises"])
            return ok, feats, drep
        if hist is None:
            return False, {"binning:numpy-raises-model-does-not"}, drep
        same = (m["hist"] == [int(v) for v in hist]
                and [int(b) for b in m["edge_bits"]] == [core.tok(float(v)) & MASK64 for v in edges]
                and [unrat(e) for e in m["edges"]] == [Fraction(float(v)) for v in edges])   # f64ToRat of the model's edges
        # what the theorems need of the edges and of the index estimate: evaluated, and recorded
        sane = (m["edges_increasing"] and m["first_edge_is_min"] and m["last_edge_is_max"]
                and m["float_compare_is_exact_compare"])
        feats.add("binning-compared(every value, bit-exact edges)")
        feats.add("index-estimate:" + ("exact-for-all" if m["est_exact"] == len(m_n(case, clean)) else
                                       "off-by-one-corrected" if m["est_within_one"] else "off-by-more-than-one"))
        if m["est_within_one"] and not m["hist_is_by_edges"]:
            sane = False     # contradicts theorem np_bin_correct
        if not m["hist_is_by_edges"]:
            feats.add("numpy-bin-differs-from-edge-specification")
        if not same and float(edges[-1]) - float(edges[0]) < BINS * 2.0 ** -1021:
            # the bin width is a subnormal number: np.linspace leaves its ordinary path there (its `step == 0` /
            # denormal handling), which the binning model does not follow.  NumPy's edges are the trusted input of every
            # criterion check (they are what pewlib gets); the difference of the MODEL of np.histogram is recorded only
            feats.add("binning-model-differs:subnormal-bin-width(recorded only)")
            return True, feats, drep
        return same and sane, feats, drep

    def eval_outside(self, case, x, flat, clean, ctx):
        """fewer than two distinct finite values: outside the property, nothing is demanded.  The model still says what
        happens (one occupied bin in the middle, empty end bins, 0/0 = NaN, np.argmax returns the first NaN: the first
        centre); agreement is recorded as a feature, never a verdict"""
        feats = set()
        note = "fewer than two distinct finite values"
        if clean.size >= 1 and clean.size <= LIMIT and case.get("dtype") != "int":
            t = run_otsu(x, remove_nan=True)
            try:
                hist, edges = np.histogram(clean, bins=BINS)
            except ValueError:      # a single value so large that 256 bins of total width 1 fall below the float spacing
                return outcome({}, {}, {}, hyp=False, features=feats, note=note)
            rep = ctx.driver.call("c15.hist", hist=[int(v) for v in hist], edges=[core.rat(float(v)) for v in edges])
            mt = float(unrat(rep["threshold"]))
            agrees = (not isinstance(t, dict)) and t == mt and rep["first_nan"] == rep["index"]
            feats.add("outside-property:constant-array->first-centre-via-NaN:" + ("as-modelled" if agrees else "DIFFERS(recorded only)"))
            if JUDGE_OUTSIDE_PROPERTY and not agrees:
                return outcome({"threshold": t}, {"threshold": mt}, {}, spec_ok=True, model_ok=False, hyp=False, features=feats, note=note)
        return outcome({}, {}, {}, hyp=False, features=feats, note=note)

    def eval_stub(self, case, ctx):
        """a hand-made histogram with empty end bins is handed to otsu through a stubbed np.histogram: outside the
        property (data with two distinct values always occupies both end bins); it exercises the NaN path of the
        mechanism model (`critListN`, `argmaxN`).  Recorded as a feature, never a verdict."""
        from pewlib.process import threshold as th

        hist = np.array(case["hist"], dtype=np.int64)
        edges = np.linspace(float(case["lo"]), float(case["hi"]), len(case["hist"]) + 1)
        saved = th.np.histogram
        calls = []

        def fake(a, bins=10, range=None, **kw):
            calls.append(bins)
            return hist.copy(), edges.copy()
        th.np.histogram = fake
        try:
            t = run_otsu(np.array([float(case["lo"]), float(case["hi"])]))
        finally:
            th.np.histogram = saved
        rep = ctx.driver.call("c15.hist", hist=[int(v) for v in hist], edges=[core.rat(float(v)) for v in edges])
        mt = float(unrat(rep["threshold"]))
        agrees = (not isinstance(t, dict)) and t == mt and len(calls) >= 1
        kind = "guarded" if rep["guard"] else ("first-bin-empty" if hist[0] == 0 else "last-bin-empty")
        if not rep["guard"] and (rep["first_nan"] is None or rep["first_nan"] != rep["index"]):
            return outcome({}, {"first_nan": rep["first_nan"], "index": rep["index"]}, {}, model_ok=False, spec_ok=True, hyp=False,
                           features=[], note="model: empty end bin without NaN")
        feats = {"outside-property:stub-histogram(" + kind + "):" + ("as-modelled" if agrees else "DIFFERS(recorded only)")}
        return outcome({"threshold": t}, {"threshold": mt, "first_nan": rep["first_nan"]}, {}, spec_ok=True,
                       model_ok=agrees or not JUDGE_OUTSIDE_PROPERTY, hyp=False, features=feats)

    # ------------------------------------------------------------------ shrinking
    def shrink(self, case):
        if case["kind"] == "stub-histogram":
            h = case["hist"]
            if len(h) > 2:
                yield {**case, "hist": h[:-1]}
                yield {**case, "hist": h[1:]}
            return
        if "rle" in case:
            rle = case["rle"]
            if len(case["shape"]) > 1:
                yield {**case, "shape": [sum(c for _, c in rle)]}
                return

            def mk(r):
                r = [[v, c] for v, c in r if c > 0]
                return {**case, "shape": [sum(c for _, c in r)], "rle": r}
            for i in range(len(rle)):
                if sum(c for j, (_, c) in enumerate(rle) if j != i) >= 2:
                    yield mk(rle[:i] + rle[i + 1:])
            if any(c > 1 for _, c in rle):
                yield mk([[v, max(1, c // 2)] for v, c in rle])
                for i, (v, c) in enumerate(rle):
                    if c > 1:
                        yield mk(rle[:i] + [[v, c // 2]] + rle[i + 1:])
            if case["scale_exp"] not in (1,):
                yield {**case, "scale_exp": 1}
            return
        if "tiles" in case:
            tiles = [[list(p), int(r)] for p, r in case["tiles"]]
            total = lambda ts: sum(len(p) * r for p, r in ts)
            if len(case["shape"]) > 1:
                yield {**case, "shape": [total(tiles)]}
                return

            def mk(ts):
                out = []
                for p, r in ts:
                    if r > 0 and p:
                        if out and out[-1][0] == p:
                            out[-1][1] += r          # neighbouring tiles of one pattern are one tile
                        else:
                            out.append([p, r])
                return {**case, "shape": [total(out)], "tiles": out}
            for i in range(len(tiles)):
                rest = tiles[:i] + tiles[i + 1:]
                if total(rest) >= 2:
                    yield mk(rest)
            if any(r > 1 for _, r in tiles):
                yield mk([[p, max(1, r // 2)] for p, r in tiles])
                for i, (p, r) in enumerate(tiles):
                    if r > 1:
                        yield mk(tiles[:i] + [[p, r // 2]] + tiles[i + 1:])
                        if r <= 8:
                            yield mk(tiles[:i] + [[p, r - 1]] + tiles[i + 1:])
            for i, (p, r) in enumerate(tiles):
                if len(p) > 1:
                    yield mk(tiles[:i] + [[p[:len(p) // 2], r]] + tiles[i + 1:])
                    yield mk(tiles[:i] + [[p[len(p) // 2:], r]] + tiles[i + 1:])
            if case["scale_exp"] not in (1,):
                yield {**case, "scale_exp": 1}
            return
        data = case["data"]
        n = len(data)
        if len(case["shape"]) > 1:
            yield {**case, "shape": [n]}
            return
        if n > 2:
            for a, b in ((0, n // 2), (n // 2, n), (0, n - 1), (1, n)):
                d = data[a:b]
                if len(d) >= 2:
                    yield {**case, "shape": [len(d)], "data": d}
        if case["scale_exp"] not in (1,):
            yield {**case, "scale_exp": 1}
        if any(v is None for v in data):
            d = [v for v in data if v is not None]
            yield {**case, "shape": [len(d)], "data": d}


PROP = C15()

if __name__ == "__main__":
    sys.exit(core.main(PROP, "harness.c15"))
