"""Synthetic writers for the two historical pew `.npz` layouts (0.6.x and 0.7.x), written from the
member lists `pewlib.io.npz.load` reads for those versions and from the fixtures in
`/repo/tests/data/npz` (test.npz = 0.7.0, spot.npz = 0.6.7, test_srr.npz = 0.6.0).

Nothing of pewlib is called here: the files are assembled with `np.savez` from the attributes of
the laser object.

0.6.x:  _version, _time, _multiple, _class, data, name,  config, calibration_<element>...
0.7.x:  _version, _time, _multiple, _class, data, info,  config, calibration_<element>...
"""
from __future__ import annotations

import numpy as np

BUILTIN = ["Equal", "x", "1/x", "1/(x^2)", "y", "1/y", "1/(y^2)"]


def cal_record(cal) -> np.ndarray:
    """one calibration as the structured scalar the old versions stored (own length, no padding)"""
    points = np.array(cal.points, dtype=np.float64).reshape(-1, 2)
    n = points.shape[0]
    if str(cal.weighting) in BUILTIN:
        weights = np.ones(n, dtype=np.float64)  # derived weights were stored; only custom ones are read back
    else:
        weights = np.array(cal.weights, dtype=np.float64)
    return np.array(
        (cal.intercept, cal.gradient, cal.unit,
         np.nan if cal.rsq is None else cal.rsq, np.nan if cal.error is None else cal.error,
         points, weights, cal.weighting),
        dtype=[("intercept", np.float64), ("gradient", np.float64), ("unit", "U32"), ("rsq", np.float64),
               ("error", np.float64), ("points", np.float64, (n, 2)), ("weights", np.float64, (n,)),
               ("weighting", "U32")],
    )


def config_record(config) -> tuple[str, np.ndarray]:
    name = type(config).__name__
    if name == "SpotConfig":
        return "Spot", np.array(([config.spotsize, config.spotsize_y],), dtype=[("spotsize", np.float64, (2,))])
    if name == "SRRConfig":
        offsets = np.array(config.subpixel_offsets, dtype=np.int64)
        return "SRR", np.array(
            (config.spotsize, config.speed, config.scantime, config.warmup, offsets),
            dtype=[("spotsize", np.float64), ("speed", np.float64), ("scantime", np.float64), ("warmup", np.float64),
                   ("subpixel_offsets", np.int64, offsets.shape)],
        )
    if name == "Config":
        return "Raster", np.array(
            (config.spotsize, config.speed, config.scantime),
            dtype=[("spotsize", np.float64), ("speed", np.float64), ("scantime", np.float64)],
        )
    raise ValueError(name)


def packed_info(info: dict) -> str:
    return "\t".join(f"{k.replace(chr(9), ' ')}\t{v.replace(chr(9), ' ')}" for k, v in info.items() if k != "File Path")


def write_old(path, laser, version: str, layout: str, legacy_class: bool = False) -> None:
    """layout: '0.6' or '0.7'"""
    cls, config = config_record(laser.config)
    if legacy_class:  # class names written by the oldest versions
        cls = {"Raster": "Laser", "SRR": "SRRLaser"}.get(cls, cls)
    members = {
        "_version": np.array(version), "_time": np.array(0.0), "_multiple": np.array(False), "_class": np.array(cls),
        "data": np.asanyarray(laser.data), "config": config,
    }
    if layout == "0.6":
        members["name"] = np.array(laser.info.get("Name", ""))
    elif layout == "0.7":
        members["info"] = np.array(packed_info(laser.info))
    else:
        raise ValueError(layout)
    for name, cal in laser.calibration.items():
        members[f"calibration_{name}"] = cal_record(cal)
    np.savez(path, **members)


def rewrite_header_class(path, cls: str) -> None:
    """a malformed 0.8+ file: the file at `path` (written by the real `npz.save`) with the class name in its
    tab-separated `header` member replaced by `cls`; every other member is copied unchanged"""
    with np.load(path) as npz:
        members = {k: npz[k] for k in npz.files}
    tokens = str(members["header"]).split("\t")
    i = tokens.index("class")
    if i % 2 != 0 or i + 1 >= len(tokens):
        raise ValueError("unexpected header")
    tokens[i + 1] = cls
    members["header"] = np.array("\t".join(tokens))
    np.savez_compressed(path, **members)
