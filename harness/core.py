"""Shared machinery of every check: proof leg (build + axiom audit + statement lock + forbidden
token scan), driver pipe, correspondence loop, failing-input search, shrinking, known findings,
replay and evidence files.  See DESIGN.md section 2.

A property module `harness/cNN.py` defines a subclass of `Prop` (see harness/README.md).
"""
from __future__ import annotations

import hashlib
import json
import multiprocessing as mp
import os
import random
import re
import shutil
import struct
import subprocess
import sys
import tempfile
import time
import traceback
from fractions import Fraction
from pathlib import Path

VERIF = Path(__file__).resolve().parent.parent
LEAN = VERIF / "lean"
REPO = Path(os.environ.get("PEWLIB_REPO", "/repo"))
DRIVER_EXE = LEAN / ".lake" / "build" / "bin" / "pewdriver"
ALLOWED_AXIOMS = {"propext", "Classical.choice", "Quot.sound"}
FORBIDDEN = re.compile(
    r"\bsorry\b|\badmit\b|^\s*axiom\s|native_decide|bv_decide|implemented_by|\bunsafe\s|maxHeartbeats\s+0\b",
    re.M,
)

# pewlib is always imported from the working tree under check, never from an installed copy
sys.path.insert(0, str(REPO / "src"))
os.environ.setdefault("PEWLIB_VERIF", "1")


class InternalError(Exception):
    """anything that is the machinery's fault: exit 2, never 1"""


# ----------------------------------------------------------------------------- encodings
def tok(x: float) -> int:
    """bit-exact token of a float64 (placement properties compare tokens)"""
    return struct.unpack("<q", struct.pack("<d", float(x)))[0]


def untok(t: int) -> float:
    return struct.unpack("<d", struct.pack("<q", int(t)))[0]


def rat(x) -> list:
    """exact rational for the driver: [num, den] as decimal strings"""
    f = Fraction(x)
    return [str(f.numerator), str(f.denominator)]


def orat(x):
    """float -> exact rational, NaN -> None (Option Rat in the models); infinities are not allowed"""
    import math

    if x is None:
        return None
    if isinstance(x, float) and math.isnan(x):
        return None
    if isinstance(x, float) and math.isinf(x):
        raise InternalError("infinite value sent to an Option Rat model")
    return rat(x)


def unrat(j) -> Fraction | None:
    if j is None:
        return None
    if isinstance(j, list):
        return Fraction(int(j[0]), int(j[1]))
    return Fraction(int(j))


def close(a, b, rel=1e-9, abs_=0.0) -> bool:
    """tolerance comparison of a float against an exact Fraction/float"""
    import math

    if a is None or b is None:
        return a is None and b is None
    a = float(a)
    b = float(b)
    if math.isnan(a) or math.isnan(b):
        return math.isnan(a) and math.isnan(b)
    if a == b:
        return True
    return abs(a - b) <= max(abs_, rel * max(abs(a), abs(b)))


def sha256_file(p: Path) -> str:
    return hashlib.sha256(p.read_bytes()).hexdigest()


def canon(obj) -> str:
    return json.dumps(obj, sort_keys=True, separators=(",", ":"), default=str)


# ----------------------------------------------------------------------------- driver
class Driver:
    def __init__(self):
        if not DRIVER_EXE.exists():
            raise InternalError(f"driver not built: {DRIVER_EXE} (run ./setup)")
        self.p = subprocess.Popen(
            [str(DRIVER_EXE)], stdin=subprocess.PIPE, stdout=subprocess.PIPE, stderr=subprocess.DEVNULL, text=True, bufsize=1
        )
        self.n = 0

    def call(self, op: str, **fields):
        self.n += 1
        req = {"op": op, "id": self.n, **fields}
        try:
            self.p.stdin.write(json.dumps(req) + "\n")
            self.p.stdin.flush()
            line = self.p.stdout.readline()
        except BrokenPipeError as e:  # pragma: no cover
            raise InternalError(f"driver died on {op}") from e
        if not line:
            raise InternalError(f"driver closed the pipe on {op}: {json.dumps(req)[:400]}")
        rep = json.loads(line)
        if "error" in rep:
            raise InternalError(f"driver error on {op}: {rep['error']} :: {json.dumps(req)[:400]}")
        if rep.get("id") != self.n:
            raise InternalError("driver reply out of sequence")
        return rep

    def close(self):
        try:
            self.p.stdin.close()
            self.p.wait(timeout=5)
        except Exception:
            self.p.kill()


# ----------------------------------------------------------------------------- outcome / property
class Outcome(dict):
    """keys: impl, model, spec (canonical JSON values); spec_ok, model_ok (bool, default by equality);
    undetermined (bool: decision margin below tolerance -> never a violation); hyp (bool: theorem
    hypotheses hold); features (list[str]); note"""


def outcome(impl, model, spec, *, spec_ok=None, model_ok=None, undetermined=False, hyp=True,
            features=(), note="") -> Outcome:
    if spec_ok is None:
        spec_ok = canon(impl) == canon(spec)
    if model_ok is None:
        model_ok = canon(impl) == canon(model)
    return Outcome(impl=impl, model=model, spec=spec, spec_ok=bool(spec_ok), model_ok=bool(model_ok),
                   undetermined=bool(undetermined), hyp=bool(hyp), features=sorted(set(features)), note=note)


def limit_memory():
    """a runaway allocation of the code under test must fail with MemoryError in that process, not take the machine
    (or a neighbouring process) down through the OOM killer"""
    import resource

    cap = int(os.environ.get("VERIF_MEM_GB", "6")) << 30
    soft, hard = resource.getrlimit(resource.RLIMIT_AS)
    if soft == resource.RLIM_INFINITY or soft > cap:
        resource.setrlimit(resource.RLIMIT_AS, (cap, hard))


class Ctx:
    """per-worker context handed to Prop.evaluate"""

    def __init__(self):
        self.driver = Driver()
        limit_memory()
        self._tmp = None
        self._root = None

    def tmpdir(self) -> Path:
        """private directory, emptied after the case.  Within one worker process every case gets the SAME path
        (a fresh, empty directory of that name): successive imports in one process that read different files
        under equal path names are a history the properties quantify over (a result memoised per path would be
        served to the next case and show up as impl != spec).  VERIF_FRESH_PATHS=1 restores one path per case."""
        self.cleanup()
        base = os.environ.get("PEWVERIF_TMPBASE") or os.environ.get("XDG_RUNTIME_DIR") or "/var/tmp"
        if self._root is None or os.environ.get("VERIF_FRESH_PATHS") == "1":
            if self._root is not None:
                shutil.rmtree(self._root, ignore_errors=True)
            self._root = Path(tempfile.mkdtemp(prefix="pewverif-", dir=base if os.path.isdir(base) else None))
        self._tmp = self._root / "case"
        self._tmp.mkdir()
        return self._tmp

    def cleanup(self):
        if self._tmp is not None:
            shutil.rmtree(self._tmp, ignore_errors=True)
            self._tmp = None

    def close(self):
        self.cleanup()
        if self._root is not None:
            shutil.rmtree(self._root, ignore_errors=True)
            self._root = None
        self.driver.close()


class Prop:
    id = "C00"
    anchored = []  # repo-relative source files (sha256 recorded in the evidence)
    cases = {"quick": 200, "thorough": 4000}
    rule = ""
    trusted = []  # property-specific trusted-base lines
    assumptions = []

    def generate(self, rng: random.Random, tier: str) -> dict:
        raise NotImplementedError

    def targeted(self, tier: str):
        """deterministic boundary cases, always run before the random ones"""
        return []

    def search_extra(self, tier: str):
        """extra enumerations used only by the failing-input search"""
        return []

    def evaluate(self, case: dict, ctx: Ctx) -> Outcome:
        raise NotImplementedError

    def shrink(self, case: dict):
        """yield smaller candidate cases (structure-aware); default: none"""
        return []

    def known(self, case: dict, out: Outcome):
        """return the id of a `known` entry of known_findings.json that this failing case matches"""
        return None

    def extra_evidence(self):
        """optional: {"obligations": n, "discharged": d, "coverage": {...}} for obligations that are computations
        re-run on the current source (C19's per-function analysis results)"""
        return None


# ----------------------------------------------------------------------------- proof leg
def strip_comments(src: str) -> str:
    out = []
    i, n, depth = 0, len(src), 0
    while i < n:
        if src.startswith("/-", i):
            depth += 1
            i += 2
        elif depth and src.startswith("-/", i):
            depth -= 1
            i += 2
        elif depth:
            if src[i] == "\n":
                out.append("\n")
            i += 1
        elif src.startswith("--", i):
            while i < n and src[i] != "\n":
                i += 1
        else:
            out.append(src[i])
            i += 1
    return "".join(out)


def forbidden_scan() -> list[str]:
    hits = []
    for p in sorted(LEAN.rglob("*.lean")):
        if ".lake" in p.parts:
            continue
        body = strip_comments(p.read_text())
        # string literals may mention the words (this scanner itself does not live in lean/)
        for m in FORBIDDEN.finditer(body):
            line = body.count("\n", 0, m.start()) + 1
            hits.append(f"{p.relative_to(LEAN)}:{line}: {m.group(0).strip()}")
    return hits


def load_theorems(pid: str) -> dict:
    p = VERIF / "theorems" / f"{pid}.json"
    return json.loads(p.read_text()) if p.exists() else {}


def lake(*args, timeout=3000) -> subprocess.CompletedProcess:
    return subprocess.run(["lake", *args], cwd=LEAN, capture_output=True, text=True, timeout=timeout)


def proof_leg(pid: str, tier: str, log) -> dict:
    """returns {obligations, discharged, theorems: {name: {axioms, statement_sha}}, problems: [...]}"""
    t0 = time.time()
    thms = load_theorems(pid)
    module = thms.get("module", f"PewTheorems.{pid}")
    names = thms.get("theorems", [])
    problems = []
    res = {"obligations": len(names), "discharged": 0, "theorems": {}, "problems": problems, "module": module}
    if not names:
        problems.append("no theorems registered")
        return res
    b = lake("build", module, "pewdriver")
    if b.returncode != 0:
        problems.append("lake build failed: " + (b.stdout + b.stderr)[-1500:])
        return res
    hits = forbidden_scan()
    if hits:
        problems.append("forbidden tokens: " + "; ".join(hits[:10]))
    # audit file: axioms + statement of every registered theorem
    audit_dir = LEAN / ".lake" / "audit"
    audit_dir.mkdir(parents=True, exist_ok=True)
    audit = audit_dir / f"{pid}.lean"
    lines = [f"import {module}", "set_option format.width 100000"]
    for n in names:
        lines.append(f'#eval IO.println "@@THM {n}"')
        lines.append(f"#check @{n}")
        lines.append(f"#print axioms {n}")
    audit.write_text("\n".join(lines) + "\n")
    a = lake("env", "lean", str(audit))
    text = a.stdout + a.stderr
    if a.returncode != 0:
        problems.append("audit failed: " + text[-1500:])
        return res
    lock_path = VERIF / "theorems" / f"{pid}.lock.json"
    lock = json.loads(lock_path.read_text()) if lock_path.exists() else {}
    chunks = text.split("@@THM ")[1:]
    seen = {}
    for ch in chunks:
        head, _, rest = ch.partition("\n")
        name = head.strip()
        m = re.search(r"'[^']+' (depends on axioms: \[([^\]]*)\]|does not depend on any axioms)", rest, re.S)
        if not m:
            problems.append(f"{name}: no axiom report")
            continue
        axioms = [x.strip() for x in (m.group(2) or "").replace("\n", " ").split(",") if x.strip()]
        stmt = rest[: m.start()].strip()
        stmt = re.sub(r"\s+", " ", stmt)
        sh = hashlib.sha256(stmt.encode()).hexdigest()[:16]
        seen[name] = {"axioms": axioms, "statement_sha": sh}
        ok = True
        bad = [x for x in axioms if x not in ALLOWED_AXIOMS]
        if bad:
            problems.append(f"{name}: non-standard axioms {bad}")
            ok = False
        if os.environ.get("VERIF_RELOCK") == "1":
            lock[name] = sh
        elif lock.get(name) != sh:
            problems.append(f"{name}: statement differs from theorems/<id>.lock.json ({lock.get(name)} -> {sh})")
            ok = False
        if ok and not hits:
            res["discharged"] += 1
    for n in names:
        if n not in seen:
            problems.append(f"{n}: missing from audit output")
    if os.environ.get("VERIF_RELOCK") == "1":
        lock_path.write_text(json.dumps(lock, indent=1, sort_keys=True) + "\n")
    res["theorems"] = seen
    if tier == "thorough" and not problems:
        c = lake("env", "leanchecker", module, timeout=3000)
        if c.returncode != 0:
            problems.append("leanchecker rejected " + module + ": " + (c.stdout + c.stderr)[-800:])
            res["discharged"] = 0
        res["leanchecker"] = c.returncode == 0
    res["wall_s"] = round(time.time() - t0, 2)
    log(f"proof leg: {res['discharged']}/{res['obligations']} obligations discharged in {res['wall_s']}s")
    return res


# ----------------------------------------------------------------------------- correspondence loop
_WORKER = {}


def _worker_init(modname):
    import importlib

    _WORKER["prop"] = importlib.import_module(modname).PROP
    _WORKER["ctx"] = None


def _eval_one(args):
    kind, idx, case = args
    prop = _WORKER["prop"]
    if _WORKER["ctx"] is None:
        _WORKER["ctx"] = Ctx()
    ctx = _WORKER["ctx"]
    prev = _WORKER.get("prev")
    _WORKER["prev"] = case
    try:
        out = dict(prop.evaluate(case, ctx))
        if not out["spec_ok"] and not out["undetermined"] and prev is not None:
            # the case this worker process evaluated just before: kept for failures that need that history
            # (state left in the process by the earlier call, e.g. something memoised per path or per object)
            out["_prev"] = prev
        return (kind, idx, case, out, None)
    except InternalError as e:
        return (kind, idx, case, None, "internal: " + str(e))
    except Exception:
        return (kind, idx, case, None, "harness exception: " + traceback.format_exc()[-2000:])
    finally:
        ctx.cleanup()


def case_rng(seed: int, pid: str, stream: str, i: int) -> random.Random:
    return random.Random(f"{seed}:{pid}:{stream}:{i}")


def gen_cases(prop: Prop, seed: int, tier: str, n: int, stream="main"):
    for i in range(n):
        try:
            c = prop.generate(case_rng(seed, prop.id, stream, i), tier)
        except Exception as e:
            raise InternalError(f"generator failed at case {i}: {traceback.format_exc()[-1500:]}") from e
        yield ("gen:" + stream, i, c)


def load_corpus(pid: str):
    d = VERIF / "corpus" / pid
    if d.is_dir():
        for i, p in enumerate(sorted(d.glob("*.json"))):
            j = json.loads(p.read_text())
            yield ("corpus:" + p.name, i, j["case"] if "case" in j else j["input"])


def load_known() -> list:
    p = VERIF / "known_findings.json"
    return json.loads(p.read_text())["findings"] if p.exists() else []


class Runner:
    def __init__(self, prop: Prop, modname: str, tier: str, seed: int, workers: int):
        self.prop, self.modname, self.tier, self.seed = prop, modname, tier, seed
        self.workers = workers
        self.pool = None
        self.evals = 0
        self.nontrivial = set()
        self.features = {}
        self.undetermined = 0
        self.hyp_excluded = 0
        self.samples = []
        self.spec_viol = []  # (kind, idx, case, out)
        self.model_viol = []
        self.known_hits = {}
        self.error = None
        self._stop = False
        self.known_ids = {k["id"]: k for k in load_known() if k.get("property") == prop.id and k.get("kind") == "known"}

    def _map(self, items):
        if self.workers <= 1:
            if not _WORKER.get("prop"):
                _WORKER["prop"] = self.prop
                _WORKER["ctx"] = None
            for it in items:
                yield _eval_one(it)
        else:
            if self.pool is None:
                self.pool = mp.get_context("fork").Pool(self.workers, _worker_init, (self.modname,))
            # bounded batches: the input generator is only consumed as far as results are used
            batch = []
            for it in items:
                batch.append(it)
                if len(batch) >= self.workers * 8:
                    yield from self.pool.map(_eval_one, batch, chunksize=2)
                    batch = []
            if batch:
                yield from self.pool.map(_eval_one, batch, chunksize=2)

    def run(self, items, stop_after=5):
        # early stop is done by ending the *input* stream, never by abandoning the pool iterator
        # (breaking out of Pool.imap and terminating the pool can deadlock)
        self._stop = False

        def feed():
            for it in items:
                if self._stop:
                    return
                yield it

        for kind, idx, case, out, err in self._map(feed()):
            if self._stop:
                continue
            if err:
                self._stop = True
                self.error = f"{kind}[{idx}]: {err}\ncase={canon(case)[:1500]}"
                continue
            self.evals += 1
            for f in out["features"]:
                self.features[f] = self.features.get(f, 0) + 1
            if out["features"]:
                self.nontrivial.add(hashlib.sha1(canon(case).encode()).hexdigest())
            if len(self.samples) < 3 and kind.startswith("gen"):
                self.samples.append({"case": _abbrev(case), "impl": _abbrev(out["impl"]), "spec": _abbrev(out["spec"])})
            if not out["hyp"]:
                self.hyp_excluded += 1
            if out["undetermined"]:
                self.undetermined += 1
                continue
            if not out["spec_ok"]:
                kid = self.prop.known(case, Outcome(out))
                if kid is not None and kid in self.known_ids:
                    self.known_hits.setdefault(kid, (kind, idx, case, out))
                    continue
                self.spec_viol.append((kind, idx, case, out))
            elif not out["model_ok"]:
                self.model_viol.append((kind, idx, case, out))
            if len(self.spec_viol) >= stop_after:
                self._stop = True
        if self.error:
            raise InternalError(self.error)

    def close(self):
        if self.pool is not None:
            self.pool.close()
            self.pool.join()
            self.pool = None
        if _WORKER.get("ctx") is not None:
            _WORKER["ctx"].close()
            _WORKER["ctx"] = None


def _abbrev(x, limit=600):
    s = canon(x)
    return json.loads(s) if len(s) <= limit else s[:limit] + "..."


def shrink_case(prop: Prop, case: dict, ctx: Ctx, still_fails, budget=400, seconds=120.0) -> dict:
    """greedy structure-aware shrinking, bounded by a number of evaluations and by wall-clock time
    (a partly shrunk replay is fine; a check that spends its time limit shrinking is not)"""
    cur = case
    improved = True
    deadline = time.time() + float(os.environ.get("VERIF_SHRINK_S", seconds))
    while improved and budget > 0 and time.time() < deadline:
        improved = False
        for cand in prop.shrink(cur):
            budget -= 1
            if budget <= 0 or time.time() >= deadline:
                break
            try:
                if still_fails(prop.evaluate(cand, ctx)):
                    cur = cand
                    improved = True
                    break
            except Exception:
                continue
            finally:
                ctx.cleanup()
    return cur


def write_replay(pid, seed, tier, k, kind, case, out, theorem=None, note="", history=None):
    d = VERIF / "replays"
    d.mkdir(exist_ok=True)
    p = d / f"{pid}-{tier}-{seed}-{k}.json"
    body = {
        "property": pid, "seed": seed, "tier": tier, "kind": kind, "case": case,
        "impl": out.get("impl") if out else None, "model": out.get("model") if out else None,
        "spec": out.get("spec") if out else None, "note": note or (out.get("note") if out else ""),
        "theorem": theorem, "how_to_replay": f"./check {pid} --replay replays/{p.name}",
    }
    if history:
        body["history"] = history  # cases evaluated first, in the same process, by --replay
    p.write_text(json.dumps(body, indent=1, default=str) + "\n")
    return p.relative_to(VERIF)


def main(prop: Prop, modname: str, argv=None):
    import argparse

    ap = argparse.ArgumentParser()
    ap.add_argument("--tier", default=os.environ.get("VERIF_TIER", "quick"), choices=["quick", "thorough"])
    ap.add_argument("--replay", default=None)
    ap.add_argument("--cases", type=int, default=None)
    ap.add_argument("--workers", type=int, default=None)
    args = ap.parse_args(argv)
    seed = int(os.environ.get("VERIF_SEED", "0"))
    tier = args.tier
    t0 = time.time()
    pid = prop.id

    def log(msg):
        print(f"[{pid}] {msg}", flush=True)

    # watchdog: a hang (of pewlib under test, of a worker, of the driver) is an internal error, never a verdict
    import signal

    limit = int(os.environ.get("VERIF_TIMEOUT_S", "900" if tier == "quick" else "5400"))

    def _timeout(signum, frame):
        print(f"[{pid}] TIMEOUT: no verdict after {limit}s", flush=True)
        shutil.rmtree(os.environ.get("PEWVERIF_TMPBASE", "/nonexistent"), ignore_errors=True)
        os.killpg(os.getpgid(0), signal.SIGKILL) if os.environ.get("VERIF_KILL_GROUP") == "1" else os._exit(2)

    signal.signal(signal.SIGALRM, _timeout)
    signal.alarm(limit)
    # every per-case directory lives under one per-run directory that is removed whatever happens
    parent = os.environ.get("XDG_RUNTIME_DIR") or "/var/tmp"
    runbase = tempfile.mkdtemp(prefix="pewverif-run-", dir=parent if os.path.isdir(parent) else None)
    os.environ["PEWVERIF_TMPBASE"] = runbase
    try:
        return _main(prop, modname, args, seed, tier, t0, pid, log)
    finally:
        shutil.rmtree(runbase, ignore_errors=True)


def _main(prop, modname, args, seed, tier, t0, pid, log):
    try:
        if args.replay:
            return do_replay(prop, args.replay, log)
        workers = args.workers or (min(12, os.cpu_count() or 1) if tier == "thorough" else min(4, os.cpu_count() or 1))
        proof = proof_leg(pid, tier, log)
        if not proof["problems"]:
            # structural (translator) tie for the few anchored functions that are pure arithmetic
            from harness import structural

            st = structural.run(pid, log)
            proof["obligations"] += st["obligations"]
            proof["discharged"] += st["discharged"]
            proof["problems"] += st["problems"]
            proof["structural"] = st["notes"]
        for pr in proof["problems"]:
            log("PROOF PROBLEM: " + pr)
        run = Runner(prop, modname, tier, seed, workers)
        n = args.cases or prop.cases[tier]
        try:
            run.run(load_corpus(pid))
            run.run((("targeted", i, c) for i, c in enumerate(prop.targeted(tier))))
            run.run(gen_cases(prop, seed, tier, n))
            searched = False
            broken = bool(proof["problems"]) or bool(run.model_viol)
            if broken and not run.spec_viol:
                log("proof obligation or correspondence broken: searching for a failing input")
                searched = True
                run.run((("search-extra", i, c) for i, c in enumerate(prop.search_extra(tier))))
                if not run.spec_viol:
                    run.run(gen_cases(prop, seed, tier, 10 * n, stream="search"))
            code = 0
            replays = []
            for kid, (kind, idx, case, out) in run.known_hits.items():
                print(f"KNOWN-FINDING: property={pid} {kid}: {run.known_ids[kid]['what']}", flush=True)
            if run.spec_viol:
                kind, idx, case, out = run.spec_viol[0]
                ctx = Ctx()
                try:
                    small = shrink_case(prop, case, ctx, lambda o: (not o["spec_ok"]) and not o["undetermined"]
                                        and prop.known(case, o) is None)
                    sout = dict(prop.evaluate(small, ctx))
                    history = None
                    if sout["spec_ok"]:
                        small, sout = case, {k: v for k, v in out.items() if k != "_prev"}
                        # not reproduced alone in a fresh process: try it after the case that preceded it in its worker
                        if out.get("_prev") is not None:
                            ctx.close()
                            ctx = Ctx()
                            try:
                                prop.evaluate(out["_prev"], ctx)
                                again = dict(prop.evaluate(case, ctx))
                                if not again["spec_ok"] and not again["undetermined"]:
                                    history, sout = [out["_prev"]], again
                            except Exception:
                                pass
                finally:
                    ctx.close()
                rp = write_replay(pid, seed, tier, 0, "impl_vs_spec", small, sout, note=f"from {kind}[{idx}]"
                                  + ("; fails only after the case(s) in `history` were evaluated in the same process" if history
                                     else ""), history=history)
                replays.append(str(rp))
                print(f"VIOLATION property={pid} replay={rp}", flush=True)
                code = 1
            elif broken:
                if run.model_viol:
                    kind, idx, case, out = run.model_viol[0]
                    rp = write_replay(pid, seed, tier, 0, "impl_vs_model", case, out,
                                      note="correspondence between the Lean model and the implementation no longer checks; "
                                           "no input violating the specification was found")
                else:
                    rp = write_replay(pid, seed, tier, 0, "obligation", None, None, theorem="; ".join(proof["problems"])[:2000],
                                      note="proof obligation(s) not discharged")
                replays.append(str(rp))
                print(f"VIOLATION property={pid} replay={rp} no-failing-input-found", flush=True)
                code = 1
        finally:
            run.close()
        write_evidence(prop, tier, seed, proof, run, time.time() - t0, code, searched)
        log(f"{run.evals} cases, {len(run.nontrivial)} distinct non-trivial, {run.undetermined} undetermined, "
            f"{len(run.spec_viol)} impl!=spec, {len(run.model_viol)} impl!=model, exit {code}, {time.time()-t0:.1f}s")
        return code
    except InternalError as e:
        log("INTERNAL ERROR: " + str(e))
        return 2
    except subprocess.TimeoutExpired as e:
        log("TIMEOUT: " + str(e))
        return 2
    except Exception:
        log("INTERNAL ERROR: " + traceback.format_exc())
        return 2


def do_replay(prop, path, log):
    p = Path(path)
    if not p.is_absolute():
        p = VERIF / p
    body = json.loads(p.read_text())
    case = body.get("case")
    if case is None:
        proof = proof_leg(prop.id, "quick", log)
        for pr in proof["problems"]:
            log("PROOF PROBLEM: " + pr)
        return 1 if proof["problems"] else 0
    ctx = Ctx()
    try:
        for h in body.get("history") or []:
            try:
                prop.evaluate(h, ctx)
            except Exception:
                pass
        out = prop.evaluate(case, ctx)
    finally:
        ctx.close()
    log("impl = " + canon(out["impl"])[:2000])
    log("spec = " + canon(out["spec"])[:2000])
    log("model= " + canon(out["model"])[:2000])
    bad = (not out["spec_ok"] or not out["model_ok"]) and not out["undetermined"]
    if bad:
        print(f"VIOLATION property={prop.id} replay={path}", flush=True)
    return 1 if bad else 0


GENERIC_TRUSTED = [
    "Lean 4.33.0 kernel (and leanchecker in the thorough tier); Mathlib v4.33.0 lemmas imported by PewProofs",
    "axioms of every registered theorem are a subset of {propext, Classical.choice, Quot.sound}; no native_decide/bv_decide/sorry (scanned on every run)",
    "hand-written Lean model of the mechanism; tied to /repo only by this run's correspondence check (differential, generated inputs)",
    "harness generators, canonicalisers and synthetic file writers (harness/*.py)",
    "NumPy / CPython library calls behave as documented (see DESIGN.md section 3)",
]


def write_evidence(prop, tier, seed, proof, run, wall, code, searched):
    ev = {
        "property_id": prop.id, "tier": tier, "seed": seed, "level": "proof",
        "coverage": {
            "obligations": proof["obligations"], "discharged": proof["discharged"],
            "checker_cmd": f"cd lean && lake build {proof['module']} && lake env lean .lake/audit/{prop.id}.lean"
                           + (f" && lake env leanchecker {proof['module']}" if tier == "thorough" else ""),
            "trusted_base": GENERIC_TRUSTED + list(prop.trusted),
            "theorems": proof["theorems"], "proof_problems": proof["problems"],
            "structural_tie": proof.get("structural", []),
            "evaluations": run.evals, "distinct_nontrivial": len(run.nontrivial),
            "rule": prop.rule or "generated cases; non-trivial = hits at least one named boundary/feature class; distinct by hash of the canonical case",
            "samples": run.samples or [{"note": "no generated case ran"}],
            "distribution": dict(sorted(run.features.items())),
            "undetermined": run.undetermined, "hypothesis_excluded": run.hyp_excluded,
            "impl_vs_spec_disagreements": len(run.spec_viol), "impl_vs_model_disagreements": len(run.model_viol),
            "known_findings_hit": sorted(run.known_hits), "failing_input_search_ran": searched,
            "source_sha256": {f: sha256_file(REPO / f) for f in prop.anchored if (REPO / f).exists()},
            "exhaustive": False,
        },
        "assumptions": list(prop.assumptions),
        "wall_s": round(wall, 2), "violations": 1 if code == 1 else 0,
    }
    extra = prop.extra_evidence()
    if extra:
        ev["coverage"]["obligations"] += int(extra.get("obligations", 0))
        ev["coverage"]["discharged"] += int(extra.get("discharged", 0))
        ev["coverage"].update(extra.get("coverage", {}))
    # runs against a patched scratch copy (tools/with_patched_repo) must never overwrite the evidence of /repo itself
    d = VERIF / "evidence" if REPO.resolve() == Path("/repo") else VERIF / "evidence" / "_scratch"
    d.mkdir(parents=True, exist_ok=True)
    (d / f"{prop.id}.json").write_text(json.dumps(ev, indent=1, default=str) + "\n")
