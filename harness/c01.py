"""C01 — npz save/load round trip, fixpoint, three historical layouts:
pewlib.io.npz.save / load against PewModel/Npz.lean (mechanism `save`/`load`/`generations`,
specification `normalise`)."""
import math
import struct
import sys
import warnings
from fractions import Fraction
from importlib.metadata import version as dist_version

import numpy as np

from harness import core, gen_npz
from harness.core import Prop, outcome

BUILTIN = ["Equal", "x", "1/x", "1/(x^2)", "y", "1/y", "1/(y^2)"]
DTYPES = ["<f8", "<f8", "<f8", "<f4", "<f2", "<i8", "<i4", "<i2", "<i1", "<u8", "<u4", "<u2", "<u1", ">f8", ">i4",
          ">f4", ">i2", ">u2", ">i8", ">u4", ">f2"]
# memory layouts of the structured image handed to Laser(): C order, Fortran order, a strided view into a larger
# array, a view with negative strides (values and dtypes are the same; only the bytes in memory differ)
LAYOUTS = ["C", "C", "C", "F", "strided", "reversed"]   # generated: one of the last three for a fifth of the lasers

# ----------------------------------------------------------------------------- encodings


def cps(s) -> list:
    return [ord(c) for c in str(s)]


def uncps(l) -> str:
    return "".join(chr(c) for c in l)


def ftok(x) -> list:
    """float -> [isNaN, bit pattern]: the model's `Flt`"""
    x = float(x)
    return [1 if math.isnan(x) else 0, core.tok(x)]


def tokf(t: int) -> float:
    return core.untok(t)


NAN_Q = core.tok(math.nan)
NAN_PAYLOAD = struct.unpack("<q", struct.pack("<Q", 0x7FF0000000ABCDEF))[0]
NAN_NEG = struct.unpack("<q", struct.pack("<Q", 0xFFF8000000000001))[0]
SPECIAL = [0.0, -0.0, 1.0, -1.0, math.inf, -math.inf, 0.1, 1 / 3, 5e-324, 1.7976931348623157e308, 2.0 ** -1022, 35.0, 0.25]


def rnd_float_tok(rng, allow_nan=False) -> int:
    r = rng.random()
    if allow_nan and r < 0.12:
        return rng.choice([NAN_Q, NAN_PAYLOAD, NAN_NEG])
    if r < 0.35:
        return core.tok(rng.choice(SPECIAL))
    if r < 0.6:
        return core.tok(rng.randint(-50, 50) / rng.choice([1, 2, 4, 10, 3, 7]))
    while True:
        t = rng.getrandbits(64)
        t = struct.unpack("<q", struct.pack("<Q", t))[0]
        if not math.isnan(tokf(t)):
            return t


def rnd_pos_float(rng, extreme=True) -> float:
    """`extreme=False` for an SRR scan time: warm-up seconds = samples x scan time must stay finite"""
    r = rng.random()
    if r < 0.03 and extreme:   # the ends of the positive range: smallest subnormal, smallest normal, largest finite, huge, tiny
        return rng.choice([5e-324, 2.0 ** -1022, 1.7976931348623157e308, 1e300, 1e-300, 2.0 ** 52 + 1.0, 1.0 + 2.0 ** -52])
    if r < 0.3:
        return rng.choice([35.0, 140.0, 0.25, 1.0, 10.0, 0.1, 0.3, 1 / 3, 2.5, 1e-3, 7.0, 1e3])
    if r < 0.6:
        return rng.randint(1, 400) / rng.choice([1, 2, 4, 8, 10, 3, 7, 100])
    return math.exp(rng.uniform(math.log(1e-4), math.log(1e5)))


POOL_ASCII = "abcdefghijklmnopqrstuvwxyzABCDEFGHIJKLMNOPQRSTUVWXYZ0123456789"
POOL_ODD = [" ", "\t", "\n", "́", "̈", "é", "µ", "ß", "中", "文", "😀", "𝛼", "\x00", "\"", "'", "\\", "/", ".", "=", "\r", "​", " "]


# separator characters of element names: the ones a loader might be tempted to split a member name / key on
SEPS = ["_", "-", ".", " ", ":", "/", "+", ",", ";", "|", "=", "#", "@", "·", "–", "‿", "＿", "->", "__", "_-", ". "]
SEP_SINGLE = sorted({c for s_ in SEPS for c in s_})
NAME_STEMS = ["Fe56", "Zn66", "Ca44", "P31", "Au197", "A", "b", "corr", "norm", "bg", "1", "56", "é", "中", "x"]


def rnd_sep(rng) -> str:
    return "_" if rng.random() < 0.45 else rng.choice(SEPS)


def rnd_str(rng, lo, hi, odd=0.3, nul_end_ok=False) -> str:
    n = rng.randint(lo, hi)
    s = "".join(rng.choice(POOL_ODD) if rng.random() < odd else rng.choice(POOL_ASCII) for _ in range(n))
    if not nul_end_ok:
        while s.endswith("\x00"):
            s = s[:-1] + rng.choice(POOL_ASCII)
    return s


# declared versions of old-layout files.  *_OK: of that generation as compare_version sees it (fewer / more components than
# "0.6.0", leading zeros, non-numeric components beyond the third: never parsed).  V_REJECT: older than 0.6.0 or not
# comparable with it (a non-numeric component among the compared ones) -> ValueError.  *_OFF: comparable, but of another
# generation than the layout of the file (members missing -> KeyError; outside the property, compared with the model only)
V06_OK = ["0.6.0", "0.6.7", "0.6.12", "0.6", "0.6.0.1", "0.06.3", "0.6.0.x", "0.6.3.dev1", "0.6.1.2.3", "0.6.9.rc.1", "00.6"]
V07_OK = ["0.7.0", "0.7.3", "0.7.10", "0.7", "0.7.0.9", "0.7.0.x", "0.7.3.dev1", "0.7.1.2.3", "0.07.0"]
V_REJECT = ["0.5.9", "0.5.12", "0.5", "0.5.x", "0.5.9.x", "0.x", "0.6.x", "0.7.x", "0.6.0rc1", "0.7rc", "x", "0.6.", ".6.0", "",
            "0..1", "0.5.99.1", "v0.6.0", "0.6.1b"]
V06_OFF = ["0", "1.x", "0.7.0", "0.8.0", "1", "0.10"]
V07_OFF = ["0", "0.6.5", "0.8.1", "1.x", "2"]
CLASS_NAMES = ["Raster", "Laser", "Spot", "SRR", "SRRLaser", "Other", "", "raster", "Raster "]


# ----------------------------------------------------------------------------- building the real objects


def uint_dtype(dt: np.dtype) -> np.dtype:
    return np.dtype(dt.byteorder.replace("=", "<").replace("|", "<") + "u" + str(dt.itemsize)) if dt.itemsize > 1 else np.dtype("u1")


def build_layer(elements, shape, li, layout="C"):
    elements = [{**e, "dtype": e["dtypes"][li]} if "dtypes" in e else e for e in elements]   # per-layer dtypes (targeted only)
    dt = np.dtype([(e["name"], e["dtype"]) for e in elements])
    shape = tuple(shape)
    if layout == "F":
        arr = np.zeros(shape, dtype=dt, order="F")
    elif layout == "strided" and len(shape) == 2:
        arr = np.zeros((2 * shape[0] + 1, 3 * shape[1] + 2), dtype=dt)[1::2, 2::3][: shape[0], : shape[1]]
    elif layout == "reversed" and len(shape) == 2:
        arr = np.zeros(shape, dtype=dt)[::-1, ::-1]
    else:
        arr = np.zeros(shape, dtype=dt)
    if arr.shape != shape:
        raise core.InternalError("layout view has the wrong shape")
    for e in elements:
        fdt = np.dtype(e["dtype"])
        raw = np.array(e["bits"][li], dtype=uint_dtype(fdt)).view(fdt).reshape(shape)
        arr[e["name"]] = raw
    return arr


def build_cal(c):
    from pewlib import Calibration

    if isinstance(c["weights"], str):
        weights = c["weights"]
    else:
        weights = (c["weights"]["name"], np.array([tokf(t) for t in c["weights"]["values"]], dtype=np.float64))
    points = np.array([[tokf(a), tokf(b)] for a, b in c["points"]], dtype=np.float64).reshape(-1, 2)
    return Calibration(
        intercept=tokf(c["intercept"]), gradient=tokf(c["gradient"]), unit=c["unit"],
        rsq=None if c["rsq"] is None else tokf(c["rsq"]), error=None if c["error"] is None else tokf(c["error"]),
        points=points, weights=weights,
    )


def build_config(c):
    from pewlib import Config
    from pewlib.config import SpotConfig
    from pewlib.srr import SRRConfig

    if c["class"] == "raster":
        return Config(spotsize=tokf(c["spotsize"]), speed=tokf(c["speed"]), scantime=tokf(c["scantime"]))
    if c["class"] == "spot":
        return SpotConfig(spotsize=tokf(c["spotsize"]), spotsize_y=tokf(c["spotsize_y"]))
    return SRRConfig(spotsize=tokf(c["spotsize"]), speed=tokf(c["speed"]), scantime=tokf(c["scantime"]),
                     warmup=tokf(c["warmup"]), subpixel_offsets=[tuple(o) for o in c["offsets"]])


def build_laser(case):
    from pewlib import Laser
    from pewlib.srr import SRRLaser

    els = case["elements"]
    cal = {els[i]["name"]: build_cal(c) for i, c in case["cals"]}
    info = {k: v for k, v in case["info"]}
    config = build_config(case["config"])
    lay = case.get("layout", "C")
    if case["cls"] == "srr":
        layers = [build_layer(els, sh, li, lay) for li, sh in enumerate(case["shapes"])]
        return SRRLaser(layers, calibration=cal, config=config, info=info)
    return Laser(build_layer(els, case["shapes"][0], 0, lay), calibration=cal, config=config, info=info)


# ----------------------------------------------------------------------------- operations on the real object


def apply_op_real(obj, op):
    """one call of a public mutator (or one assignment to a public attribute) on the pewlib object"""
    k = op["op"]
    if k == "cal_set":
        obj.calibration[op["key"]] = build_cal(op["cal"])
    elif k == "cal_pop":
        obj.calibration.pop(op["key"])
    elif k == "cal_move_end":
        c = obj.calibration.pop(op["key"])
        obj.calibration[op["key"]] = c
    elif k == "cal_reorder":
        obj.calibration = {n: obj.calibration[n] for n in op["order"]}
    elif k == "cal_edit":
        c = obj.calibration[op["key"]]
        e = op["edit"]
        w = e["what"]
        if w in ("intercept", "gradient"):
            setattr(c, w, tokf(e["value"]))
        elif w == "unit":
            c.unit = e["value"]
        elif w in ("rsq", "error"):
            setattr(c, w, None if e["value"] is None else tokf(e["value"]))
        elif w == "points":
            c.points = np.array([[tokf(a), tokf(b)] for a, b in e["value"]], dtype=np.float64).reshape(-1, 2)
        elif w == "weighting":
            c.weights = e["value"]
        elif w == "custom":
            c.weights = (e["name"], np.array([tokf(t) for t in e["value"]], dtype=np.float64))
        else:
            raise core.InternalError("bad calibration edit " + w)
    elif k == "info_set":
        obj.info[op["key"]] = op["value"]
    elif k == "info_pop":
        obj.info.pop(op["key"])
    elif k == "info_assign":
        obj.info = {a: b for a, b in op["items"]}
    elif k == "cfg":
        w = op["what"]
        if w in ("spotsize", "speed", "scantime", "spotsize_y"):
            if not hasattr(obj.config, w):
                raise AttributeError(w)
            setattr(obj.config, w, tokf(op["value"]))
        elif w == "warmup":
            obj.config.warmup = tokf(op["value"])
        elif w == "offsets":
            obj.config.subpixel_offsets = np.array([tuple(o) for o in op["value"]]) if op.get("as_array") else [tuple(o) for o in op["value"]]
        elif w == "equal_offsets":
            obj.config.set_equal_subpixel_offsets(int(op["value"]))
        else:
            raise core.InternalError("bad config operation " + w)
    elif k == "cfg_assign":
        obj.config = build_config(op["config"])
    elif k == "rename":
        obj.rename({a: b for a, b in op["names"]})
    elif k == "add":
        fdt = np.dtype(op["dtype"])
        layers = list(obj.data) if type(obj).__name__ == "SRRLaser" else [obj.data]
        arrs = [np.array(b, dtype=uint_dtype(fdt)).view(fdt).reshape(l.shape) for b, l in zip(op["bits"], layers)]
        cal = None if op["cal"] is None else build_cal(op["cal"])
        obj.add(op["name"], arrs if type(obj).__name__ == "SRRLaser" else arrs[0], calibration=cal)
    elif k == "remove":
        obj.remove(op["names"][0] if op.get("as_str") and len(op["names"]) == 1 else list(op["names"]))
    elif k == "data_reorder":
        def reorder(a):
            new = np.empty(a.shape, dtype=[(n, a.dtype[n]) for n in op["order"]])
            for n in op["order"]:
                new[n] = a[n]
            return new
        if type(obj).__name__ == "SRRLaser":
            obj.data = [reorder(a) for a in obj.data]
        else:
            obj.data = reorder(obj.data)
    else:
        raise core.InternalError("bad operation " + k)


def read_real(obj, what):
    """read-only accesses between two saves (they must not change what the next save writes)"""
    with warnings.catch_warnings():
        warnings.simplefilter("ignore")
        try:
            if what == "to_array":
                obj.config.to_array()
                for c in obj.calibration.values():
                    c.to_array()
            elif what == "offsets":
                getattr(obj.config, "subpixel_offsets", None)
                getattr(obj.config, "warmup", None)
            elif what == "extent":
                obj.extent  # noqa: B018
                obj.config.get_pixel_width(), obj.config.get_pixel_height()
            elif what == "get":
                if type(obj).__name__ == "SRRLaser":   # a single layer: the reconstruction can be arbitrarily large
                    obj.get(obj.elements[0], calibrate=True, layer=0)
                    obj.get(layer=1)
                else:
                    obj.get(obj.elements[0], calibrate=True)
                    obj.get()
            elif what == "weights":
                for c in obj.calibration.values():
                    c.weights  # noqa: B018
                    str(c)
        except Exception:  # noqa: BLE001  a read that fails (e.g. extent of an odd SRR config) is of no concern here
            pass


def tkn(t):
    return [1 if math.isnan(tokf(t)) else 0, t]


def enc_cal(c):
    """a calibration of the case (constructor arguments) as the model's `Cal`"""
    custom = not isinstance(c["weights"], str)
    return {"intercept": tkn(c["intercept"]), "gradient": tkn(c["gradient"]), "unit": cps(c["unit"]),
            "rsq": None if c["rsq"] is None else tkn(c["rsq"]), "error": None if c["error"] is None else tkn(c["error"]),
            "points": [[tkn(a), tkn(b)] for a, b in c["points"]],
            "weighting": cps(c["weights"]["name"] if custom else c["weights"]),
            "weights": [tkn(v) for v in c["weights"]["values"]] if custom else []}


def enc_cfg_args(c):
    if c["class"] == "raster":
        return {"class": "raster", "spotsize": tkn(c["spotsize"]), "speed": tkn(c["speed"]), "scantime": tkn(c["scantime"])}
    if c["class"] == "spot":
        return {"class": "spot", "spotsize": tkn(c["spotsize"]), "spotsize_y": tkn(c["spotsize_y"])}
    return {"class": "srr", "spotsize": tkn(c["spotsize"]), "speed": tkn(c["speed"]), "scantime": core.rat(tokf(c["scantime"])),
            "warmup": core.rat(tokf(c["warmup"])), "offsets": [[int(a), int(b)] for a, b in c["offsets"]]}


def enc_op(op):
    """an operation of the case in the driver's encoding (strings as code points, floats as tokens / exact rationals)"""
    k = op["op"]
    if k == "cal_set":
        return {"op": k, "key": cps(op["key"]), "cal": enc_cal(op["cal"])}
    if k in ("cal_pop", "cal_move_end", "info_pop"):
        return {"op": k, "key": cps(op["key"])}
    if k in ("cal_reorder", "data_reorder"):
        return {"op": k, "order": [cps(n) for n in op["order"]]}
    if k == "cal_edit":
        e = op["edit"]
        w = e["what"]
        if w in ("intercept", "gradient"):
            ed = {"what": w, "value": tkn(e["value"])}
        elif w in ("unit", "weighting"):
            ed = {"what": w, "value": cps(e["value"])}
        elif w in ("rsq", "error"):
            ed = {"what": w, "value": None if e["value"] is None else tkn(e["value"])}
        elif w == "points":
            ed = {"what": w, "value": [[tkn(a), tkn(b)] for a, b in e["value"]]}
        else:
            ed = {"what": "custom", "name": cps(e["name"]), "value": [tkn(t) for t in e["value"]]}
        return {"op": k, "key": cps(op["key"]), "edit": ed}
    if k == "info_set":
        return {"op": k, "key": cps(op["key"]), "value": cps(op["value"])}
    if k == "info_assign":
        return {"op": k, "items": [[cps(a), cps(b)] for a, b in op["items"]]}
    if k == "cfg":
        w = op["what"]
        if w in ("spotsize", "speed", "scantime", "spotsize_y"):
            return {"op": k, "what": w, "value": tkn(op["value"])}
        if w == "warmup":
            return {"op": k, "what": w, "value": core.rat(tokf(op["value"]))}
        if w == "offsets":
            return {"op": k, "what": w, "value": [[int(a), int(b)] for a, b in op["value"]]}
        return {"op": k, "what": w, "value": int(op["value"])}
    if k == "cfg_assign":
        return {"op": k, "config": enc_cfg_args(op["config"])}
    if k == "rename":
        return {"op": k, "names": [[cps(a), cps(b)] for a, b in op["names"]]}
    if k == "add":
        return {"op": k, "name": cps(op["name"]), "dtype": cps(np.dtype(op["dtype"]).str), "vals": op["bits"],
                "cal": None if op["cal"] is None else enc_cal(op["cal"])}
    if k == "remove":
        return {"op": k, "names": [cps(n) for n in op["names"]]}
    raise core.InternalError("bad operation " + k)


# ----------------------------------------------------------------------------- canonical descriptions


def desc_cal(c, for_driver: bool):
    points = np.asarray(c.points)
    if points.ndim != 2 or points.shape[1] != 2:
        raise core.InternalError("calibration points are not (n, 2)")
    builtin = str(c.weighting) in BUILTIN
    d = {
        "intercept": ftok(c.intercept), "gradient": ftok(c.gradient), "unit": cps(c.unit),
        "rsq": None if c.rsq is None else ftok(c.rsq), "error": None if c.error is None else ftok(c.error),
        "points": [[ftok(a), ftok(b)] for a, b in points.tolist()], "weighting": cps(c.weighting),
    }
    if for_driver:
        d["weights"] = [] if builtin else [ftok(w) for w in np.asarray(c.weights).tolist()]
    else:
        d["weights"] = None if builtin else [ftok(w) for w in np.asarray(c.weights).tolist()]
    return d


def desc_config(cfg):
    name = type(cfg).__name__
    if name == "Config":
        return {"class": "raster", "spotsize": ftok(cfg.spotsize), "speed": ftok(cfg.speed), "scantime": ftok(cfg.scantime)}
    if name == "SpotConfig":
        return {"class": "spot", "spotsize": ftok(cfg.spotsize), "spotsize_y": ftok(cfg.spotsize_y)}
    if name == "SRRConfig":
        return {"class": "srr", "spotsize": ftok(cfg.spotsize), "speed": ftok(cfg.speed),
                "scantime": core.rat(float(cfg.scantime)), "warmup_n": int(cfg._warmup),
                "sub_size": int(cfg._subpixel_size), "sub_offsets": [int(o) for o in np.asarray(cfg._subpixel_offsets).tolist()],
                "offsets_public": [[int(a), int(b)] for a, b in np.asarray(cfg.subpixel_offsets).reshape(-1, 2).tolist()]}
    return {"class": name}


def desc_layer(arr):
    names = arr.dtype.names
    cols = []
    for n in names:
        f = np.ascontiguousarray(arr[n])
        cols.append(f.view(uint_dtype(f.dtype)).ravel().tolist())
    cells = [list(rec) for rec in zip(*cols)] if cols else []
    return {"shape": list(arr.shape), "cells": cells}


def desc_fields(arr):
    return [[cps(n), cps(arr.dtype[n].str)] for n in arr.dtype.names]


def desc_laser(obj, for_driver: bool):
    """`for_driver`: the object as it is (dict orders kept, `_weights`); otherwise the canonical
    observation (dicts sorted by key: Python dict equality ignores order)"""
    kind = {"Laser": "laser", "SRRLaser": "srr"}.get(type(obj).__name__, type(obj).__name__)
    layers = list(obj.data) if kind == "srr" else [obj.data]
    d = {
        "kind": kind,
        "fields": desc_fields(layers[0]),
        "layers": [desc_layer(a) for a in layers],
        "cal": [[cps(k), desc_cal(v, for_driver)] for k, v in obj.calibration.items()],
        "config": desc_config(obj.config),
        "info": [[cps(k), cps(v)] for k, v in obj.info.items()],
    }
    if not for_driver:
        d["cal"].sort(key=lambda kv: kv[0])
        d["info"].sort(key=lambda kv: kv[0])
        d["layer_dtypes_equal"] = all(a.dtype == layers[0].dtype for a in layers)
        for k, v in obj.info.items():
            if not isinstance(k, str) or not isinstance(v, str):
                d["info_not_str"] = True
    return d


def canon_reply(res, data_ok=True):
    """driver result -> the same canonical form as `desc_laser(obj, False)`"""
    if "raises" in res:
        return {"raises": res["raises"]}
    L = res["ok"]
    cal = []
    for k, c in L["cal"]:
        c = dict(c)
        if c.pop("builtin"):
            c["weights"] = None
        cal.append([k, c])
    cfg = dict(L["config"])
    if cfg["class"] == "srr":
        q = core.unrat(cfg["scantime"])
        cfg["scantime"] = core.rat(q)
    return {"ok": {"kind": L["kind"], "fields": L["fields"], "layers": L["layers"], "cal": sorted(cal, key=lambda kv: kv[0]),
                   "config": cfg, "info": sorted(L["info"], key=lambda kv: kv[0]), "layer_dtypes_equal": True,
                   "same_container": True}}


def observe(fn, original):
    with warnings.catch_warnings():
        warnings.simplefilter("ignore")
        try:
            obj = fn()
        except Exception as e:  # noqa: BLE001
            return {"raises": type(e).__name__, "msg": str(e)[:160]}
    d = desc_laser(obj, False)
    d["same_container"] = type(obj.data) is type(original.data)
    return {"ok": d}


def strip_msg(x):
    if isinstance(x, dict) and "raises" in x:
        return {"raises": x["raises"]}
    return x


# ----------------------------------------------------------------------------- the property


class C01(Prop):
    id = "C01"
    anchored = ["src/pewlib/io/npz.py", "src/pewlib/calibration.py", "src/pewlib/config.py", "src/pewlib/srr/config.py",
                "src/pewlib/laser.py", "src/pewlib/srr/srr.py"]
    cases = {"quick": 600, "thorough": 12000}
    rule = ("random Laser / spot / SRR lasers (equal-shape layers, shapes from 1x1, 3% up to 64x40; 1-8 elements with unicode names "
            "incl. tabs, combining marks, non-BMP, >32 chars; 21 field dtypes incl. six non-native byte orders; C-ordered, "
            "Fortran-ordered, strided and negative-stride images (a fifth of the lasers); NaN payloads/inf/-0.0 data), calibrations "
            "with 0..6 (3%: 20-50) points, "
            "half-NaN rows, all seven built-in weightings and custom weights, differing lengths; lasers without any calibration "
            "point whose calibrations still carry unit / weighting (built-in, custom with no weights) / rsq / error, identity "
            "and fitted lines mixed (15% of the full-size cases); element names around separator characters (_ - . space : / "
            "| ...; a name continuing another element's name past the separator, names sharing the text before it; 25% of "
            "names, in every stream incl. the 0.6/0.7 files); info dicts incl. empty "
            "keys/values, keys colliding after tab replacement, 20-40 entries, keys of 100-300 and values of 500-3000 characters; "
            "inexact config floats, warm-up, sub-pixel offsets; "
            "CALIBRATION DICT ORDER: in a third of the round-trip / layout / cross-class cases with >= 2 elements the calibration "
            "dict lists the elements in another order than the data (entries popped and re-inserted, the dict reassigned in a "
            "shuffled or reversed order, an entry replaced by a new calibration, the image replaced by one with reordered "
            "fields, dict manipulation mixed with remove / add), every element carrying a calibration of its own, no two equal; "
            "HISTORIES (19% of the cases + 200 targeted): constructor -> [calls] -> save+load -> calls -> save+load [-> again], "
            "optionally going on with the loaded object; the calls are every public mutator: calibration dict (set, pop, "
            "re-insert, reassign), in-place edits of a Calibration (intercept, gradient, unit, rsq, error, points, weighting, "
            "custom weights), info (set, pop, reassign), config attributes, the warmup and subpixel_offsets setters, "
            "set_equal_subpixel_offsets, a new config object, add / remove / rename (swaps included), the image replaced; "
            "read-only accesses in between (to_array, subpixel_offsets, extent, get, weights); each save to the same or another "
            "file, handed over as str or Path, names that np.savez completes with '.npz' ('', '.dat', '.NPZ', '.npz.npz'); "
            "every load is judged against the specification of the state the MODEL tracked from the calls; "
            "real npz.save -> npz.load chains of length 1-4 and harness-written 0.6/0.7 layout files (current or legacy class "
            "names; declared versions with fewer / more components than 0.6.0, non-numeric tails beyond the compared "
            "components, non-numeric compared components, older than 0.6.0), half of them also loaded, re-saved with the "
            "current save and loaded again; only the loaded object is observed. "
            "Compared with the model only (outside the quantifier, hyp=false): lasers without elements (save raises), files "
            "saved by npz.save whose header class name was replaced by another class / an unknown one (Config.from_array "
            "of an SRR array, SRRConfig.from_array of a raster array, ...), old-layout files declaring a version of another "
            "generation, SRR lasers with a non-native field (stacked native: known finding). "
            "non-trivial = every case (each has >=1 named feature); distinct by canonical case hash")
    trusted = [
        "np.savez_compressed/np.load round-trip arrays bit-exactly; NumPy U storage strips trailing NULs and truncates to the field width",
        "harness/gen_npz.py writes the 0.6 / 0.7 layouts as the fixtures in tests/data/npz show them",
        "SRR warm-up: the float evaluation of round((n*scantime)/scantime) is one instance of the rounding function `fl` of theorem config_roundtrip (hypothesis hfl: each operation within relative error 2^-53; helper lemma warmup_robust in PewProofs/Npz.lean); the driver evaluates the exact instance fl = id",
        "round-trip / layout / cross-class streams: the abstract description of the freshly CONSTRUCTED laser is read from the real object (SRRConfig._warmup/_subpixel_size/_subpixel_offsets); every call made after construction (calibration-dict reordering, histories) is applied by the model, never read back",
        "history stream: the initial state is the model's constructor (mkLaser, SRR.mk' evaluated exactly); a warm-up whose exact quotient seconds/scantime is within 2^-10 of a half-integer or above 2^40 is counted undetermined (theorems warmup_setter_robust, srr_constructor_robust: otherwise float and exact evaluation agree)",
        "the file np.savez writes for a name that does not end in '.npz' is name + '.npz' (documented in npz.save); Path.stem / Path.resolve of the loaded path are computed by the harness with pathlib",
    ]
    assumptions = [
        "outside the quantifier (hyp=false: no specification, the implementation is compared with the model only): "
        "point rows that are NaN in x, y and weight; rsq/error equal to NaN; units / weighting names longer than 32 code points; "
        "file stems containing tabs; lasers without elements; class name and config member of a file disagreeing; "
        "version strings: only decimal ASCII components and clearly non-numeric ones are generated (Python's int() also "
        "accepts signs, blanks, underscores and non-ASCII digits, the model's parseNat does not)",
        "counted as undetermined (the model answers `Unmodelled`): SRRConfig.from_array of a spot array or of a raster "
        "array whose scan time is zero / not finite",
        "info and calibration dicts are compared as mappings (sorted by key): Python dict equality ignores order",
        "every generation of a chain is written to the same path (File Path is the path loaded from); histories also write to other paths",
        "a call of a history that raises on the real object or that the model declines (only reachable by shrinking) makes the case undetermined; only the loads are judged",
        "not generated (outside the quantifier): calibration dicts whose key set differs from the element names, custom weights that are not one-dimensional, images with zero rows, SRR layers of different dtypes (see notes/EC01.md), width 0 / empty offset lists",
    ]

    # ------------------------------------------------------------------ generator
    def gen_sep_name(self, rng, used):
        """element names built around separator characters ('Fe56_corr', 'Zn66_norm_Ca44', 'Ca44-bg', 'a.b', '_x', 'x_',
        '__'), also names that extend another element's name past a separator ('A', 'A_b') and names that share the text
        before the separator ('Fe56_corr', 'Fe56_norm')"""
        r = rng.random()
        stem = lambda: rng.choice(NAME_STEMS) if rng.random() < 0.8 else rnd_str(rng, 1, 4, odd=0.3)
        if r < 0.3 and used:
            base = rng.choice(sorted(used))
            if rng.random() < 0.5:  # the text before the first separator of an existing name, or that name itself
                cut = min([base.find(c) for c in SEP_SINGLE if base.find(c) > 0] or [len(base)])
                base = base[:cut]
            return base + rnd_sep(rng) + stem()
        if r < 0.42:
            return rng.choice([rnd_sep(rng) + stem(), stem() + rnd_sep(rng), rnd_sep(rng), rnd_sep(rng) + rnd_sep(rng),
                               rnd_sep(rng) + stem() + rnd_sep(rng)])
        s = stem()
        for _ in range(rng.choice([1, 1, 1, 2, 2, 3])):
            s += rnd_sep(rng) + stem()
        return s

    def gen_name(self, rng, used, sep=0.25):
        while True:
            r = rng.random()
            if r < sep:
                s = self.gen_sep_name(rng, used)
            elif r < 0.45:
                s = rng.choice(["A1", "B2", "Ca43", "P31", "Fe56", "Au197", "a b", "Zn66->82", "[238U]+"])
            elif r < 0.6:
                s = rnd_str(rng, 1, 6, odd=0.0)
            elif r < 0.9:
                s = rnd_str(rng, 1, 10, odd=0.4)
            else:
                s = rnd_str(rng, 33, 60, odd=0.1)
            if s and s not in used and not s.endswith("\x00"):
                used.add(s)
                return s

    def gen_cal(self, rng, npoints=None):
        n = (rng.choice([0, 0, 1, 2, 3, 3, 4, 5, 6]) if rng.random() < 0.97 else rng.randint(20, 50)) if npoints is None else npoints
        points = []
        for _ in range(n):
            a, b = rnd_float_tok(rng), rnd_float_tok(rng)
            r = rng.random()
            if r < 0.12:
                a = rng.choice([NAN_Q, NAN_PAYLOAD])
            elif r < 0.24:
                b = rng.choice([NAN_Q, NAN_NEG])
            elif r < 0.34:
                a = core.tok(rng.choice([0.0, -0.0]))
            points.append([a, b])
        r = rng.random()
        if r < 0.62:
            weights = rng.choice(BUILTIN)
        else:
            name = rng.choice(["custom", "Custom", "w", "", "1/σ²", "x ", "Equal ", "equal", rnd_str(rng, 1, 32, odd=0.3),
                               rnd_str(rng, 32, 32, odd=0.1)])
            if name in BUILTIN:
                name = "custom"
            weights = {"name": name, "values": [rnd_float_tok(rng, allow_nan=True) for _ in range(n)]}
        unit = rng.choice(["", "ppm", "µg/g", "ppb\t", "mg kg⁻¹", rnd_str(rng, 0, 32, odd=0.3), rnd_str(rng, 32, 32, odd=0.1)])
        return {
            "intercept": rnd_float_tok(rng), "gradient": rnd_float_tok(rng), "unit": unit,
            "rsq": None if rng.random() < 0.4 else rnd_float_tok(rng),
            "error": None if rng.random() < 0.4 else rnd_float_tok(rng),
            "points": points, "weights": weights,
        }

    def gen_empty_cal(self, rng, identity):
        """a calibration without points that nevertheless carries a unit / weighting / rsq / error (entered before any
        standard was measured); `identity`: intercept 0 (either sign) and gradient 1"""
        t = core.tok
        if identity:
            intercept, gradient = t(-0.0 if rng.random() < 0.15 else 0.0), t(1.0)
        else:
            r = rng.random()
            if r < 0.3:
                intercept, gradient = t(0.0), rnd_float_tok(rng)
            elif r < 0.6:
                intercept, gradient = rnd_float_tok(rng), t(1.0)
            else:
                intercept, gradient = rnd_float_tok(rng), rnd_float_tok(rng)
        r = rng.random()
        if r < 0.2:
            weights = "Equal"
        elif r < 0.55:
            weights = rng.choice(BUILTIN[1:])
        else:  # custom weighting, no weights yet
            name = rng.choice(["custom", "Custom", "w", "", "1/σ²", "x ", "Equal ", "equal", rnd_str(rng, 1, 32, odd=0.3)])
            weights = {"name": "custom" if name in BUILTIN else name, "values": []}
        unit = "" if rng.random() < 0.25 else rng.choice(["ppm", "µg/g", "ppb\t", "mg kg⁻¹", " ", rnd_str(rng, 1, 32, odd=0.3),
                                                          rnd_str(rng, 32, 32, odd=0.1)])
        c = {"intercept": intercept, "gradient": gradient, "unit": unit,
             "rsq": None if rng.random() < 0.5 else rnd_float_tok(rng),
             "error": None if rng.random() < 0.5 else rnd_float_tok(rng), "points": [], "weights": weights}
        if c["unit"] == "" and c["weights"] == "Equal" and c["rsq"] is None and c["error"] is None:
            c[rng.choice(["rsq", "error"])] = rnd_float_tok(rng)
        return c

    def gen_info(self, rng):
        r = rng.random()
        if r < 0.12:
            return []
        n = rng.choice([1, 1, 2, 3, 4, 6]) if rng.random() < 0.95 else rng.randint(20, 40)
        d = {}
        for _ in range(n):
            r = rng.random()
            if r < 0.3:
                k = rng.choice(["Name", "File Path", "File Version", "File\tPath", "File\tVersion", "Na\tme", "", "Operator",
                                "a\tb", "a b", "\t", " "])
            elif r < 0.33:
                k = rnd_str(rng, 100, 300, odd=0.2, nul_end_ok=True)
            else:
                k = rnd_str(rng, 0, 8, odd=0.35, nul_end_ok=True)
            r = rng.random()
            v = rng.choice(["", "x"]) if r < 0.2 else rnd_str(rng, 500, 3000, odd=0.2) if r < 0.24 else rnd_str(rng, 0, 12, odd=0.35)
            d[k] = v
        if rng.random() < 0.25:  # keys that collide only after tabs become spaces
            base = rnd_str(rng, 1, 3, odd=0.0)
            d[base + "\t" + "k"] = rnd_str(rng, 0, 4, odd=0.2)
            d[base + " " + "k"] = rnd_str(rng, 0, 4, odd=0.2)
        items = list(d.items())
        rng.shuffle(items)
        return [[k, v] for k, v in items]

    def gen_bits(self, rng, dtype, size):
        dt = np.dtype(dtype)
        nb = 8 * dt.itemsize
        out = []
        for _ in range(size):
            r = rng.random()
            if dt.kind == "f" and r < 0.3:
                v = rng.choice([math.nan, math.inf, -math.inf, -0.0, 0.0, 1.0])
                x = np.array([v], dtype=dt.newbyteorder("<")).view("<u" + str(dt.itemsize))[0]
                out.append(int(x))
            elif r < 0.4:
                out.append(rng.choice([0, 1, (1 << nb) - 1, 1 << (nb - 1)]))
            else:
                out.append(rng.getrandbits(nb))
        return out

    def gen_config(self, rng, cls, nlayers):
        if cls == "laser":
            return {"class": "raster", "spotsize": core.tok(rnd_pos_float(rng)), "speed": core.tok(rnd_pos_float(rng)),
                    "scantime": core.tok(rnd_pos_float(rng))}
        if cls == "spot":
            return {"class": "spot", "spotsize": core.tok(rnd_pos_float(rng)), "spotsize_y": core.tok(rnd_pos_float(rng))}
        scantime = rnd_pos_float(rng, extreme=False)
        r = rng.random()
        if r < 0.2:
            warmup = 0.0
        elif r < 0.7:
            warmup = rng.randint(0, 200) * scantime
        else:
            warmup = rng.uniform(0, 60.0)
        if not math.isfinite(warmup):   # 200 acquisitions of the largest finite scan time
            warmup = 0.0
        k = nlayers if rng.random() < 0.7 else rng.randint(1, 5)
        offsets = []
        for _ in range(k):
            den = rng.choice([1, 2, 2, 3, 4, 5, 6, 8, 12])
            offsets.append([rng.randint(0, den) if rng.random() < 0.9 else rng.randint(-3, 20), den])
        return {"class": "srr", "spotsize": core.tok(rnd_pos_float(rng)), "speed": core.tok(rnd_pos_float(rng)),
                "scantime": core.tok(scantime), "warmup": core.tok(warmup), "offsets": offsets}

    # ------------------------------------------------------------------ operations between saves
    def distinct_cals(self, rng, case):
        """every element gets a calibration of its own and no two calibrations are equal: a calibration that lands on
        another element is then always visible"""
        have = {i for i, _ in case["cals"]}
        cals = list(case["cals"])
        empty = bool(cals) and all(len(c["points"]) == 0 for _, c in cals)
        for i in range(len(case["elements"])):
            if i not in have:
                cals.append([i, self.gen_empty_cal(rng, rng.random() < 0.5) if empty else self.gen_cal(rng)])
        seen = []
        out = []
        for i, c in cals:
            while any(core.canon(c) == core.canon(d) for d in seen):
                c = {**c, "intercept": rnd_float_tok(rng)}
            seen.append(c)
            out.append([i, c])
        case["cals"] = out

    def track(self, case):
        """what the generator needs to know of the object to produce calls that are valid: element names in data
        order, keys of the calibration dict in dict order, number of points and kind of weighting per key, info keys,
        class and scan time of the configuration"""
        names = [e["name"] for e in case["elements"]]
        given = {names[i]: c for i, c in case["cals"]}
        return {"names": list(names), "calkeys": list(names),
                "npoints": {n: len(given[n]["points"]) if n in given else 0 for n in names},
                "custom": {n: (n in given and not isinstance(given[n]["weights"], str)) for n in names},
                "info": list(dict.fromkeys(k for k, _ in case["info"])), "cfg": case["config"]["class"],
                "scantime": tokf(case["config"]["scantime"]) if case["config"]["class"] == "srr" else None,
                "nlayers": len(case["shapes"]), "size": case["shapes"][0][0] * case["shapes"][0][1]}

    def gen_order_ops(self, rng, st):
        """operations after which the calibration dict lists the elements in another order than the data does"""
        ks = st["calkeys"]
        if len(ks) < 2:
            return []
        how = rng.choice(["move_end", "move_end", "reorder", "reorder", "pop_set", "data_reorder", "remove_add"])
        ops = []
        if how == "move_end":
            for k in rng.sample(ks[:-1], rng.randint(1, max(1, len(ks) - 1))) if rng.random() < 0.7 else [ks[0]]:
                ops.append({"op": "cal_move_end", "key": k})
                st["calkeys"].remove(k)
                st["calkeys"].append(k)
        elif how == "reorder":
            order = list(ks)
            while order == ks:
                rng.shuffle(order)
            if rng.random() < 0.3:
                order = list(reversed(ks))
            ops.append({"op": "cal_reorder", "order": order})
            st["calkeys"][:] = order
        elif how == "pop_set":  # a calibration is taken out and a new one (a re-fit) is put in: it goes last
            k = rng.choice(ks[:-1])
            c = self.gen_cal(rng)
            ops += [{"op": "cal_pop", "key": k}, {"op": "cal_set", "key": k, "cal": c}]
            st["calkeys"].remove(k)
            st["calkeys"].append(k)
            st["npoints"][k] = len(c["points"])
            st["custom"][k] = not isinstance(c["weights"], str)
        elif how == "data_reorder":  # the image is replaced by one with its fields in another order
            order = list(st["names"])
            while order == st["names"]:
                rng.shuffle(order)
            ops.append({"op": "data_reorder", "order": order})
            st["names"][:] = order
        else:  # dict manipulation mixed with the element history: move an entry, remove another element, add it again
            k = ks[0]
            ops.append({"op": "cal_move_end", "key": k})
            st["calkeys"].remove(k)
            st["calkeys"].append(k)
            if len(ks) > 2:
                ops += self.gen_op(rng, st, only="remove")
            ops += self.gen_op(rng, st, only="add")
        return ops

    def gen_op(self, rng, st, only=None):
        """one call (sometimes two that belong together) of a public mutator, valid for the tracked state"""
        kinds = ["cal_edit", "cal_edit", "cal_set", "info_set", "info_pop", "info_assign", "cfg", "cfg", "cfg", "cfg_assign",
                 "rename", "add", "remove", "order", "order"]
        if st["cfg"] == "srr":   # the SRR configuration has the most writers (two setters and a mutator besides the attributes)
            kinds += ["cfg"] * 5
        t = core.tok
        for _ in range(50):
            k = only or rng.choice(kinds)
            ks, names = st["calkeys"], st["names"]
            if k == "order":
                ops = self.gen_order_ops(rng, st)
                if ops:
                    return ops
            elif k == "cal_set":
                key = rng.choice(ks)
                c = self.gen_cal(rng)
                st["npoints"][key], st["custom"][key] = len(c["points"]), not isinstance(c["weights"], str)
                return [{"op": "cal_set", "key": key, "cal": c}]
            elif k == "cal_edit":
                key = rng.choice(ks)
                w = rng.choice(["intercept", "gradient", "unit", "rsq", "error", "points", "weighting", "custom"])
                if w in ("intercept", "gradient"):
                    return [{"op": "cal_edit", "key": key, "edit": {"what": w, "value": rnd_float_tok(rng)}}]
                if w == "unit":
                    return [{"op": "cal_edit", "key": key, "edit": {"what": w, "value": rng.choice(["", "ppm", "µg/g", "cps", rnd_str(rng, 0, 32, odd=0.3)])}}]
                if w in ("rsq", "error"):
                    return [{"op": "cal_edit", "key": key, "edit": {"what": w, "value": None if rng.random() < 0.3 else rnd_float_tok(rng)}}]
                if w == "weighting":
                    st["custom"][key] = False
                    return [{"op": "cal_edit", "key": key, "edit": {"what": w, "value": rng.choice(BUILTIN)}}]
                c = self.gen_cal(rng)  # new points; custom weights have to follow
                n = len(c["points"])
                if w == "custom" or st["custom"][key]:
                    name = rng.choice(["custom", "w", "1/σ²", rnd_str(rng, 1, 32, odd=0.3)])
                    name = "custom" if name in BUILTIN else name
                    ops = [] if (w == "custom" and st["npoints"][key] == n) else [{"op": "cal_edit", "key": key, "edit": {"what": "points", "value": c["points"]}}]
                    if ops:
                        st["npoints"][key] = n
                    st["custom"][key] = True
                    return ops + [{"op": "cal_edit", "key": key, "edit": {"what": "custom", "name": name,
                                   "value": [rnd_float_tok(rng, allow_nan=True) for _ in range(st["npoints"][key])]}}]
                st["npoints"][key] = n
                return [{"op": "cal_edit", "key": key, "edit": {"what": "points", "value": c["points"]}}]
            elif k == "info_set":
                key = rng.choice(st["info"]) if st["info"] and rng.random() < 0.4 else rng.choice(["Name", "Operator", "a\tb", "k", "", rnd_str(rng, 0, 6, odd=0.3)])
                if key not in st["info"]:
                    st["info"].append(key)
                return [{"op": "info_set", "key": key, "value": rng.choice(["", "v", "x\ty"]) if rng.random() < 0.3 else rnd_str(rng, 0, 10, odd=0.3)}]
            elif k == "info_pop" and st["info"]:
                key = rng.choice(st["info"])
                st["info"].remove(key)
                return [{"op": "info_pop", "key": key}]
            elif k == "info_assign":
                items = self.gen_info(rng)
                st["info"] = list(dict.fromkeys(a for a, _ in items))
                return [{"op": "info_assign", "items": items}]
            elif k == "cfg":
                cls = st["cfg"]
                w = rng.choice({"raster": ["spotsize", "speed", "scantime"], "spot": ["spotsize", "spotsize_y"],
                                "srr": ["spotsize", "speed", "scantime", "warmup", "warmup", "offsets", "offsets", "equal_offsets",
                                        "equal_offsets", "equal_offsets"]}[cls])
                if w == "warmup":
                    s_ = st["scantime"]
                    v = rng.randint(0, 200) * s_ if rng.random() < 0.6 else rng.uniform(0, 60.0)
                    v = v if math.isfinite(v) else 0.0
                    return [{"op": "cfg", "what": w, "value": t(v)}]
                if w == "offsets":
                    offs = []
                    for _ in range(rng.choice([1, 2, 2, 3, 4])):
                        den = rng.choice([1, 2, 2, 3, 4, 5, 6, 8, 12])
                        offs.append([rng.randint(0, den), den])
                    return [{"op": "cfg", "what": w, "value": offs, "as_array": rng.random() < 0.5}]
                if w == "equal_offsets":
                    return [{"op": "cfg", "what": w, "value": rng.choice([1, 2, 2, 3, 3, 4, 5, 8])}]
                v = rnd_pos_float(rng, extreme=not (w == "scantime" and cls == "srr"))
                if w == "scantime" and cls == "srr":
                    st["scantime"] = v
                return [{"op": "cfg", "what": w, "value": t(v)}]
            elif k == "cfg_assign":
                cls = "srr" if st["cfg"] == "srr" else rng.choice(["laser", "spot"])
                cfg = self.gen_config(rng, cls, st["nlayers"])
                st["cfg"] = cfg["class"]
                st["scantime"] = tokf(cfg["scantime"]) if cfg["class"] == "srr" else None
                return [{"op": "cfg_assign", "config": cfg}]
            elif k == "rename":
                m = rng.randint(1, min(3, len(names)))
                old = rng.sample(names, m)
                if m >= 2 and rng.random() < 0.4:   # a swap / rotation of names
                    new = old[1:] + old[:1]
                else:
                    used = set(names)
                    new = []
                    for _ in old:
                        n = self.gen_name(rng, used).replace("\x00", "0")
                        new.append(n)
                if len(set(new) | (set(names) - set(old))) != len(names):
                    continue
                ren = dict(zip(old, new))
                st["names"][:] = [ren.get(n, n) for n in names]
                st["calkeys"][:] = [ren.get(n, n) for n in ks]
                st["npoints"] = {ren.get(n, n): v for n, v in st["npoints"].items()}
                st["custom"] = {ren.get(n, n): v for n, v in st["custom"].items()}
                return [{"op": "rename", "names": [[a, b] for a, b in zip(old, new)]}]
            elif k == "add" and len(names) < 8:
                used = set(names) | set(ks)
                name = self.gen_name(rng, used).replace("\x00", "0")
                if name in names or name in ks:
                    continue
                dtype = rng.choice(DTYPES)
                if st["cfg"] == "srr" and dtype.startswith(">"):
                    dtype = "<" + dtype[1:]
                c = None if rng.random() < 0.3 else self.gen_cal(rng)
                st["names"].append(name)
                st["calkeys"].append(name)
                st["npoints"][name] = 0 if c is None else len(c["points"])
                st["custom"][name] = c is not None and not isinstance(c["weights"], str)
                return [{"op": "add", "name": name, "dtype": dtype, "cal": c,
                         "bits": [self.gen_bits(rng, dtype, st["size"]) for _ in range(st["nlayers"])]}]
            elif k == "remove" and len(names) > 1:
                gone = rng.sample(names, rng.randint(1, min(2, len(names) - 1)))
                for n in gone:
                    st["names"].remove(n)
                    st["calkeys"].remove(n)
                return [{"op": "remove", "names": gone, "as_str": rng.random() < 0.5}]
            if only:
                return []
        return []

    def gen_history(self, rng):
        """constructor -> (calls) -> save/load -> calls -> save/load [-> go on with the loaded object -> calls -> save/load]"""
        case = {"kind": "history", **self.gen_laser(rng, empty_cals=rng.random() < 0.1)}
        if rng.random() < 0.2:
            case["layout"] = rng.choice(LAYOUTS[3:])
        self.distinct_cals(rng, case)
        st = self.track(case)
        steps = []
        stems = ["laser", "a b", "x.y", "é中", "1", "other"]
        cur_path = {"stem": rng.choice(stems), "suffix": ".npz", "as": rng.choice(["path", "str"])}

        def ops(n):
            for _ in range(n):
                for o in self.gen_op(rng, st):
                    steps.append({"step": "op", **o})
                if rng.random() < 0.25:
                    steps.append({"step": "read", "what": rng.choice(["to_array", "offsets", "extent", "get", "weights"])})

        def save():
            nonlocal cur_path
            if rng.random() < 0.35:   # another file; sometimes a name that np.savez completes with '.npz'
                cur_path = {"stem": rng.choice(stems), "suffix": rng.choice([".npz", ".npz", "", ".dat", ".npz.npz", ".NPZ"]),
                            "as": rng.choice(["path", "str"])}
            steps.append({"step": "save", "path": dict(cur_path)})

        if rng.random() < 0.3:
            ops(rng.randint(1, 2))
        save()
        for _ in range(rng.choice([1, 1, 1, 2])):
            if rng.random() < 0.3:
                steps.append({"step": "adopt"})
                st["calkeys"][:] = list(st["names"])   # a loaded laser has its calibrations in element order
                st["info"] = [k.replace("\t", " ") for k in st["info"] if k != "File Path"]
                st["info"] = list(dict.fromkeys(st["info"] + ["Name", "File Path", "File Version"]))
            ops(rng.choice([0, 1, 1, 1, 2, 2, 3, 4]))
            save()
        case["steps"] = steps
        return case

    def gen_laser(self, rng, cls=None, old_layout=False, empty_cals=False):
        cls = cls or rng.choice(["laser", "laser", "spot", "srr", "srr"])
        shape = [rng.choice([1, 1, 2, 3, 5]), rng.choice([1, 2, 3, 4, 7])] if rng.random() < 0.97 else [rng.choice([9, 33, 64]), rng.choice([5, 17, 40])]
        nlayers = rng.choice([2, 2, 3, 4]) if cls == "srr" else 1
        nel = rng.choice([1, 1, 2, 2, 3, 4, 5, 6, 7, 8])
        used = set()
        size = shape[0] * shape[1]
        elements = []
        for _ in range(nel):
            name = self.gen_name(rng, used)
            if old_layout:  # member names of a zip archive cannot hold NUL
                name = name.replace("\x00", "0") or "n"
                while name in [e["name"] for e in elements]:
                    name += "_"
            dtype = rng.choice(DTYPES)
            if cls == "srr" and dtype.startswith(">") and rng.random() < 0.9:
                # np.savez stacks the layer list into one native-byte-order array: byte order of SRR fields is
                # not kept (values are): known finding C01-srr-byteorder, modelled (`dataToArray`), outside `Laser.ok`;
                # the few that are generated are compared with the model only
                dtype = "<" + dtype[1:]
            elements.append({"name": name, "dtype": dtype, "bits": [self.gen_bits(rng, dtype, size) for _ in range(nlayers)]})
        idx = list(range(nel))
        rng.shuffle(idx)
        if empty_cals:
            # no element of the laser has a calibration point (the packed table has zero-length point / weight columns),
            # yet the calibrations are not the default one; identity and fitted-looking lines mixed
            idx = idx[: rng.choice([nel, nel, nel, max(1, nel - 1), 1])]
            mode = rng.choice(["identity", "identity", "mixed", "mixed", "mixed", "other"])
            cals = [[i, self.gen_empty_cal(rng, mode == "identity" or (mode == "mixed" and (k == 0 or rng.random() < 0.5)))]
                    for k, i in enumerate(idx)]
        else:
            idx = idx[: rng.choice([nel, nel, max(0, nel - 1), 0])]
            cals = [[i, self.gen_cal(rng)] for i in idx]
        return {"cls": cls, "shapes": [shape] * nlayers, "elements": elements, "cals": cals,
                "config": self.gen_config(rng, cls, nlayers), "info": self.gen_info(rng)}

    def generate(self, rng, tier):
        if rng.random() < 0.25:
            # light SRR stream: a 1x1 two-layer laser whose warm-up is a whole number of acquisitions of a scan time
            # that is inexact in binary, so that (k*s)/s lands on either side of k in floating point
            t = core.tok
            s = rng.choice([0.1, 0.05, 0.2, 0.07, 0.15, 0.03, 0.3, 0.7, 1 / 3, 0.011, rng.randint(1, 999) / 1000])
            k = rng.randint(0, 400)
            cfg = {"class": "srr", "spotsize": t(35.0), "speed": t(140.0), "scantime": t(s), "warmup": t(k * s),
                   "offsets": [[0, 2], [1, 2]]}
            return {"kind": "roundtrip", "cls": "srr", "shapes": [[1, 1], [1, 1]],
                    "elements": [{"name": "A", "dtype": "<f8", "bits": [[t(1.5)], [t(2.5)]]}], "cals": [], "config": cfg,
                    "info": [], "stem": "laser", "chain": rng.choice([1, 2, 3])}
        r = rng.random()
        if 0.4 <= r < 0.65:
            return self.gen_history(rng)
        kind = "layouts" if r < 0.3 else "crossclass" if r < 0.4 else "roundtrip"
        case = {"kind": kind, **self.gen_laser(rng, old_layout=(kind == "layouts"), empty_cals=rng.random() < 0.15)}
        case["stem"] = rng.choice(["laser", "a b", "x.y", "é中", "1"])
        if kind != "crossclass" and rng.random() < 0.02:  # a laser without elements: save raises, the old layouts load
            case["elements"], case["cals"] = [], []
        if len(case["elements"]) >= 2 and rng.random() < 0.35:
            # the calibration dict lists the elements in another order than the data (entries popped and re-inserted, the
            # dict reassigned, the image replaced by one with reordered fields), every element with its own calibration
            self.distinct_cals(rng, case)
            case["pre"] = self.gen_order_ops(rng, self.track(case))
        if rng.random() < 0.2:
            case["layout"] = rng.choice(LAYOUTS[3:])
        if kind == "crossclass":
            # the header of the saved file names another class (or an unknown one) than the config member is of
            case["as_cls"] = rng.choice(CLASS_NAMES)
        elif kind == "roundtrip":
            case["chain"] = rng.choice([1, 1, 2, 2, 3, 4])
        else:
            case["v06"] = rng.choice(V06_OK if rng.random() < 0.7 else V_REJECT + V06_OFF)
            case["v07"] = rng.choice(V07_OK if rng.random() < 0.7 else V_REJECT + V07_OFF)
            case["legacy_class"] = rng.random() < 0.4
            case["resave"] = rng.random() < 0.5
        return case

    # ------------------------------------------------------------------ deterministic boundary cases
    def targeted(self, tier):
        t = core.tok
        el = lambda name, dtype="<f8", bits=None, n=1: {"name": name, "dtype": dtype, "bits": bits or [[t(1.5)]] * n}
        raster = {"class": "raster", "spotsize": t(35.0), "speed": t(140.0), "scantime": t(0.25)}
        cal0 = {"intercept": t(0.0), "gradient": t(1.0), "unit": "", "rsq": None, "error": None, "points": [], "weights": "Equal"}
        base = {"kind": "roundtrip", "cls": "laser", "shapes": [[1, 1]], "elements": [el("A")], "cals": [], "config": raster,
                "info": [], "stem": "laser", "chain": 1}
        yield base
        yield {**base, "chain": 4}
        # non-vacuity example of the theorems: 2 elements, 3-point 1/x calibration with a half-NaN row, custom weights of other length
        calx = {**cal0, "unit": "ppm", "rsq": t(0.99), "points": [[t(1.0), t(2.0)], [NAN_Q, t(4.0)], [t(3.0), t(6.0)]], "weights": "1/x"}
        calc = {**cal0, "points": [[t(1.0), t(1.0)], [t(2.0), NAN_Q]], "weights": {"name": "custom", "values": [t(0.5), NAN_Q]}}
        yield {**base, "shapes": [[2, 3]], "elements": [el("A", bits=[[t(float(i)) for i in range(6)]]), el("B\tb", "<f4", [[1, 2, 3, 4, 5, 6]])],
               "cals": [[1, calc], [0, calx]], "info": [["a\tb", "1\t2"], ["a b", "3"], ["Name", "n"], ["File Path", "/x"]], "chain": 3}
        # every built-in weighting, zeros and NaNs in the weighted column
        for w in BUILTIN:
            yield {**base, "cals": [[0, {**cal0, "points": [[t(0.0), t(2.0)], [NAN_Q, t(0.0)], [t(3.0), NAN_Q], [t(-0.0), t(1.0)]], "weights": w}]]}
        # unit and weighting name of exactly 32 code points; combining marks count as code points
        yield {**base, "cals": [[0, {**cal0, "unit": "é" * 16, "points": [[t(1.0), t(1.0)]], "weights": {"name": "w" * 32, "values": [t(2.0)]}}]]}
        # info corner cases
        for info in ([["", ""]], [["k", ""]], [["", "v"]], [["File\tPath", "kept"]], [["File\tVersion", "old"], ["Name", ""]],
                     [["a", "x\x00y"], ["\x00", "z"]], [["\t", "\t"], [" ", "s"]], [["a\n", "b\r\n"]]):
            yield {**base, "info": info, "chain": 2}
        # spot and SRR
        yield {**base, "cls": "spot", "config": {"class": "spot", "spotsize": t(10.0), "spotsize_y": t(0.1)}}
        srr = {"class": "srr", "spotsize": t(35.0), "speed": t(140.0), "scantime": t(0.1), "warmup": t(12.5), "offsets": [[0, 2], [1, 3]]}
        yield {**base, "cls": "srr", "shapes": [[1, 1], [1, 1]], "elements": [el("A", n=2)], "config": srr, "chain": 2}
        yield {**base, "cls": "srr", "shapes": [[2, 2]] * 3, "elements": [el("A", bits=[[1, 2, 3, 4], [5, 6, 7, 8], [9, 10, 11, 12]]), el("B", "<i2", [[1, 2, 3, 4]] * 3)],
               "config": {**srr, "scantime": t(0.3), "warmup": t(0.9), "offsets": [[0, 1], [1, 2], [2, 3]]}}
        # layouts
        lay = {**base, "kind": "layouts", "v06": "0.6.0", "v07": "0.7.0", "legacy_class": False, "cals": [[0, calx]], "info": [["Name", "n"], ["k", "v\tw"]]}
        del lay["chain"]
        yield lay
        yield {**lay, "resave": True}
        yield {**lay, "v06": "0.6.12", "v07": "0.7.10", "legacy_class": True}
        yield {**lay, "v06": "0.6.12", "v07": "0.7.10", "legacy_class": True, "resave": True, "info": [["File Version", "x"], ["a\tb", "c"]]}
        yield {**lay, "v06": "0.5.9"}    # rejected: older than 0.6.0
        yield {**lay, "v06": "0.5.12", "info": []}
        yield {**lay, "cls": "srr", "shapes": [[1, 2], [1, 2]], "elements": [el("A", bits=[[1, 2], [3, 4]])], "config": srr, "legacy_class": True}
        yield {**lay, "cls": "spot", "config": {"class": "spot", "spotsize": t(10.0), "spotsize_y": t(20.0)}}
        # no calibration point anywhere in the laser, calibrations nevertheless not the default one (unit entered before
        # any standard was measured): identity line, signed-zero intercept, fitted line, built-in / custom weighting
        e0 = {**cal0, "unit": "ppm"}
        e1 = {**cal0, "weights": "1/x", "rsq": t(0.5)}
        e2 = {**cal0, "weights": {"name": "custom", "values": []}, "error": t(0.25)}
        e3 = {**cal0, "intercept": t(-0.0)}
        e4 = {**cal0, "intercept": t(2.0), "gradient": t(0.5), "unit": "µg/g", "weights": "1/(y^2)"}
        three = [el("Ca44"), el("P31", "<f4", [[7]]), el("Zn66", "<i4", [[9]])]
        for extra in ({"chain": 1}, {"chain": 2}, {"kind": "layouts"}):
            b = {**base, **extra}
            if b["kind"] == "layouts":
                b = {**lay, "info": [], "legacy_class": False}
            yield {**b, "cals": [[0, e0]]}
            yield {**b, "cals": [[0, e3]]}
            yield {**b, "elements": three, "cals": [[0, e0], [1, e1], [2, e2]]}
            yield {**b, "elements": three, "cals": [[2, e4], [0, e2]]}
            yield {**b, "cls": "spot", "config": {"class": "spot", "spotsize": t(10.0), "spotsize_y": t(20.0)}, "elements": three,
                   "cals": [[1, e1]]}
            yield {**b, "cls": "srr", "shapes": [[1, 1], [1, 1]], "config": srr,
                   "elements": [el("Ca44", n=2), el("P31", n=2)], "cals": [[0, e2], [1, e0]]}
        # separator characters in element names, all three layouts and the current one: a name that continues another
        # element's name past the separator, two names that share the text before it, separator first / last / alone
        for names in (["Fe56_corr"], ["Zn66_norm_Ca44", "Zn66"], ["Fe56_corr", "Fe56_norm", "Fe56"], ["_", "__", "_a", "a_"],
                      ["Ca44-bg", "Ca44", "a.b", "a b", "a"], ["x:y", "x/y", "x|y", "x,y", "x;y", "x+y", "x=y", "x"]):
            els = [el(n, bits=[[t(float(i))]]) for i, n in enumerate(names)]
            cs = [[i, {**calx, "intercept": t(float(i)), "unit": "u%d" % i}] for i in range(len(names))][::-1]
            yield {**base, "elements": els, "cals": cs, "chain": 2}
            yield {**lay, "elements": els, "cals": cs}
            yield {**lay, "elements": els, "cals": cs[:1], "v06": "0.6.7", "v07": "0.7.3"}
        # declared versions: every accepted / rejected / off-generation string once
        for v in V06_OK + V_REJECT + V06_OFF:
            yield {**lay, "v06": v}
        for v in V07_OK + V_REJECT + V07_OFF:
            yield {**lay, "v07": v, "legacy_class": True}
        # no elements: save raises ValueError (max() of an empty sequence), files of the old layouts load
        yield {**base, "elements": []}
        yield {**base, "elements": [], "chain": 2, "info": [["k", "v"]]}
        yield {**base, "cls": "srr", "shapes": [[1, 1], [1, 1]], "elements": [], "config": srr}
        yield {**lay, "elements": [], "cals": []}
        # class name of the header and config member disagree (malformed file; compared with the model only)
        spot = {"class": "spot", "spotsize": t(10.0), "spotsize_y": t(20.0)}
        two = {**base, "kind": "crossclass", "shapes": [[2, 3]], "elements": [el("A", bits=[[t(float(i)) for i in range(6)]])]}
        srr2 = {**base, "kind": "crossclass", "cls": "srr", "shapes": [[1, 2], [1, 2]], "elements": [el("A", bits=[[1, 2], [3, 4]])],
                "config": {**srr, "warmup": t(1.3)}}
        for c in CLASS_NAMES:
            yield {**two, "as_cls": c}
            yield {**two, "cls": "spot", "config": spot, "as_cls": c}
            yield {**srr2, "as_cls": c}
        yield {**two, "shapes": [[1, 3]], "elements": [el("A", bits=[[1, 2, 3]])], "as_cls": "SRR"}   # one row: SRRLaser asserts
        yield {**two, "config": {**raster, "scantime": t(0.1)}, "as_cls": "SRR"}                       # 12.5 / 0.1 in floats
        yield {**two, "config": {**raster, "scantime": t(0.0)}, "as_cls": "SRR", "excluded": "unmodelled"}
        # ---- the calibration dict in another order than the data fields: first entry moved to the end, the dict
        # reassigned in reverse, an entry replaced by a re-fit, the image replaced by one with rotated fields — in the
        # current layout (two generations), in the 0.6 / 0.7 layouts and with another class name in the header
        ca = {**cal0, "intercept": t(0.5), "gradient": t(2.0), "unit": "ppm", "points": [[t(0.0), t(1.0)], [t(1.0), t(3.0)], [t(2.0), t(5.5)]], "weights": "1/x"}
        cb = {**cal0, "intercept": t(-1.25), "gradient": t(4.0), "unit": "ppb", "points": [[t(1.0), t(2.0)], [NAN_Q, t(4.0)]], "weights": "Equal"}
        cc = {**cal0, "intercept": t(3.0), "gradient": t(0.125), "unit": "ug/g", "weights": "x"}
        cd = {**cal0, "intercept": t(7.0), "unit": "re-fit", "points": [[t(1.0), t(1.0)]], "weights": {"name": "w", "values": [t(2.0)]}}
        abc = ["Fe56", "Zn66", "P31"]
        orders = {
            "move_end": [{"op": "cal_move_end", "key": "Fe56"}],
            "reversed": [{"op": "cal_reorder", "order": abc[::-1]}],
            "pop_set": [{"op": "cal_pop", "key": "Zn66"}, {"op": "cal_set", "key": "Zn66", "cal": cd}],
            "data_rotated": [{"op": "data_reorder", "order": abc[1:] + abc[:1]}],
            "swap_two_of_two": None,
        }
        spotc = {"class": "spot", "spotsize": t(10.0), "spotsize_y": t(20.0)}
        for how, pre in orders.items():
            for cls, cfg, shapes, n in (("laser", raster, [[1, 2]], 1), ("spot", spotc, [[1, 2]], 1), ("srr", srr, [[1, 2], [1, 2]], 2)):
                if pre is None:
                    els3 = [el(nm, bits=[[i + 1, i + 5]] * n) for i, nm in enumerate(abc[:2])]
                    cs, ops_ = [[0, ca], [1, cb]], [{"op": "cal_move_end", "key": "Fe56"}]
                else:
                    els3 = [el(nm, bits=[[i + 1, i + 5]] * n) for i, nm in enumerate(abc)]
                    cs, ops_ = [[0, ca], [1, cb], [2, cc]], pre
                b3 = {**base, "cls": cls, "config": cfg, "shapes": shapes, "elements": els3, "cals": cs, "pre": ops_}
                yield {**b3, "chain": 2}
                l3 = {**b3, "kind": "layouts", "v06": "0.6.0", "v07": "0.7.0", "legacy_class": cls == "srr", "info": [["Name", "n"]]}
                del l3["chain"]
                yield l3
            yield {**base, "kind": "crossclass", "shapes": [[1, 2]], "elements": [el(nm, bits=[[i + 1, i + 5]]) for i, nm in enumerate(abc)],
                   "cals": [[0, ca], [1, cb], [2, cc]], "pre": pre or orders["move_end"], "as_cls": "Laser"}
        # ---- histories: save, one call of every public mutator, save again (and the same on the object the first load
        # returned); every load is judged against the state at its save
        pth = {"stem": "laser", "suffix": ".npz", "as": "path"}
        sv = {"step": "save", "path": pth}
        common = [
            {"op": "cal_set", "key": "Fe56", "cal": cd}, {"op": "cal_move_end", "key": "Fe56"},
            {"op": "cal_reorder", "order": ["Zn66", "Fe56"]},
            {"op": "cal_edit", "key": "Fe56", "edit": {"what": "intercept", "value": t(9.0)}},
            {"op": "cal_edit", "key": "Fe56", "edit": {"what": "gradient", "value": t(-0.0)}},
            {"op": "cal_edit", "key": "Zn66", "edit": {"what": "unit", "value": "µg/g"}},
            {"op": "cal_edit", "key": "Fe56", "edit": {"what": "rsq", "value": t(0.5)}},
            {"op": "cal_edit", "key": "Fe56", "edit": {"what": "error", "value": None}},
            {"op": "cal_edit", "key": "Zn66", "edit": {"what": "points", "value": [[t(1.0), NAN_Q], [t(2.0), t(3.0)], [t(4.0), t(5.0)]]}},
            {"op": "cal_edit", "key": "Fe56", "edit": {"what": "weighting", "value": "1/(y^2)"}},
            {"op": "cal_edit", "key": "Fe56", "edit": {"what": "custom", "name": "mine", "value": [t(1.0), NAN_Q, t(3.0)]}},
            {"op": "info_set", "key": "Operator", "value": "x\ty"}, {"op": "info_set", "key": "Name", "value": "renamed"},
            {"op": "info_pop", "key": "k"}, {"op": "info_assign", "items": [["a\tb", "1"], ["a b", "2"]]},
            {"op": "cfg", "what": "spotsize", "value": t(12.5)},
            {"op": "rename", "names": [["Fe56", "Fe57"]]}, {"op": "rename", "names": [["Fe56", "Zn66"], ["Zn66", "Fe56"]]},
            {"op": "remove", "names": ["Fe56"], "as_str": True}, {"op": "remove", "names": ["Zn66"], "as_str": False},
            {"op": "data_reorder", "order": ["Zn66", "Fe56"]},
        ]
        per_cls = {
            "laser": [{"op": "cfg", "what": "speed", "value": t(70.0)}, {"op": "cfg", "what": "scantime", "value": t(0.1)},
                      {"op": "cfg_assign", "config": spotc}, {"op": "cfg_assign", "config": {**raster, "speed": t(1.0)}}],
            "spot": [{"op": "cfg", "what": "spotsize_y", "value": t(0.3)}, {"op": "cfg_assign", "config": raster}],
            "srr": [{"op": "cfg", "what": "speed", "value": t(70.0)}, {"op": "cfg", "what": "scantime", "value": t(0.3)},
                    {"op": "cfg", "what": "warmup", "value": t(4.3)}, {"op": "cfg", "what": "warmup", "value": t(0.0)},
                    {"op": "cfg", "what": "offsets", "value": [[0, 3], [2, 3]], "as_array": False},
                    {"op": "cfg", "what": "offsets", "value": [[0, 2], [1, 3], [3, 4]], "as_array": True},
                    {"op": "cfg", "what": "equal_offsets", "value": 3}, {"op": "cfg", "what": "equal_offsets", "value": 1},
                    {"op": "cfg_assign", "config": {**srr, "scantime": t(0.5), "warmup": t(2.0), "offsets": [[1, 4], [3, 4]]}}],
        }
        for cls, cfg, shapes, n in (("laser", raster, [[1, 2]], 1), ("spot", spotc, [[1, 2]], 1), ("srr", srr, [[1, 2], [1, 2]], 2)):
            h = {"kind": "history", "cls": cls, "shapes": shapes, "config": cfg, "info": [["k", "v"], ["Name", "n"]],
                 "elements": [el("Fe56", bits=[[1, 5]] * n), el("Zn66", "<i4", [[2, 6]] * n)], "cals": [[0, ca], [1, cb]]}
            adds = [{"op": "add", "name": "P31", "dtype": "<f4", "bits": [[3, 7]] * n, "cal": cc},
                    {"op": "add", "name": "new", "dtype": "<u2", "bits": [[3, 7]] * n, "cal": None}]
            for op in common + per_cls[cls] + adds:
                o = {"step": "op", **op}
                yield {**h, "steps": [sv, o, sv]}
                if op["op"] == "info_pop":   # a loaded laser has lost nothing but gained keys
                    o = {"step": "op", "op": "info_pop", "key": "File Version"}
                yield {**h, "steps": [sv, {"step": "adopt"}, o, sv]}
            # three files of one object, reads in between, names that np.savez completes with '.npz'
            o1, o2 = per_cls[cls][0], common[5]
            yield {**h, "steps": [sv, {"step": "read", "what": "to_array"}, {"step": "op", **o1},
                                  {"step": "save", "path": {"stem": "other", "suffix": "", "as": "str"}}, {"step": "read", "what": "get"},
                                  {"step": "op", **o2}, {"step": "save", "path": {"stem": "x.y", "suffix": ".dat", "as": "path"}}]}
        # known findings (targeted only)
        yield {**base, "cls": "srr", "shapes": [[1, 2], [2, 1]], "elements": [{"name": "A", "dtype": "<f8", "bits": [[1, 2], [3, 4]]}],
               "config": srr, "expect_known": "C01-srr-unequal-layers-unsaveable"}
        yield {**base, "info": [["k", "v\x00"]], "expect_known": "C01-trailing-nul"}
        yield {**base, "elements": [el("A\x00")], "expect_known": "C01-trailing-nul"}
        yield {**base, "cals": [[0, {**cal0, "unit": "u\x00"}]], "expect_known": "C01-trailing-nul"}
        yield {**base, "cals": [[0, {**cal0, "weights": {"name": "w\x00", "values": []}}]], "expect_known": "C01-trailing-nul"}
        # SRR layers of different field dtypes: np.savez stacks them into one array of the promoted dtype, the '<f4' layer
        # loads as '<f8' (same root as C01-srr-byteorder).  Found in extension round E; the case is run as soon as
        # known_findings.json has an entry with this id (text in notes/EC01.md), until then it is only described there
        if "C01-srr-layer-dtypes" in self.known_ids():
            yield {**base, "cls": "srr", "shapes": [[1, 1], [1, 1]], "config": srr,
                   "elements": [{"name": "A", "dtype": "<f8", "dtypes": ["<f8", "<f4"], "bits": [[t(1.5)], [1069547520]]}],
                   "expect_known": "C01-srr-layer-dtypes"}
        # outside the quantifier (6a): evaluated, counted as undetermined
        yield {**base, "cals": [[0, {**cal0, "points": [[NAN_Q, NAN_Q], [t(1.0), t(2.0)]], "weights": "x"}]], "excluded": "fully-NaN row"}
        yield {**base, "cals": [[0, {**cal0, "points": [[NAN_Q, NAN_Q], [t(1.0), t(2.0)]], "weights": "Equal"}]], "excluded": "fully-NaN row"}
        yield {**base, "cals": [[0, {**cal0, "rsq": NAN_Q}]], "excluded": "rsq NaN"}
        yield {**base, "cals": [[0, {**cal0, "unit": "u" * 33}]], "excluded": "unit > 32"}
        yield {**base, "cls": "srr", "shapes": [[1, 1], [1, 1]], "elements": [el("A", ">f8", n=2)], "config": srr,
               "expect_known": True}
        # a tab in the file stem becomes the Name and turns into a space one generation later
        yield {**base, "stem": "a\tb", "chain": 2, "excluded": "tab in file stem"}

    # ------------------------------------------------------------------ evaluation
    def features(self, case, obj):
        f = {"cls:" + case["cls"], "kind:" + case["kind"], f"elements:{len(case['elements'])}"}
        sh = case["shapes"][0]
        if sh == [1, 1]:
            f.add("shape:1x1")
        if 1 in sh:
            f.add("shape:has-1")
        for e in case["elements"]:
            n = e["name"]
            f.add("dtype:" + e["dtype"])
            if "\t" in n:
                f.add("name:tab")
            if len(n) > 32:
                f.add("name:>32")
            if any(ord(c) > 0xFFFF for c in n):
                f.add("name:non-BMP")
            if any(c in n for c in "́̈"):
                f.add("name:combining")
            if "\x00" in n:
                f.add("name:inner-NUL")
            if "_" in n:
                f.add("name:underscore")
                if n.count("_") > 1:
                    f.add("name:underscore-twice")
                if n.startswith("_") or n.endswith("_"):
                    f.add("name:underscore-at-end")
            if any(c in n for c in SEP_SINGLE if c != "_"):
                f.add("name:separator")
        names = [e["name"] for e in case["elements"]]
        for c in SEP_SINGLE:
            heads = [n.split(c)[0] for n in names if c in n]
            tag = "underscore" if c == "_" else "separator"
            if len(set(heads)) < len(heads):
                f.add(f"name:{tag}-shared-head")       # 'Fe56_corr' and 'Fe56_norm'
            if any(h in names for h in heads):
                f.add(f"name:{tag}-head-is-element")   # 'A' and 'A_b'
        cals = [c for _, c in case["cals"]]
        if cals and all(len(c["points"]) == 0 for c in cals):
            nd = [c for c in cals if c["unit"] != "" or c["weights"] != "Equal" or c["rsq"] is not None or c["error"] is not None]
            ident = [tokf(c["intercept"]) == 0.0 and tokf(c["gradient"]) == 1.0 for c in nd]
            if nd:
                f.add("cal:all-empty-nondefault")
                if any(ident):
                    f.add("cal:all-empty-nondefault:identity")
                if not all(ident):
                    f.add("cal:all-empty-nondefault:fitted")
                if any(ident) and not all(ident):
                    f.add("cal:all-empty-nondefault:mixed")
                if any(not isinstance(c["weights"], str) for c in nd):
                    f.add("cal:all-empty-nondefault:custom-weighting")
                if any(isinstance(c["weights"], str) and c["weights"] != "Equal" for c in nd):
                    f.add("cal:all-empty-nondefault:builtin-weighting")
                if any(c["rsq"] is not None or c["error"] is not None for c in nd):
                    f.add("cal:all-empty-nondefault:rsq-or-error")
        lens = set()
        if len(case["cals"]) < len(case["elements"]):
            f.add("cal:defaulted-element")
        for _, c in case["cals"]:
            lens.add(len(c["points"]))
            f.add("cal:points=" + (str(len(c["points"])) if len(c["points"]) < 3 else "3+"))
            if isinstance(c["weights"], str):
                f.add("weighting:" + c["weights"])
            else:
                f.add("weighting:custom")
                if any(math.isnan(tokf(v)) for v in c["weights"]["values"]):
                    f.add("custom:NaN-weight")
            if any(math.isnan(tokf(a)) != math.isnan(tokf(b)) for a, b in c["points"]):
                f.add("cal:half-NaN-row")
            if len(c["unit"]) == 32:
                f.add("unit:32")
            if c["rsq"] is None:
                f.add("cal:rsq-None")
        if len(lens) > 1:
            f.add("cal:differing-lengths")
        if sh[0] * sh[1] > 35:
            f.add("shape:large")
        if any(len(c["points"]) >= 20 for _, c in case["cals"]):
            f.add("cal:points>=20")
        info = case["info"]
        if len(info) >= 20:
            f.add("info:many-entries")
        if any(len(k) >= 100 or len(v) >= 500 for k, v in info):
            f.add("info:long-string")
        if not info:
            f.add("info:empty")
        ks = [k for k, _ in info]
        if "" in ks:
            f.add("info:empty-key")
        if any(v == "" for _, v in info):
            f.add("info:empty-value")
        if len({k.replace("\t", " ") for k in ks}) < len(ks):
            f.add("info:collision-after-tab")
        if any("\t" in k or "\t" in v for k, v in info):
            f.add("info:tab")
        for k in ("Name", "File Path", "File Version"):
            if k in ks:
                f.add("info:has-" + k.replace(" ", ""))
        cfg = case["config"]
        if cfg["class"] == "srr":
            if tokf(cfg["warmup"]) > 0:
                f.add("srr:warmup")
            if int(obj.config._warmup) > 0 and float(obj.config.warmup) != tokf(cfg["warmup"]):
                f.add("srr:warmup-inexact")
            if len({d for _, d in cfg["offsets"]}) > 1:
                f.add("srr:mixed-denominators")
            f.add(f"srr:layers={len(case['shapes'])}")
        if not case["elements"]:
            f.add("elements:none")
        if case.get("layout", "C") != "C":
            f.add("layout:" + case["layout"])
        if case.get("pre"):
            f.add("calorder")
            f.add("calorder:kind:" + case["kind"])
            f.add("calorder:cls:" + case["cls"])
            for op in case["pre"]:
                f.add("calorder:" + op["op"])
        if case["kind"] == "history":
            ops_seen = False
            saves = 0
            prev = None
            for st in case["steps"]:
                if st["step"] == "op":
                    o = st["op"]
                    f.add("hist:op:" + o + (":" + st["what"] if o == "cfg" else ":" + st["edit"]["what"] if o == "cal_edit" else ""))
                    if saves == 0:
                        f.add("hist:op-before-first-save")
                    else:
                        f.add("hist:op-after-save")
                    ops_seen = True
                elif st["step"] == "read":
                    f.add("hist:read:" + st["what"])
                elif st["step"] == "adopt":
                    f.add("hist:adopt")
                else:
                    saves += 1
                    pth = st["path"]
                    f.add("hist:path:suffix=" + repr(pth["suffix"]))
                    f.add("hist:path:as-" + pth["as"])
                    if prev is not None:
                        f.add("hist:path:same-file" if (pth["stem"], pth["suffix"]) == prev else "hist:path:other-file")
                    prev = (pth["stem"], pth["suffix"])
            f.add(f"hist:saves={saves}")
            if not ops_seen:
                f.add("hist:no-op")
        elif case["kind"] == "roundtrip":
            f.add(f"chain:{case['chain']}")
        elif case["kind"] == "crossclass":
            f.add(f"crossclass:{cfg['class']}->{case['as_cls']!r}")
        else:
            for k, ok, off in (("v06", V06_OK, V06_OFF), ("v07", V07_OK, V07_OFF)):
                v = case[k]
                f.add(f"{k}-class:" + ("generation" if v in ok else "rejected" if v in V_REJECT else "other-generation" if v in off else "other"))
                if v.count(".") != 2:
                    f.add(f"{k}:components!=3")
                if v in ok and any(not c.isdigit() for c in v.split(".")):
                    f.add(f"{k}:non-numeric-tail")
            f.add("v06:" + case["v06"])
            f.add("v07:" + case["v07"])
            if case.get("resave"):
                f.add("old-layout-resaved")
            if case["legacy_class"]:
                f.add("legacy-class-name")
        return f

    def evaluate(self, case, ctx):
        from pewlib.io import npz

        tmp = ctx.tmpdir()
        if case["kind"] == "history":
            return self.evaluate_history(case, ctx, tmp)
        path = tmp / (case["stem"] + ".npz")
        with warnings.catch_warnings():
            warnings.simplefilter("ignore")
            obj = build_laser(case)
        desc = desc_laser(obj, True)      # the object as constructed; the operations of `pre` are applied by the model
        pinfo = {"stem": cps(path.stem), "resolved": cps(str(path.resolve()))}
        ver = cps(dist_version("pewlib"))
        feats = self.features(case, obj)
        pre = case.get("pre", [])
        with warnings.catch_warnings():
            warnings.simplefilter("ignore")
            try:
                for op in pre:
                    apply_op_real(obj, op)
            except core.InternalError:
                raise
            except Exception as e:  # noqa: BLE001  a call that is not valid for this object (a shrunk case): nothing to judge
                return outcome(None, None, None, spec_ok=True, model_ok=True, hyp=False, undetermined=True,
                               features={"excluded:operation-raises"}, note=type(e).__name__)
        pre_enc = [enc_op(op) for op in pre]

        if case["kind"] == "roundtrip":
            def run():
                cur = obj
                for _ in range(case["chain"]):
                    npz.save(path, cur)
                    cur = npz.load(path)
                return cur

            rep = ctx.driver.call("c01.roundtrip", laser=desc, path=pinfo, version=ver, time=cps("0.0"), chain=case["chain"],
                                  pre=pre_enc)
            if rep.get("pre_failed"):
                return outcome(None, None, None, spec_ok=True, model_ok=True, hyp=False, undetermined=True,
                               features={"excluded:operation-not-modelled"})
            impl = observe(run, obj)
            model, spec = canon_reply(rep["model"]), canon_reply(rep["spec"])
        elif case["kind"] == "crossclass":
            def run_cross():
                npz.save(path, obj)
                gen_npz.rewrite_header_class(path, case["as_cls"])
                return npz.load(path)

            rep = ctx.driver.call("c01.crossclass", laser=desc, path=pinfo, version=ver, time=cps("0.0"), cls=cps(case["as_cls"]),
                                  pre=pre_enc)
            if rep.get("pre_failed"):
                return outcome(None, None, None, spec_ok=True, model_ok=True, hyp=False, undetermined=True,
                               features={"excluded:operation-not-modelled"})
            model = canon_reply(rep["model"])
            if model.get("raises") == "Unmodelled":  # the loaded object has no description in the model's terms
                return outcome(None, model, None, spec_ok=True, model_ok=True, hyp=False, undetermined=True,
                               features={"excluded:unmodelled"})
            impl = strip_msg(observe(run_cross, obj))
            for side in (impl, model):   # the container type legitimately changes with the class
                if "ok" in side:
                    side["ok"].pop("same_container", None)
            return outcome(impl, model, None, spec_ok=True, hyp=False, features=feats)
        else:
            def run_old(layout, version):
                def f():
                    gen_npz.write_old(path, obj, version, layout, legacy_class=case["legacy_class"])
                    return npz.load(path)
                return f

            def run_new():
                npz.save(path, obj)
                return npz.load(path)

            rep = ctx.driver.call("c01.layouts", laser=desc, path=pinfo, version=ver, time=cps("0.0"),
                                  v06=cps(case["v06"]), v07=cps(case["v07"]), legacy_class=bool(case["legacy_class"]), pre=pre_enc)
            if rep.get("pre_failed"):
                return outcome(None, None, None, spec_ok=True, model_ok=True, hyp=False, undetermined=True,
                               features={"excluded:operation-not-modelled"})
            def run_old_resave(layout, version):
                def f():   # an old file brought up to date: load it, save the loaded object, load again
                    gen_npz.write_old(path, obj, version, layout, legacy_class=case["legacy_class"])
                    old = npz.load(path)
                    npz.save(path, old)
                    return npz.load(path)
                return f

            impl = {"v06": observe(run_old("0.6", case["v06"]), obj), "v07": observe(run_old("0.7", case["v07"]), obj),
                    "v08": observe(run_new, obj)}
            keys = ["v06", "v07", "v08"]
            if case.get("resave"):
                impl["v06r"] = observe(run_old_resave("0.6", case["v06"]), obj)
                impl["v07r"] = observe(run_old_resave("0.7", case["v07"]), obj)
                keys += ["v06r", "v07r"]
            model = {k: canon_reply(rep["model"][k]) for k in keys}
            spec = {k: canon_reply(rep["spec"][k]) for k in keys if k in ("v06", "v07", "v08") or rep["hyp_resave"]}
        note = ""
        if isinstance(impl, dict) and "raises" in impl:
            note = impl.get("msg", "")
        impl_c = {k: strip_msg(v) for k, v in impl.items()} if case["kind"] == "layouts" else strip_msg(impl)
        hyp = bool(rep["hyp"])   # false for an SRR laser with a non-native field: the model stacks the layers as NumPy does
        excluded = (not hyp) and not case.get("expect_known")
        if excluded:
            # outside the theorems' hypotheses: no specification; the implementation is still compared with the model
            feats = set(feats) | {"excluded:" + str(case.get("excluded", "hypothesis"))}
            return outcome(impl_c, model, None, spec_ok=True, hyp=False, features=feats, note=note)
        if case["kind"] == "layouts":   # the re-saved generations are judged only under their own hypotheses
            return outcome(impl_c, model, spec, hyp=hyp, features=feats, note=note,
                           spec_ok=all(core.canon(impl_c[k]) == core.canon(v) for k, v in spec.items()))
        return outcome(impl_c, model, spec, hyp=hyp, features=feats, note=note)

    @staticmethod
    def swapped_fields(case):
        """does an element (of the constructor call or added later) have a non-native byte order?"""
        dts = [e["dtype"] for e in case["elements"]]
        for st in list(case.get("pre", [])) + [x for x in case.get("steps", []) if x.get("step") == "op"]:
            if st.get("op") == "add":
                dts.append(st["dtype"])
        return any(d.startswith(">") for d in dts)

    @staticmethod
    def paths_of(tmp, pth):
        """the argument handed to `npz.save` and the file that call writes (`np.savez` completes a name that does not
        end in '.npz')"""
        from pathlib import Path

        name = pth["stem"] + pth["suffix"]
        arg = tmp / name
        written = arg if name.endswith(".npz") else Path(str(arg) + ".npz")
        return (str(arg) if pth["as"] == "str" else arg), (str(written) if pth["as"] == "str" else written), written

    def evaluate_history(self, case, ctx, tmp):
        from pewlib.io import npz

        with warnings.catch_warnings():
            warnings.simplefilter("ignore")
            obj = build_laser(case)
        els = case["elements"]
        layers = list(obj.data) if case["cls"] == "srr" else [obj.data]
        feats = self.features(case, obj)
        skip = lambda why: outcome(None, None, None, spec_ok=True, model_ok=True, hyp=False, undetermined=True,  # noqa: E731
                                   features={"excluded:" + why})
        floats = [case["config"][k] for k in ("scantime", "warmup") if case["config"]["class"] == "srr"]
        for st in case["steps"]:
            if st.get("op") == "cfg" and st["what"] == "warmup":
                floats.append(st["value"])
            if st.get("op") == "cfg_assign" and st["config"]["class"] == "srr":
                floats += [st["config"]["scantime"], st["config"]["warmup"]]
        if not all(math.isfinite(tokf(x)) for x in floats):   # no exact rational to hand to the model
            return skip("non-finite-srr-parameter")
        steps_enc = []
        for st in case["steps"]:
            if st["step"] == "op":
                steps_enc.append({"step": "op", **enc_op(st)})
            elif st["step"] == "save":
                _, _, written = self.paths_of(tmp, st["path"])
                steps_enc.append({"step": "save", "path": {"stem": cps(written.stem), "resolved": cps(str(written.resolve()))}})
            elif st["step"] == "adopt":
                steps_enc.append({"step": "adopt"})
        # the state of the object is tracked by the model from the constructor arguments and the calls; nothing is read
        # back from the pewlib object
        rep = ctx.driver.call(
            "c01.history", kind="srr" if case["cls"] == "srr" else "laser", fields=desc_fields(layers[0]),
            layers=[desc_layer(a) for a in layers], cal=[[cps(els[i]["name"]), enc_cal(c)] for i, c in case["cals"]],
            config=enc_cfg_args(case["config"]), info=[[cps(k), cps(v)] for k, v in case["info"]],
            version=cps(dist_version("pewlib")), time=cps("0.0"), steps=steps_enc)
        if rep["ctor"] != "ok" or rep["op_failed"]:
            return skip("operation-not-modelled")
        if not rep["determined"]:
            return skip("warmup-at-rounding-tie")

        impl = []
        cur, last, op_error = obj, None, None
        with warnings.catch_warnings():
            warnings.simplefilter("ignore")
            for st in case["steps"]:
                if st["step"] == "op":
                    try:
                        apply_op_real(cur, st)
                    except core.InternalError:
                        raise
                    except Exception as e:  # noqa: BLE001
                        op_error = type(e).__name__
                        break
                elif st["step"] == "read":
                    read_real(cur, st["what"])
                elif st["step"] == "adopt":
                    if last is None:
                        op_error = "adopt-before-save"
                        break
                    cur = last
                else:
                    arg, load_arg, _ = self.paths_of(tmp, st["path"])
                    try:
                        npz.save(arg, cur)
                        last = npz.load(load_arg)
                    except Exception as e:  # noqa: BLE001
                        impl.append({"raises": type(e).__name__})
                        break
                    d = desc_laser(last, False)
                    d["same_container"] = type(last.data) is type(cur.data)
                    impl.append({"ok": d})
        if op_error is not None:   # a call that is not valid for this object (a shrunk case): nothing to judge
            return skip("operation-raises")
        model = [canon_reply(r) for r in rep["model"]]
        oks = [bool(b) for b in rep["oks"]]
        hyp = bool(oks) and all(oks) and len(oks) == len(rep["spec"])
        spec = [canon_reply(r) if (i < len(oks) and oks[i]) else None for i, r in enumerate(rep["spec"])]
        # every load is judged against the specification of the state the object had when it was saved
        spec_ok = all(sp is None or (i < len(impl) and core.canon(impl[i]) == core.canon(sp)) for i, sp in enumerate(spec))
        if not hyp:
            feats = set(feats) | {"excluded:" + str(case.get("excluded", "hypothesis"))}
        return outcome(impl, model, spec, spec_ok=spec_ok, hyp=hyp, features=feats)

    # ------------------------------------------------------------------ known findings
    @staticmethod
    def known_ids():
        return {k["id"] for k in core.load_known() if k.get("property") == "C01" and k.get("kind") == "known"}

    def known(self, case, out):
        if case.get("cls") == "srr" and any("dtypes" in e and len(set(e["dtypes"])) > 1 for e in case["elements"]):
            return "C01-srr-layer-dtypes"
        if case.get("cls") == "srr" and len({tuple(s) for s in case["shapes"]}) > 1:
            imp = out["impl"]
            if isinstance(imp, dict) and imp.get("raises") == "ValueError":
                return "C01-srr-unequal-layers-unsaveable"
        if case.get("cls") == "srr" and self.swapped_fields(case):
            return "C01-srr-byteorder"
        nul = any(e["name"].endswith("\x00") for e in case["elements"])
        for _, c in case["cals"]:
            w = c["weights"] if isinstance(c["weights"], str) else c["weights"]["name"]
            nul = nul or c["unit"].endswith("\x00") or w.endswith("\x00")
        kept = [v for k, v in case["info"] if k != "File Path"]
        nul = nul or (bool(kept) and kept[-1].endswith("\x00"))
        if nul:
            return "C01-trailing-nul"
        return None

    # ------------------------------------------------------------------ shrinking
    def shrink(self, case):
        els = case["elements"]
        if case["kind"] == "history":
            steps = case["steps"]
            nsave = sum(1 for x in steps if x["step"] == "save")
            for i in range(len(steps)):
                if steps[i]["step"] == "save" and nsave == 1:
                    continue
                yield {**case, "steps": steps[:i] + steps[i + 1:]}
            for i, x in enumerate(steps):
                if x["step"] == "save" and (x["path"]["suffix"] != ".npz" or x["path"]["as"] != "path"):
                    yield {**case, "steps": steps[:i] + [{**x, "path": {**x["path"], "suffix": ".npz", "as": "path"}}] + steps[i + 1:]}
        if case.get("pre"):
            pre = case["pre"]
            for i in range(len(pre)):
                yield {**case, "pre": pre[:i] + pre[i + 1:]}
        if case.get("layout", "C") != "C":
            yield {**case, "layout": "C"}
        if case.get("chain", 1) > 2:
            yield {**case, "chain": 2}
        if len(els) > 1:
            for i in range(len(els)):
                cals = [[j - (j > i), c] for j, c in case["cals"] if j != i]
                yield {**case, "elements": els[:i] + els[i + 1:], "cals": cals}
        for i in range(len(case["cals"])):
            yield {**case, "cals": case["cals"][:i] + case["cals"][i + 1:]}
        for i in range(len(case["info"])):
            yield {**case, "info": case["info"][:i] + case["info"][i + 1:]}
        if case.get("chain", 1) > 1:
            yield {**case, "chain": case["chain"] - 1}
        if case["shapes"][0] != [1, 1] and len({tuple(s) for s in case["shapes"]}) == 1:
            yield {**case, "shapes": [[1, 1]] * len(case["shapes"]),
                   "elements": [{**e, "bits": [b[:1] for b in e["bits"]]} for e in els]}
        if case["cls"] == "srr" and len(case["shapes"]) > 2:
            yield {**case, "shapes": case["shapes"][:2], "elements": [{**e, "bits": e["bits"][:2]} for e in els]}
        for k, (i, c) in enumerate(case["cals"]):
            if c["points"]:
                for r in range(len(c["points"])):
                    c2 = {**c, "points": c["points"][:r] + c["points"][r + 1:]}
                    if not isinstance(c["weights"], str):
                        c2["weights"] = {**c["weights"], "values": c["weights"]["values"][:r] + c["weights"]["values"][r + 1:]}
                    yield {**case, "cals": case["cals"][:k] + [[i, c2]] + case["cals"][k + 1:]}
            if c["unit"]:
                yield {**case, "cals": case["cals"][:k] + [[i, {**c, "unit": ""}]] + case["cals"][k + 1:]}
        for i, e in enumerate(els):
            if len(e["name"]) > 1:
                cands = [e["name"][:1], e["name"][-1:], e["name"][: len(e["name"]) // 2]]
                for c in SEP_SINGLE:  # keep one separator: 'Fe56_corr_x' -> 'F_c', 'Fe56_corr'
                    if c in e["name"]:
                        head, tail = e["name"].split(c, 1)
                        cands += [head[:1] + c + tail[:1], head + c + tail.split(c)[0]]
                for nm in cands:
                    if nm and nm != e["name"] and nm not in [x["name"] for x in els]:
                        yield {**case, "elements": els[:i] + [{**e, "name": nm}] + els[i + 1:]}
            if e["dtype"] != "<f8":
                yield {**case, "elements": els[:i] + [{**e, "dtype": "<f8"}] + els[i + 1:]}
        for i, (k, v) in enumerate(case["info"]):
            if len(v) > 1:
                yield {**case, "info": case["info"][:i] + [[k, v[-1:]]] + case["info"][i + 1:]}
            if len(k) > 1:
                yield {**case, "info": case["info"][:i] + [[k[:1], v]] + case["info"][i + 1:]}


PROP = C01()

if __name__ == "__main__":
    sys.exit(core.main(PROP, "harness.c01"))
