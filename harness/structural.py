"""Structural (translator) tie for small arithmetic functions.

Besides the differential correspondence, a few anchored functions are pure index / unit arithmetic.
For those the *source itself* is translated on every run: a symbolic evaluator walks the Python AST
of the function in /repo's working tree and produces Lean terms over Int / Rat; a generated Lean file
states that these terms equal the specification of the hand-written model for ALL arguments, and
Lean proves it (omega / ring).  So the theorems about the specification are re-attached to what the
code says now, not only to what it did on generated inputs.

Outcomes per function:
  * ok            translated, equality proved by the kernel                       -> obligation discharged
  * failed        translated, but Lean could not prove the equality               -> broken obligation
                  (core.py then searches for a failing input; none found => no-failing-input-found)
  * unsupported   the source uses constructs outside the translator's small subset -> no obligation, noted
                  in the evidence (a harmless rewrite must never raise an alarm by itself)
"""
from __future__ import annotations

import ast
import hashlib
import subprocess
from pathlib import Path

from harness import core


class Unsupported(Exception):
    pass


# ----------------------------------------------------------------------------- symbolic evaluation
class Vec(list):
    """a symbolic numeric vector (e.g. a shape): elementwise arithmetic, numpy style"""


def lit(n):
    return f"({n})" if str(n).startswith("-") else str(n)


class SymEval:
    """evaluates a restricted expression language to Lean terms (strings)"""

    def __init__(self, env, ty="Int", funcs=None):
        self.env, self.ty, self.funcs = env, ty, funcs or {}

    def bin(self, op, l, r):
        if isinstance(l, Vec) or isinstance(r, Vec):
            n = len(l) if isinstance(l, Vec) else len(r)
            lv = l if isinstance(l, Vec) else Vec([l] * n)
            rv = r if isinstance(r, Vec) else Vec([r] * n)
            if len(lv) != len(rv):
                raise Unsupported("vector length mismatch")
            return Vec(self.bin(op, a, b) for a, b in zip(lv, rv))
        if isinstance(l, tuple) or isinstance(r, tuple):
            raise Unsupported("arithmetic on tuples")
        if isinstance(op, ast.Add):
            return f"({l} + {r})"
        if isinstance(op, ast.Sub):
            return f"({l} - {r})"
        if isinstance(op, ast.Mult):
            return f"({l} * {r})"
        if isinstance(op, ast.FloorDiv) and self.ty == "Int":
            return f"(Int.fdiv {l} {r})"
        if isinstance(op, ast.Div) and self.ty == "Rat":
            return f"({l} / {r})"
        raise Unsupported(f"operator {type(op).__name__}")

    def ev(self, e):
        if isinstance(e, ast.Constant) and isinstance(e.value, (int, float)) and not isinstance(e.value, bool):
            if isinstance(e.value, float):
                if not float(e.value).is_integer():
                    raise Unsupported("non-integral float literal")
                return lit(int(e.value))
            return lit(e.value)
        if isinstance(e, ast.Name):
            if e.id in self.env:
                return self.env[e.id]
            raise Unsupported(f"name {e.id}")
        if isinstance(e, ast.Attribute):
            d = ast.unparse(e)
            if d in self.env:
                return self.env[d]
            raise Unsupported(f"attribute {d}")
        if isinstance(e, ast.BinOp):
            return self.bin(e.op, self.ev(e.left), self.ev(e.right))
        if isinstance(e, ast.UnaryOp) and isinstance(e.op, ast.USub):
            v = self.ev(e.operand)
            if isinstance(v, (Vec, tuple)):
                raise Unsupported("negated vector")
            return f"(-{v})"
        if isinstance(e, ast.Tuple):
            return tuple(self.ev(x) for x in e.elts)
        if isinstance(e, ast.Subscript):
            base = self.ev(e.value)
            if isinstance(e.slice, ast.Constant) and isinstance(e.slice.value, int) and isinstance(base, (Vec, tuple)):
                return base[e.slice.value]
            if isinstance(e.slice, ast.Slice) and isinstance(base, (Vec, tuple)) and e.slice.step is None:
                lo = e.slice.lower.value if isinstance(e.slice.lower, ast.Constant) else None
                hi = e.slice.upper.value if isinstance(e.slice.upper, ast.Constant) else None
                return type(base)(base[lo:hi])
            raise Unsupported("subscript")
        if isinstance(e, ast.Call):
            f = ast.unparse(e.func)
            if f in ("tuple", "list", "int", "float") and len(e.args) == 1:
                v = self.ev(e.args[0])
                return tuple(v) if f in ("tuple", "list") and isinstance(v, (Vec, tuple)) else v
            if f in ("np.array", "np.asarray") and e.args:
                v = self.ev(e.args[0])
                if isinstance(v, (Vec, tuple)):
                    return Vec(v)
                raise Unsupported("np.array of a scalar")
            if f in self.funcs and not e.args and not e.keywords:
                return self.funcs[f]()
            if f in self.funcs:
                return self.funcs[f](*[self.ev(a) for a in e.args])
            raise Unsupported(f"call {f}")
        raise Unsupported(type(e).__name__)


def find_func(tree, name, cls=None):
    body = tree.body
    if cls:
        for n in body:
            if isinstance(n, ast.ClassDef) and n.name == cls:
                body = n.body
                break
        else:
            raise Unsupported(f"class {cls} not found")
    for n in body:
        if isinstance(n, ast.FunctionDef) and n.name == name:
            return n
    raise Unsupported(f"function {name} not found")


def strip_doc(stmts):
    out = [s for s in stmts if not (isinstance(s, ast.Expr) and isinstance(s.value, ast.Constant) and isinstance(s.value.value, str))]
    return [s for s in out if not isinstance(s, ast.Assert)]


def straight_line(fn, ev: SymEval):
    """functions made of simple assignments followed by one `return expr`"""
    for s in strip_doc(fn.body):
        if isinstance(s, ast.Return) and s.value is not None:
            return ev.ev(s.value)
        if isinstance(s, ast.Assign) and len(s.targets) == 1:
            t, v = s.targets[0], ev.ev(s.value)
            if isinstance(t, ast.Name):
                ev.env[t.id] = v
            elif isinstance(t, ast.Tuple) and isinstance(v, (tuple, Vec)) and len(t.elts) == len(v) \
                    and all(isinstance(x, ast.Name) for x in t.elts):
                for x, y in zip(t.elts, v):
                    ev.env[x.id] = y
            else:
                raise Unsupported("assignment target")
        else:
            raise Unsupported(f"statement {type(s).__name__}")
    raise Unsupported("no return")


def string_dispatch(fn, var, ev: SymEval):
    """`if var == "s1": return e1 elif var == "s2": ... else: raise` -> {string: value}"""
    stmts = strip_doc(fn.body)
    if len(stmts) != 1 or not isinstance(stmts[0], ast.If):
        raise Unsupported("expected a single if/elif chain")
    out = {}
    node = stmts[0]
    while True:
        t = node.test
        if not (isinstance(t, ast.Compare) and isinstance(t.left, ast.Name) and t.left.id == var and len(t.ops) == 1
                and isinstance(t.ops[0], ast.Eq) and isinstance(t.comparators[0], ast.Constant)
                and isinstance(t.comparators[0].value, str)):
            raise Unsupported("test is not `name == 'literal'`")
        body = strip_doc(node.body)
        if len(body) != 1 or not isinstance(body[0], ast.Return):
            raise Unsupported("branch is not a single return")
        out[t.comparators[0].value] = ev.ev(body[0].value)
        if len(node.orelse) == 1 and isinstance(node.orelse[0], ast.If):
            node = node.orelse[0]
            continue
        rest = strip_doc(node.orelse)
        if rest and not all(isinstance(s, ast.Raise) for s in rest):
            raise Unsupported("final else is not a raise")
        return out


# ----------------------------------------------------------------------------- Lean side
def prove(name: str, source: str):
    d = core.LEAN / ".lake" / "gen"
    d.mkdir(parents=True, exist_ok=True)
    f = d / f"{name}.lean"
    f.write_text(source)
    r = subprocess.run(["lake", "env", "lean", str(f)], cwd=core.LEAN, capture_output=True, text=True, timeout=600)
    out = r.stdout + r.stderr
    bad = r.returncode != 0 or "error" in out or "sorry" in out
    return (not bad), out[-1500:]


def c12_anchor():
    """pewlib.process.register.anchor_offset == Pew.Register.anchorSpec for every shape pair and the five anchors"""
    src = (core.REPO / "src/pewlib/process/register.py").read_text()
    fn = find_func(ast.parse(src), "anchor_offset")
    env = {"a.shape": Vec(["a0", "a1"]), "b.shape": Vec(["b0", "b1"])}
    table = string_dispatch(fn, "anchor", SymEval(env, "Int"))
    want = {"top left": "topLeft", "top right": "topRight", "bottom left": "bottomLeft", "bottom right": "bottomRight",
            "center": "center"}
    if set(table) != set(want):
        raise Unsupported(f"anchor names {sorted(table)}")
    thms = []
    for s, ctor in want.items():
        v = table[s]
        if not (isinstance(v, (tuple, Vec)) and len(v) == 2):
            raise Unsupported("anchor result is not a pair")
        thms.append(f"""theorem gen_{ctor} (a0 a1 b0 b1 : Int) :
    (({v[0]}, {v[1]}) : Int × Int) = Pew.Register.anchorSpec a0 a1 b0 b1 .{ctor} := by
  simp only [Pew.Register.anchorSpec, Pew.Register.Anchor.sides, Pew.Register.sideOffset]
  all_goals (try (repeat rw [Int.fdiv_eq_ediv_of_nonneg _ (by decide)]))
  all_goals (try (refine Prod.ext ?_ ?_ <;> simp <;> omega))
""")
    body = "import PewModel.Register\n/- generated from src/pewlib/process/register.py (anchor_offset), sha256 " \
           + hashlib.sha256(src.encode()).hexdigest()[:16] + " -/\n" + "\n".join(thms)
    return prove("C12Anchor", body)


def c10_extent():
    """Config / SpotConfig pixel sizes and data_extent, Laser.extent == Pew.Extent.extentSpec for every shape"""
    src = (core.REPO / "src/pewlib/config.py").read_text()
    tree = ast.parse(src)
    thms = []
    for cls, fields, ctor, spec_pw, spec_ph in (
            ("Config", {"self.spotsize": "spotsize", "self.speed": "speed", "self.scantime": "scantime"},
             "Pew.Extent.Cfg.raster spotsize speed scantime", "(speed * scantime)", "spotsize"),
            ("SpotConfig", {"self.spotsize": "sx", "self.spotsize_y": "sy"}, "Pew.Extent.Cfg.spot sx sy", "sx", "sy")):
        def pw(cls=cls, fields=fields):
            return straight_line(find_func(tree, "get_pixel_width", cls), SymEval(dict(fields), "Rat"))

        def ph(cls=cls, fields=fields):
            return straight_line(find_func(tree, "get_pixel_height", cls), SymEval(dict(fields), "Rat"))

        w, h = pw(), ph()
        try:
            ext_fn = find_func(tree, "data_extent", cls)
        except Unsupported:
            ext_fn = find_func(tree, "data_extent", "Config")  # inherited
        env = dict(fields)
        env["shape"] = Vec(["(rows : Rat)", "(cols : Rat)"])
        ext = straight_line(ext_fn, SymEval(env, "Rat", funcs={"self.get_pixel_width": pw, "self.get_pixel_height": ph}))
        if not (isinstance(ext, tuple) and len(ext) == 4):
            raise Unsupported("data_extent does not return a 4-tuple")
        vars_ = " ".join(sorted(set(fields.values())))
        thms.append(f"""theorem gen_{cls}_pixel ({vars_} : Rat) : ({w} : Rat) = {spec_pw} ∧ ({h} : Rat) = {spec_ph} := by
  refine ⟨?_, ?_⟩
  all_goals (try (first | trivial | rfl | ring))

theorem gen_{cls}_extent ({vars_} : Rat) (rows cols : Nat) :
    ({{ x0 := {ext[0]}, x1 := {ext[1]}, y0 := {ext[2]}, y1 := {ext[3]} }} : Pew.Extent.Ext)
      = Pew.Extent.extentSpec {spec_pw} {spec_ph} rows cols := by
  simp only [Pew.Extent.extentSpec, Pew.Extent.Ext.mk.injEq]
  all_goals (try (refine ⟨?_, ?_, ?_, ?_⟩))
  all_goals (try (first | trivial | rfl | ring))
""")
    body = "import PewModel.Extent\nimport Mathlib.Tactic.Ring\nimport Mathlib.Algebra.Order.Field.Rat\n" \
           "/- generated from src/pewlib/config.py, sha256 " + hashlib.sha256(src.encode()).hexdigest()[:16] + " -/\n" \
           + "\n".join(thms)
    return prove("C10Extent", body)


TIES = {"C12": [("anchor_offset", c12_anchor)], "C10": [("Config/SpotConfig pixel size and data_extent", c10_extent)]}


def run(pid: str, log):
    """returns {"obligations": n, "discharged": d, "problems": [...], "notes": [...]}"""
    res = {"obligations": 0, "discharged": 0, "problems": [], "notes": []}
    for name, fn in TIES.get(pid, []):
        try:
            ok, out = fn()
        except Unsupported as e:
            res["notes"].append(f"structural tie for {name}: source outside the translator's subset ({e}); differential tie only")
            continue
        except subprocess.TimeoutExpired:
            res["notes"].append(f"structural tie for {name}: Lean timed out; differential tie only")
            continue
        res["obligations"] += 1
        if ok:
            res["discharged"] += 1
            res["notes"].append(f"structural tie for {name}: translated from the current source and proved equal to the specification")
        else:
            res["problems"].append(f"structural tie for {name}: the translated source is not provably equal to the specification: {out[-600:]}")
    for n in res["notes"]:
        log(n)
    return res


# C09 / C10: the scalar arithmetic of SRRConfig / SRRLaser.extent / Laser.get (typed translator in structural_c10.py)
from harness import structural_c10  # noqa: E402

for _pid, _ties in structural_c10.TIES.items():
    TIES.setdefault(_pid, []).extend(_ties)
