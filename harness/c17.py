"""C17 — fast imzML parser == XML parser: ImzML.from_file(path, use_fast_parse=True) vs ImzML.from_file(path)
field by field (and through the extracted images), and both against PewModel/FastParse.lean
(`fastParse (render d)` = the nested line loops over abstract lines, `xmlView d` = the tree queries)."""
import math
import random
import sys
import warnings

import numpy as np

from harness import core, gen_imzml
from harness.core import Prop, outcome
from harness.gen_imzml import ACC, cv, misc, ref, user

DTYPE_NAME = {"IMS:1100000": "uint8", "IMS:1100001": "uint16", "MS:1000519": "uint32", "MS:1000522": "uint64",
              "MS:1000521": "float32", "MS:1000523": "float64"}
BIN_TYPES = list(DTYPE_NAME)
READ_SETTINGS = [ACC["SIZE_X"], ACC["SIZE_Y"], ACC["PIXEL_X"], ACC["PIXEL_Y"]]
READ_SPECTRUM = [ACC["POS_X"], ACC["POS_Y"], ACC["TIC"]]
READ_ARRAY = [ACC["OFFSET"], ACC["ENCODED_LENGTH"]]
NOISE_ACCS = ["MS:1000130", "MS:1000127", "MS:1000294", "MS:1000795", "MS:1000576", "IMS:1000401", "IMS:1000410",
              "IMS:1000490", "IMS:1000480", "IMS:1000044", "IMS:1000045", "IMS:1000053", "MS:1000528", "MS:1000527",
              "IMS:1000103", "MS:1000511", "MS:1000040", "IMS:1000080", "MS:12345678901"]
ALL_READ = [ACC["MZ_ARRAY"], ACC["INTENSITY_ARRAY"], "MS:1000568", ACC["EXTERNAL_DATA"]] + BIN_TYPES + READ_SETTINGS \
    + READ_SPECTRUM + READ_ARRAY
NAMES = ["p", "pixel size (x)", "m/z array", "total ion current", "no combination", "max count of pixels x", "a-b_c.d", "x"]
NOISE_VALUES = [None, None, "", "abc", "1.5e+06", "x y", "-3", "0", "true", "00000000-0000"]
# large documents ("any number of spectra"): probability per generated case, and the range of the spectrum count
LARGE_P = {"quick": 0.0004, "thorough": 0.0006}
LARGE_MIN, LARGE_MAX = 1000, 3000
SECT_TAGS = ["fileDescription", "softwareList", "instrumentConfigurationList", "dataProcessingList", "cvList", "sampleList"]


def render_kinds(doc):
    return [t for _, t in gen_imzml.render_lines(doc)]


def ftok(v):
    return None if v is None else core.tok(float(v))


def canon_imz(imz):
    ss = imz.scan_settings
    spectra = {}
    for (x, y), s in imz.spectra.items():
        spectra[f"{int(x)},{int(y)}"] = {"pos": [int(s.pos[0]), int(s.pos[1])], "tic": ftok(s.tic),
                                         "offsets": {k: int(v) for k, v in s.offsets.items()},
                                         "lengths": {k: int(v) for k, v in s.lengths.items()}}
    grp = lambda g: {"id": g.id, "dtype": np.dtype(g.dtype).name, "external": bool(g.external)}
    return {"size": None if ss.image_size is None else [int(ss.image_size[0]), int(ss.image_size[1])],
            "pixel": [ftok(ss.pixel_size[0]), ftok(ss.pixel_size[1])],
            "mz": grp(imz.mz_params), "inten": grp(imz.intensity_params), "spectra": spectra}


def canon_model(res):
    """driver result -> the same canonical form (int()/float() of the selected attribute texts)"""
    if res is None:
        return {"raises": "no-model"}
    if "raises" in res:
        return {"raises": "Warning" if res["raises"] == "UserWarning" else res["raises"]}
    m = res["ok"] if "ok" in res else res
    spectra = {}
    for s in m["spectra"]:
        x, y = int(s["x"]), int(s["y"])
        offsets, lengths = {}, {}
        for k, o, l in s["arrays"]:
            offsets[k] = int(o)
            lengths[k] = int(l)
        spectra[f"{x},{y}"] = {"pos": [x, y], "tic": None if s["tic"] is None else ftok(float(s["tic"])),
                               "offsets": offsets, "lengths": lengths}
    grp = lambda g: {"id": g["id"], "dtype": DTYPE_NAME[g["dtype"]], "external": g["external"]}
    return {"size": None if m["size"] is None else [int(m["size"][0]), int(m["size"][1])],
            "pixel": [ftok(float(m["pixel"][0])), ftok(float(m["pixel"][1]))],
            "mz": grp(m["mz"]), "inten": grp(m["inten"]), "spectra": spectra}


def canon_exc(e):
    return {"raises": "Warning" if isinstance(e, Warning) else type(e).__name__}


def img_tokens(a):
    a = np.asarray(a, dtype=np.float64)
    return {"shape": list(a.shape), "data": [core.tok(v) if not math.isnan(v) else "nan" for v in a.ravel()]}


class C17(Prop):
    id = "C17"
    anchored = ["src/pewlib/io/imzml.py"]
    cases = {"quick": 1500, "thorough": 20000}
    rule = ("documents of the layout predicate `Pew.FastParse.Layout` (decided by the driver for every case): 1..7 spectra in any "
            "order incl. repeated positions and positions/offsets with many digits, TIC absent or written as integer/decimal/"
            "exponent/signed text, image size present or absent, 1..3 scanSettings, extra param groups, extra cvParam/userParam/"
            "ref lines in every element (any accession the enclosing parser does not read), noise sections that repeat the read "
            "accessions, five cvParam attribute orders, four indentations, trailing blanks, array groups in either order, "
            "32/64-bit and integer type declarations; the progress callback returns False at a random invocation or never; "
            "large documents (feature `large-document`: 1000..3000 spectra of 1-2 peaks over a 30..90 pixel wide image in raster/column/"
            "reverse/shuffled order, light per-spectrum noise, so that one <spectrum> block is far below 1/1024 of the file) with the "
            "callback False at the first, a middle, the last, a random spectrum or never: one fixed document x these five callbacks in "
            "every run, plus about 1 in 1700 (thorough; 1 in 2500 quick) generated cases. "
            "non-trivial = any of these layout-noise classes; distinct by canonical case hash")
    trusted = ["xml.etree.ElementTree and `re` behave as documented; the abstract-line tokenisation of the rendered text is validated "
               "only by this differential run (harness renders text, driver renders abstract lines from the same description)",
               "int()/float() of the selected attribute text is applied by the harness to the model's output (both parsers call the same functions)"]
    assumptions = ["at least one <spectrum> (with none the fast parser treats <spectrumList> as a spectrum and raises KeyError)",
                   "a TIC cvParam carries a value attribute; attribute texts contain no quote, '&', '<' or the text 'value='",
                   "the `compressed` flag is not compared (the property does not list it; the two parsers always disagree on it)",
                   "callback positions are compared for count and order only"]

    # ------------------------------------------------------------------ generation
    def noise(self, rng, avoid, n=None, refs_ok=True):
        out = []
        for _ in range(rng.choice([0, 0, 1, 1, 2, 3]) if n is None else n):
            r = rng.random()
            if r < 0.6:
                pool = [a for a in NOISE_ACCS + (ALL_READ if rng.random() < 0.5 else []) if a not in avoid]
                out.append(cv(rng.choice(pool), rng.choice(NOISE_VALUES), rng.randint(0, gen_imzml.NSTYLES - 1), rng.choice(NAMES)))
            elif r < 0.85:
                out.append(user(rng.choice(["3DPositionX", "note", "accession"]), rng.choice(["2975.78", "a b", "1e+3"])))
            elif refs_ok:
                out.append(ref(rng.choice(["spectrum", "scan1", "mzArray"])))
            else:
                out.append(misc("<!-- note -->"))
        return out

    def mix(self, rng, required, extra):
        items = list(required) + list(extra)
        if rng.random() < 0.7:
            rng.shuffle(items)
        return items

    def sty(self, rng):
        return rng.randint(0, gen_imzml.NSTYLES - 1)

    def num(self, rng, big=False):
        if big or rng.random() < 0.1:
            return str(rng.randint(10 ** 12, 10 ** 24))
        v = rng.randint(0, 5000)
        return ("%05d" % v) if rng.random() < 0.1 else str(v)

    def tic_text(self, rng):
        v = rng.choice([52676.0, 1.5e6, 0.0, 7.25, 1234567.875, 3e-3])
        k = rng.randint(0, 8)
        return [None, "%d" % int(v), "%.6f" % v, "%.6e" % v, "%E" % v, "-%.3e" % v, "+%d" % int(v), "%g" % v, "inf"][k]

    def generate(self, rng, tier):
        # the large-document class is decided on a fork of the case PRNG, so every other case is drawn exactly as before
        fork = random.Random()
        fork.setstate(rng.getstate())
        if fork.random() < LARGE_P[tier]:
            return self.gen_doc(fork, tier, large=fork.randint(LARGE_MIN, LARGE_MAX))
        return self.gen_doc(rng, tier)

    def gen_doc(self, rng, tier, large=None):
        """`large` = number of spectra of a large document (1000+ spectra of 1-2 peaks over a large image, light per-spectrum
        noise so the document stays a few MB); None = the small classes"""
        imageable = rng.random() < 0.5
        nspec = rng.choice([1, 1, 2, 2, 3, 4, 7])
        mzdt, itdt = rng.choice(["f4", "f8"]), rng.choice(["f4", "f8"])
        light = (lambda: rng.choice([0, 0, 0, 1])) if large is not None else (lambda: None)
        # ---- spectra
        if large is not None:
            nspec = large
            X = rng.randint(30, 90)
            Y = -(-nspec // X) + rng.randint(0, 4)
            cells = [(x, y) for y in range(1, Y + 1) for x in range(1, X + 1)]      # raster order
            order = rng.choice(["raster", "columns", "reverse", "shuffled"])
            pos = rng.sample(cells, nspec) if order == "shuffled" else sorted(rng.sample(cells, nspec), key=lambda c: (c[1], c[0]))
            if order == "columns":
                pos.sort()
            elif order == "reverse":
                pos.reverse()
            data = []
            for _ in pos:
                mz = sorted({rng.randint(6400, 9600) / 64 for _ in range(rng.randint(1, 2))})
                data.append({"mz": mz, "it": [float(rng.randint(0, 500)) for _ in mz]})
            mz_acc, it_acc = gen_imzml.DTYPE_ACC[mzdt], gen_imzml.DTYPE_ACC[itdt]
            size = [str(X), str(Y)] if rng.random() < 0.7 else None
            posn = [(str(x), str(y)) for x, y in pos]
        elif imageable:
            X, Y = rng.randint(1, 3), rng.randint(1, 3)
            cells = [(x, y) for x in range(1, X + 1) for y in range(1, Y + 1)]
            pos = [rng.choice(cells) for _ in range(nspec)] if rng.random() < 0.2 else rng.sample(cells, min(nspec, len(cells)))
            data = []
            for _ in pos:
                n = rng.randint(1, 5)
                mz = sorted({rng.randint(6400, 9600) / 64 for _ in range(n)})
                data.append({"mz": mz, "it": [float(rng.randint(0, 500)) for _ in mz]})
            mz_acc, it_acc = gen_imzml.DTYPE_ACC[mzdt], gen_imzml.DTYPE_ACC[itdt]
            size = [str(X), str(Y)] if rng.random() < 0.7 else None
            posn = [(str(x), str(y)) for x, y in pos]
        else:
            data = None
            mz_acc, it_acc = rng.choice(BIN_TYPES), rng.choice(BIN_TYPES)
            size = [self.num(rng), self.num(rng)] if rng.random() < 0.6 else None
            posn = [(self.num(rng), self.num(rng)) for _ in range(nspec)]
            if nspec > 1 and rng.random() < 0.2:
                posn[-1] = posn[0]
        spectra = []
        for i, (x, y) in enumerate(posn):
            tic = self.tic_text(rng)
            avoid = READ_SPECTRUM
            direct = [] if tic is None else [cv(ACC["TIC"], tic, self.sty(rng), "total ion current")]
            tail_has_tic = tic is not None and rng.random() < 0.15
            scan0 = self.mix(rng, [cv(ACC["POS_X"], x, self.sty(rng), "position x"), cv(ACC["POS_Y"], y, self.sty(rng), "position y")],
                             self.noise(rng, avoid, n=light()))
            scans = [scan0] + [self.noise(rng, avoid, n=light()) for _ in range(rng.choice([0, 0, 0, 1, 2] if large is None else [0, 0, 0, 0, 1]))]
            arrays = []
            names = ["mzArray", "intensities"]
            if rng.random() < 0.3:
                names.reverse()
            if rng.random() < 0.1:
                names.append("extra")
            for nm in names:
                arrays.append({"name": nm, "offset": self.num(rng, big=rng.random() < 0.1), "length": self.num(rng),
                               "style": self.sty(rng), "extra": self.noise(rng, READ_ARRAY, n=light(), refs_ok=False),
                               "shuffle": rng.randint(0, 10 ** 6) if rng.random() < 0.6 else None})
            spectra.append({"items": self.mix(rng, [] if tail_has_tic else direct, self.noise(rng, avoid, n=light())),
                            "scanlist": self.noise(rng, avoid, n=light()), "scans": scans, "arrays": arrays,
                            "tail": self.mix(rng, direct if tail_has_tic else [], self.noise(rng, avoid, n=rng.choice([0, 0, 1])))})
        # ---- groups
        def group(gid, arr_acc, dt_acc):
            req = [cv(arr_acc, rng.choice([None, None, ""]), self.sty(rng), "array"), cv(dt_acc, None, self.sty(rng), "type")]
            if rng.random() < 0.8:
                req.append(cv(ACC["EXTERNAL_DATA"], rng.choice(["true", None]), self.sty(rng), "external data"))
            avoid = BIN_TYPES + ["MS:1000568", ACC["MZ_ARRAY"], ACC["INTENSITY_ARRAY"]]
            return {"id": gid, "items": self.mix(rng, req, self.noise(rng, avoid))}

        groups = [group("mzArray", ACC["MZ_ARRAY"], mz_acc), group("intensities", ACC["INTENSITY_ARRAY"], it_acc)]
        for _ in range(rng.choice([0, 1, 1, 2])):
            groups.append({"id": rng.choice(["spectrum", "scan1", "mzArray2", "", "intensitiesX"]),
                           "items": self.noise(rng, [ACC["MZ_ARRAY"], ACC["INTENSITY_ARRAY"]], n=rng.randint(0, 3))})
        rng.shuffle(groups)
        # ---- scan settings
        settings = []
        for k in range(rng.choice([1, 1, 1, 2, 3])):
            req = [cv(ACC["PIXEL_X"], rng.choice(["30", "100.5", "1e2", "2.5E+1", "0.5"]), self.sty(rng), "pixel size (x)"),
                   cv(ACC["PIXEL_Y"], rng.choice(["30", "100.5", "1e-2", "7"]), self.sty(rng), "pixel size y")]
            sz = size if k == 0 else ([self.num(rng), self.num(rng)] if rng.random() < 0.5 else None)
            if sz is not None:
                req += [cv(ACC["SIZE_X"], sz[0], self.sty(rng), "max count of pixels x"), cv(ACC["SIZE_Y"], sz[1], self.sty(rng), "max count of pixels y")]
            elif rng.random() < 0.3:  # only one of the two: both parsers must report no size
                req.append(cv(rng.choice([ACC["SIZE_X"], ACC["SIZE_Y"]]), "4", self.sty(rng), "max count"))
            settings.append({"id": "scanSettings%d" % k, "items": self.mix(rng, req, self.noise(rng, READ_SETTINGS))})

        def sects():
            return [{"tag": rng.choice(SECT_TAGS), "items": self.noise(rng, [], n=rng.randint(0, 4))} for _ in range(rng.choice([0, 0, 1, 2]))]

        abort = None
        nspec = len(spectra)
        if large is not None:     # False at the first, a middle, the last, a random spectrum, or never
            abort = rng.choice([None, 0, nspec // 2, nspec - 1, rng.randint(0, nspec - 1)])
        elif rng.random() < 0.4:
            abort = rng.choice([0, nspec - 1, rng.randint(0, nspec - 1)])
        return {"doc": {"decl": rng.random() < 0.8, "indent": rng.choice(["", "  ", "\t", "    ", " "]),
                        "trail": rng.choice(["", "", "", " ", "\t ", "\r"]),
                        "pre": sects(), "mid1": sects(), "mid2": sects(), "post": sects(),
                        "settings_first": rng.random() < 0.3, "groups": groups, "settings": settings, "spectra": spectra},
                "data": data, "mzdt": mzdt, "itdt": itdt, "abort": abort, "pad": rng.randint(0, 10 ** 6)}

    def targeted(self, tier):
        rng = random.Random(17)
        for tic in ("1.500000e+06", "-2.5E-3", "+7", "52676.000000", None):
            c = self.gen_doc(random.Random(5), tier)
            for s in c["doc"]["spectra"]:
                s["items"] = [] if tic is None else [cv(ACC["TIC"], tic, 1, "total ion current")]
                s["tail"] = []
            c["abort"] = None
            yield c
        for k in range(3):
            c = self.gen_doc(rng, tier)
            c["abort"] = k % max(1, len(c["doc"]["spectra"]))
            yield c
        # one large document, the callback returning False never / at the first / a middle / the last / a random spectrum
        c = self.gen_doc(random.Random(1017), tier, large=2048)
        for ab in (None, 0, 1024, 2047, random.Random(1018).randint(1, 2046)):
            yield {**c, "abort": ab}

    # ------------------------------------------------------------------ evaluation
    def materialise(self, case):
        """the concrete document: array items get their real offsets when the case carries binary data"""
        doc = {k: v for k, v in case["doc"].items() if k != "spectra"}
        ibd, metas = b"\x00" * 16, None
        if case["data"] is not None:
            ibd, metas = gen_imzml.layout_ibd(case["data"], case["mzdt"], case["itdt"], rng=random.Random(case["pad"]))
        spectra = []
        for i, s in enumerate(case["doc"]["spectra"]):
            arrays = []
            for a in s["arrays"]:
                off, length = a["offset"], a["length"]
                if metas is not None and a["name"] in ("mzArray", "intensities"):
                    m = metas[i]["mz" if a["name"] == "mzArray" else "it"]
                    off, length = str(m[0]), str(m[1])
                items = [ref(a["name"]), cv(ACC["ENCODED_LENGTH"], length, a["style"], "external encoded length"),
                         cv(ACC["OFFSET"], off, a["style"], "external offset"), misc("<binary/>")] + a["extra"]
                if a["shuffle"] is not None:
                    random.Random(a["shuffle"]).shuffle(items)
                arrays.append({"items": items})
            spectra.append({**s, "arrays": arrays})
        doc["spectra"] = spectra
        return doc, ibd

    def evaluate(self, case, ctx):
        from pewlib.io import imzml

        doc, ibd = self.materialise(case)
        d = ctx.tmpdir()
        path = gen_imzml.write_pair(d, doc, ibd)
        ends = gen_imzml.line_end_positions(doc)
        lens = [b - a for a, b in zip([0] + ends[:-1], ends)]
        nspec = len(doc["spectra"])
        abort = case["abort"]

        rep = ctx.driver.call("c17.parse", doc=doc, lens=lens, cls="any", abort_call=abort)
        if not rep["layout"]:
            raise core.InternalError("generated document is outside the layout predicate")

        def parse(fast):
            try:
                with warnings.catch_warnings():
                    warnings.simplefilter("error")
                    return imzml.ImzML.from_file(path, use_fast_parse=fast)
            except Exception as e:
                return e

        fast, xml = parse(True), parse(False)
        cf = canon_exc(fast) if isinstance(fast, Exception) else canon_imz(fast)
        cx = canon_exc(xml) if isinstance(xml, Exception) else canon_imz(xml)
        impl = {"fast": cf, "xml": cx}

        # images through both models (only when the case carries real binary data)
        if case["data"] is not None and not isinstance(fast, Exception) and not isinstance(xml, Exception):
            def images(m):
                try:
                    return {"tic": img_tokens(m.extract_tic()), "ext": img_tokens(m.extract_masses([100.0, 125.0], mass_width_mz=16.0))}
                except Exception as e:
                    return canon_exc(e)
            impl["images_equal"] = images(fast) == images(xml)
        else:
            impl["images_equal"] = True

        # progress callback
        calls = []

        def cb(pos):
            calls.append(int(pos))
            return abort is None or len(calls) - 1 != abort

        try:
            r = imzml.fast_parse_imzml(path, path.with_suffix(".ibd"), callback=cb)
            cres = canon_imz(r)
        except Exception as e:
            cres = canon_exc(e)
        expect_calls = nspec if abort is None else abort + 1
        impl["callback"] = {"result": cres, "count": len(calls), "non_decreasing": calls == sorted(calls)}

        want = canon_model(rep["xml"])
        spec = {"fast": want, "xml": want, "images_equal": True,
                "callback": {"result": want if abort is None else {"raises": "Warning"}, "count": expect_calls, "non_decreasing": True}}
        mcalls = rep["calls"]
        model = {"fast": canon_model(rep["fast_free"]), "xml": want, "images_equal": True,
                 "callback": {"result": canon_model(rep["fast"]), "count": len(mcalls), "non_decreasing": mcalls == sorted(mcalls)}}

        feats = self.features(case, doc, nspec)
        if nspec >= LARGE_MIN:
            feats.add("large-document")
            feats.add("large-document:" + next(f for f in feats if f.startswith("callback:")))
            # a whole <spectrum> block is shorter than 1/1024 of the file (progress finer than 0.1 % per spectrum)
            ln = render_kinds(doc)
            starts = [i for i, t in enumerate(ln) if t.startswith("<spectrum ")]
            closes = [i for i, t in enumerate(ln) if t == "</spectrum>"]
            if min(ends[c] - ends[o - 1] for o, c in zip(starts, closes)) * 1024 < ends[-1]:
                feats.add("large-document:spectrum-block<size/1024")
        feats.add("callback-positions-" + ("exact" if calls == mcalls else "differ"))
        return outcome(impl, model, spec, hyp=bool(rep["layout"]), features=feats)

    def features(self, case, doc, nspec):
        f = {"spectra:%s" % ("1" if nspec == 1 else "2" if nspec == 2 else "many" if nspec < LARGE_MIN else "1000+"),
             "indent:%r" % doc["indent"], "trail:%r" % doc["trail"],
             "imageable" if case["data"] is not None else "parse-only"}
        tics = [it["value"] for s in doc["spectra"] for it in s["items"] + s["tail"] if it["t"] == "cv" and it["acc"] == ACC["TIC"]]
        if len(tics) < nspec:
            f.add("tic-absent")
        for t in tics:
            f.add("tic-exponent" if ("e" in t.lower() and t != "inf") else "tic-decimal" if "." in t else "tic-integer")
            if t[0] in "+-":
                f.add("tic-signed")
        st0 = [it["acc"] for it in doc["settings"][0]["items"] if it["t"] == "cv"]
        f.add("size-present" if ACC["SIZE_X"] in st0 and ACC["SIZE_Y"] in st0 else "size-absent")
        if len(doc["settings"]) > 1:
            f.add("several-scanSettings")
        if doc["settings_first"]:
            f.add("settings-before-groups")
        if len(doc["groups"]) > 2:
            f.add("extra-groups")
        if doc["groups"][0]["id"] not in ("mzArray", "intensities") or [g["id"] for g in doc["groups"] if g["id"] in ("mzArray", "intensities")][0] == "intensities":
            f.add("groups-reordered")
        if any(len(s["scans"]) > 1 for s in doc["spectra"]):
            f.add("several-scans")
        if any(len(s["arrays"]) > 2 for s in doc["spectra"]):
            f.add("extra-array")
        if any(it["t"] == "cv" and it["acc"] in ALL_READ for k in ("pre", "mid1", "mid2", "post") for sct in doc[k] for it in sct["items"]):
            f.add("read-accession-in-noise-section")
        pos = [tuple(int(it["value"]) for it in s["scans"][0] if it["t"] == "cv" and it["acc"] in (ACC["POS_X"], ACC["POS_Y"])) for s in doc["spectra"]]
        if len(set(pos)) < len(pos):
            f.add("repeated-position")
        if any(max(p) >= 10 ** 12 for p in pos):
            f.add("many-digit-position")
        if not doc["decl"]:
            f.add("no-xml-declaration")
        gt = {g["id"]: [it["acc"] for it in g["items"] if it["t"] == "cv" and it["acc"] in BIN_TYPES] for g in doc["groups"]}
        f.add("types:%s/%s" % (DTYPE_NAME[gt["mzArray"][0]], DTYPE_NAME[gt["intensities"][0]]))
        ab = case["abort"]
        f.add("callback:never-false" if ab is None else "callback:false-first" if ab == 0 else
              "callback:false-last" if ab == nspec - 1 else "callback:false-middle")
        return f

    # ------------------------------------------------------------------ shrinking
    def shrink(self, case):
        doc = case["doc"]
        sp = doc["spectra"]
        if len(sp) > 16:     # large documents: remove runs of spectra (halves, quarters, ... sixteenths) instead of single ones
            n = len(sp)
            for parts in (2, 4, 8, 16):
                for k in range(parts):
                    a, b = k * n // parts, (k + 1) * n // parts
                    data = None if case["data"] is None else case["data"][:a] + case["data"][b:]
                    m = n - (b - a)
                    ab = case["abort"]
                    yield {**case, "doc": {**doc, "spectra": sp[:a] + sp[b:]}, "data": data,
                           "abort": None if ab is None else (ab if ab < a else ab - (b - a) if ab >= b else min(a, m - 1))}
        elif len(sp) > 1:
            for i in range(len(sp)):
                data = None if case["data"] is None else case["data"][:i] + case["data"][i + 1:]
                yield {**case, "doc": {**doc, "spectra": sp[:i] + sp[i + 1:]}, "data": data,
                       "abort": None if case["abort"] is None else min(case["abort"], len(sp) - 2)}
        for k in ("pre", "mid1", "mid2", "post"):
            if doc[k]:
                yield {**case, "doc": {**doc, k: []}}
        if case["abort"] is not None:
            yield {**case, "abort": None}
        if doc["indent"] or doc["trail"]:
            yield {**case, "doc": {**doc, "indent": "", "trail": ""}}

        def drop_noise(items, keep):
            return [it for it in items if it["t"] == "cv" and it["acc"] in keep]

        def plain(s):
            return {**s, "items": drop_noise(s["items"], READ_SPECTRUM), "scanlist": [], "tail": drop_noise(s["tail"], READ_SPECTRUM),
                    "scans": [drop_noise(s["scans"][0], READ_SPECTRUM)], "arrays": [{**a, "extra": [], "shuffle": None} for a in s["arrays"]]}

        if len(sp) > 16:     # large documents: all spectra at once
            ts = [plain(s) for s in sp]
            if ts != sp:
                yield {**case, "doc": {**doc, "spectra": ts}}
        else:
            for i, s in enumerate(sp):
                t = plain(s)
                if t != s:
                    yield {**case, "doc": {**doc, "spectra": sp[:i] + [t] + sp[i + 1:]}}
        others = [g for g in doc["groups"] if g["id"] in ("mzArray", "intensities")]
        if len(others) < len(doc["groups"]):
            yield {**case, "doc": {**doc, "groups": others}}
        if len(doc["settings"]) > 1:
            yield {**case, "doc": {**doc, "settings": doc["settings"][:1]}}


PROP = C17()

if __name__ == "__main__":
    sys.exit(core.main(PROP, "harness.c17"))
