"""C17 — fast imzML parser == XML parser: ImzML.from_file(path, use_fast_parse=True) vs ImzML.from_file(path)
field by field (and through the extracted images), and both against PewModel/FastParse.lean
(`fastParse (render d)` = the nested line loops over the abstract lines of the raw text, `xmlView (xmlDoc d)` = the tree queries
over the document with entity / character references decoded, `callPositions` = the exact file positions handed to the
progress callback, `imageSizeOf` / `ticImageOf` / `massImageOf` = the images as a function of the parsed model)."""
import copy
import locale
import os
import math
import random
import sys
import warnings

import numpy as np

from harness import core, gen_imzml
from harness.core import Prop, outcome
from harness.gen_imzml import ACC, cv, misc, ref, user

DTYPE_NAME = {"IMS:1100000": "uint8", "IMS:1100001": "uint16", "MS:1000519": "uint32", "MS:1000522": "uint64",
              "MS:1000521": "float32", "MS:1000523": "float64"}
BIN_TYPES = list(DTYPE_NAME)
READ_SETTINGS = [ACC["SIZE_X"], ACC["SIZE_Y"], ACC["PIXEL_X"], ACC["PIXEL_Y"]]
READ_SPECTRUM = [ACC["POS_X"], ACC["POS_Y"], ACC["TIC"]]
READ_ARRAY = [ACC["OFFSET"], ACC["ENCODED_LENGTH"]]
NOISE_ACCS = ["MS:1000130", "MS:1000127", "MS:1000294", "MS:1000795", "MS:1000576", "IMS:1000401", "IMS:1000410",
              "IMS:1000490", "IMS:1000480", "IMS:1000044", "IMS:1000045", "IMS:1000053", "MS:1000528", "MS:1000527",
              "IMS:1000103", "MS:1000511", "MS:1000040", "IMS:1000080", "MS:12345678901"]
ALL_READ = [ACC["MZ_ARRAY"], ACC["INTENSITY_ARRAY"], "MS:1000568", ACC["EXTERNAL_DATA"]] + BIN_TYPES + READ_SETTINGS \
    + READ_SPECTRUM + READ_ARRAY
NAMES = ["p", "pixel size (x)", "m/z array", "total ion current", "no combination", "max count of pixels x", "a-b_c.d", "x"]
NOISE_VALUES = [None, None, "", "abc", "1.5e+06", "x y", "-3", "0", "true", "00000000-0000"]
# large documents ("any number of spectra"): probability per generated case, and the range of the spectrum count
LARGE_P = {"quick": 0.0004, "thorough": 0.0006}
LARGE_MIN, LARGE_MAX = 1000, 3000
# layout noise outside what either parser reads: non-ASCII text in the NAME attributes (2- and 3-byte UTF-8 sequences, so that
# byte offsets and character offsets differ); only used when the locale encoding `open(path, "r")` decodes with is UTF-8
NAMES_NON_ASCII = ["pixel size (\u00b5m)", "dur\u00e9e", "\u4f4d\u7f6e x", "Gr\u00f6\u00dfe", "\u00b5", "m/z \u2013 array"]
NON_ASCII_P = 0.08
# hypothesis-excluded cases (entity / character references in a read value, a ref or a group id): share of the generated cases
ENTITY_P = 0.04
ENTITY_KINDS = ["value", "value", "ref", "group-id"]
UTF8_LOCALE = locale.getpreferredencoding(False).lower().replace("-", "").replace("_", "") == "utf8"
MASSES, MASS_WIDTH = [100.0, 125.0], 16.0
# the objects a progress callback hands back: (class name, object at the other invocations, object at invocation `abort`, weight).
# bool / numpy.bool_ / int 0, 1: the property decides (False aborts, True does not); anything else is recorded only
PV_TRUE = [{"t": "bool", "v": True}, {"t": "npbool", "v": True}, {"t": "int", "v": 1}]
PV_FALSE = [{"t": "bool", "v": False}, {"t": "npbool", "v": False}, {"t": "int", "v": 0}]
PV_TRUTHY_OTHER = [{"t": "int", "v": 2}, {"t": "int", "v": -1}] + [{"t": "other", "v": True, "py": k} for k in
                                                                  ("str", "list", "tuple", "dict", "float", "npint", "npfloat", "obj")]
PV_FALSY_OTHER = [{"t": "none"}] + [{"t": "other", "v": False, "py": k} for k in ("str", "list", "tuple", "dict", "float", "npint", "npfloat")]
CBV_P = 0.6           # share of the cases whose callback hands back something else than the plain True / False
HIST_P = 0.3          # share of the (small, in-layout) cases followed by further imports of the same path in the same process
EDIT_KINDS = ["setSize", "setPixel", "dropSpectrum", "clearSpectra", "addSpectrum", "setTic", "setPos", "setArrays", "setMz", "setInten",
              "setBin"]
SECT_TAGS = ["fileDescription", "softwareList", "instrumentConfigurationList", "dataProcessingList", "cvList", "sampleList"]


# cvParam line styles beyond gen_imzml's five (styles NSTYLES .. NSTYLES + XSTYLES - 1), all with accession before value:
XSTYLES = 4


def render_cv_x(it):
    """5: unit attributes BEFORE the accession (`unitAccession="UO:…"` is written with a capital A, so the regular expression's
    `accession="` does not occur in it); 6: nothing but accession and value; 7: explicit end tag on the same line; 8: tabs
    instead of blanks between the attributes"""
    a, v, n = it["acc"], it["value"], it.get("name", "p")
    cvref = a.split(":")[0]
    val = "" if v is None else f' value="{v}"'
    k = it["style"] - gen_imzml.NSTYLES
    if k == 0:
        return f'<cvParam unitCvRef="UO" unitAccession="UO:0000017" unitName="micrometer" cvRef="{cvref}" accession="{a}" name="{n}"{val}/>'
    if k == 1:
        return f'<cvParam accession="{a}"{val}/>'
    if k == 2:
        return f'<cvParam cvRef="{cvref}" accession="{a}" name="{n}"{val}></cvParam>'
    tv = "" if v is None else f'\tvalue="{v}"'
    return f'<cvParam\tcvRef="{cvref}"\taccession="{a}"\t\tname="{n}"{tv}\t/>'


def text_doc(doc):
    """the document as the text writer sees it: cvParam items of the extra styles become verbatim lines (the driver keeps
    seeing them as cvParam items)"""
    def conv(items):
        return [gen_imzml.misc(render_cv_x(it)) if it["t"] == "cv" and gen_imzml.NSTYLES <= it.get("style", 0) < gen_imzml.NSTYLES + XSTYLES
                else it for it in items]

    out = dict(doc)
    for k in ("pre", "mid1", "mid2", "post"):
        out[k] = [{**sct, "items": conv(sct["items"])} for sct in doc[k]]
    out["groups"] = [{**g, "items": conv(g["items"])} for g in doc["groups"]]
    out["settings"] = [{**st, "items": conv(st["items"])} for st in doc["settings"]]
    out["spectra"] = [{**sp, "items": conv(sp["items"]), "scanlist": conv(sp["scanlist"]), "scans": [conv(sc) for sc in sp["scans"]],
                       "arrays": [{**a, "items": conv(a["items"])} for a in sp["arrays"]], "tail": conv(sp["tail"])}
                      for sp in doc["spectra"]]
    return out


def render_kinds(doc):
    return [t for _, t in gen_imzml.render_lines(doc)]


def ftok(v):
    return None if v is None else core.tok(float(v))


def canon_imz(imz):
    ss = imz.scan_settings
    spectra = {}
    for (x, y), s in imz.spectra.items():
        spectra[f"{int(x)},{int(y)}"] = {"pos": [int(s.pos[0]), int(s.pos[1])], "tic": ftok(s.tic),
                                         "offsets": {k: int(v) for k, v in s.offsets.items()},
                                         "lengths": {k: int(v) for k, v in s.lengths.items()}}
    grp = lambda g: {"id": g.id, "dtype": np.dtype(g.dtype).name, "external": bool(g.external)}
    return {"size": None if ss.image_size is None else [int(ss.image_size[0]), int(ss.image_size[1])],
            "pixel": [ftok(ss.pixel_size[0]), ftok(ss.pixel_size[1])],
            "mz": grp(imz.mz_params), "inten": grp(imz.intensity_params), "spectra": spectra}


def canon_model(res):
    """driver result -> the same canonical form (int()/float() of the selected attribute texts; a text int()/float() reject
    is the ValueError both parsers raise there)"""
    if res is None:
        return {"raises": "no-model"}
    if "raises" in res:
        return {"raises": "Warning" if res["raises"] == "UserWarning" else res["raises"]}
    m = res["ok"] if "ok" in res else res
    try:
        spectra = {}
        for s in m["spectra"]:
            x, y = int(s["x"]), int(s["y"])
            offsets, lengths = {}, {}
            for k, o, l in s["arrays"]:
                offsets[k] = int(o)
                lengths[k] = int(l)
            spectra[f"{x},{y}"] = {"pos": [x, y], "tic": None if s["tic"] is None else ftok(float(s["tic"])),
                                   "offsets": offsets, "lengths": lengths}
        grp = lambda g: {"id": g["id"], "dtype": DTYPE_NAME[g["dtype"]], "external": g["external"]}
        return {"size": None if m["size"] is None else [int(m["size"][0]), int(m["size"][1])],
                "pixel": [ftok(float(m["pixel"][0])), ftok(float(m["pixel"][1]))],
                "mz": grp(m["mz"]), "inten": grp(m["inten"]), "spectra": spectra}
    except ValueError:
        return {"raises": "ValueError"}


def first_conversion_failure(m):
    """for a model whose texts are raw (entity cases): where the fast parser's int()/float() fail first, in the order the
    code converts: the scan settings (before any spectrum: -1), else the index of the first spectrum with a text that does not
    convert (its arrays' offsets/lengths, then position and TIC); None when every text converts"""
    def bad(f, t):
        try:
            f(t)
            return False
        except ValueError:
            return True

    if (m["size"] is not None and (bad(int, m["size"][0]) or bad(int, m["size"][1]))) or bad(float, m["pixel"][0]) or bad(float, m["pixel"][1]):
        return -1
    for j, s in enumerate(m["spectra"]):
        if any(bad(int, o) or bad(int, l) for _, o, l in s["arrays"]) or bad(int, s["x"]) or bad(int, s["y"]) \
                or (s["tic"] is not None and bad(float, s["tic"])):
            return j
    return None


def canon_exc(e):
    return {"raises": "Warning" if isinstance(e, Warning) else type(e).__name__}


def rat_cell(v):
    return core.rat(float(v)) if math.isfinite(float(v)) else repr(float(v))


def exact_images(m):
    """image size, TIC image and mass-window image of an ImzML object as exact rationals (NaN pixel = None)"""
    size = m.image_size
    tic = np.asarray(m.extract_tic(), dtype=np.float64)
    mass = np.asarray(m.extract_masses(np.array(MASSES), mass_width_mz=MASS_WIDTH))
    return {"size": [int(size[0]), int(size[1])],
            "tic": [[None if math.isnan(v) else rat_cell(v) for v in row] for row in tic],
            "mass": [[None if np.isnan(px).all() else [rat_cell(v) for v in px] for px in row] for row in mass]}


def has_non_ascii(doc):
    return not gen_imzml.render(doc).isascii()


def img_tokens(a):
    a = np.asarray(a, dtype=np.float64)
    return {"shape": list(a.shape), "data": [core.tok(v) if not math.isnan(v) else "nan" for v in a.ravel()]}


class C17(Prop):
    id = "C17"
    anchored = ["src/pewlib/io/imzml.py"]
    cases = {"quick": 1200, "thorough": 20000}
    rule = ("documents of the layout predicate `Pew.FastParse.Layout` (decided by the driver for every case): 1..7 spectra in any "
            "order incl. repeated positions and positions/offsets with many digits, TIC absent or written as integer/decimal/"
            "exponent/signed text, image size present or absent, 1..3 scanSettings, extra param groups, extra cvParam/userParam/"
            "ref lines in every element (any accession the enclosing parser does not read), noise sections that repeat the read "
            "accessions, five cvParam attribute orders, four indentations, trailing blanks, LF and CRLF line ends, array groups in either "
            "order, 32/64-bit and integer type declarations; non-ASCII UTF-8 text in cvParam/userParam name attributes (feature "
            "`non-ascii-text`, about 8 % of the documents, only under a UTF-8 locale); the progress callback returns False at a random "
            "invocation or never, and the file positions it receives are compared with `callPositions` exactly; "
            "large documents (feature `large-document`: 1000..3000 spectra of 1-2 peaks over a 30..90 pixel wide image in raster/column/"
            "reverse/shuffled order, light per-spectrum noise, so that one <spectrum> block is far below 1/1024 of the file; half of them "
            "with CRLF line ends) with the callback False at the first, a middle, the last, a random spectrum or never: one fixed document "
            "x these five callbacks plus three CRLF / non-ASCII variants in every run, plus about 1 in 1700 (thorough; 1 in 2500 quick) "
            "generated cases. For documents with binary data the image size, the TIC image and a two-window mass image of both parsers' "
            "objects are compared exactly with the driver's `imageSizeOf`/`ticImageOf`/`massImageOf` of the model (integer intensities, "
            "dyadic m/z, finite TIC texts). About 4 % of the cases are hypothesis-excluded (`entity:value`, `entity:ref`, "
            "`entity:group-id`: a character reference such as `1&#48;`, `mz&#65;rray`, `&#x31;` in a read value, a ref or a group id; "
            "`TextOk` fails): there only impl = model is demanded, fast parser against `fastParse (render d)` on the raw text, XML parser "
            "against `xmlView (xmlDoc d)`. The object the progress callback hands back (features `callback-object:*`, 60 % of the cases "
            "something else than plain True/False): bool, numpy.bool_ (what `pos < np.int64(limit)` gives), int 1/0 - decided by the "
            "property (`PyVal.isFalse` aborts, `PyVal.isTrue` does not) - and other truthy objects (2, -1, str, list, tuple, dict, float, "
            "NumPy scalars, object()) / falsy objects that are not False (None, '', [], (), {}, 0.0, NumPy zeros), for which every outcome "
            "of `okOutcomes` is accepted (recorded only); at the first / a middle / the last / a random spectrum or never. Histories "
            "(feature `history`, 30 % of the small in-layout cases + 8 targeted): after the three imports of every case (fast, XML, fast "
            "with callback) the same path is imported 1-3 more times in the same process through either parser (`from_file`, "
            "`fast_parse_imzml` with and without callback, aborted or not), with the case's binary or a second binary of the same layout "
            "and other content (passed explicitly or by default), while the caller edits the objects it holds in between (image size, "
            "pixel size, deleting / adding / clearing spectra, TIC, position, offsets and lengths, the two param groups, the binary "
            "path; one of every kind in a quarter of the histories): every import is judged against `runOps` / the XML model of the "
            "document with the binary given to THAT import (model fields, which binary the object reads, exact images). Every public "
            "extraction function (extract_tic, extract_masses by m/z and by ppm width, mass_range, binned_masses) is run on both "
            "parsers' objects of every case with data and compared bit for bit. "
            "non-trivial = any of these layout-noise classes; distinct by canonical case hash")
    trusted = ["xml.etree.ElementTree and `re` behave as documented (the model's `reSearch` is a hand-written matcher for the one "
               "regular expression of the parser); the text of every generated file is classified line by line by the model's "
               "`tokenise` (str.strip, startswith, find, the regular expression, on characters) and must agree with the abstract lines "
               "rendered from the document description up to `Line.norm` (else internal error); the mechanism model runs on the "
               "tokenised text",
               "int()/float() of the selected attribute text is applied by the harness to the model's output (both parsers call the same functions)",
               "the conversions of the image functions are the model's: `pyNat` (int() of a digit text), `pyFloat` (float() of a decimal "
               "text = the nearest binary64, assuming CPython's correctly rounded conversion) and C05's `readValues` on the bytes of the "
               ".ibd the harness wrote (sent as hex); where one of them does not apply (`convertible` false: signs, blanks, inf, a "
               "buffer NumPy rejects) the exact image comparison is skipped and only fast image == XML image is demanded",
               "callback objects: the harness maps the Python object to its abstract form (kind, value / truth value); for `other` objects "
               "the truth value is Python's bool() of the object",
               "histories: the Python statements of the caller edits (harness) and `Edit.apply` (model) are not compared with each other; "
               "the objects are observed when an import returns them, not afterwards",
               "hypothesis-excluded entity cases: the model keeps numbers as text, so WHERE int()/float() of a raw text such as `1&#48;` "
               "raises (scan settings: before any callback; spectrum j: after invocation j) is worked out by the harness from the model's "
               "texts in the order the code converts them"]
    assumptions = ["at least one <spectrum> (with none the fast parser treats <spectrumList> as a spectrum and raises KeyError)",
                   "a TIC cvParam carries a value attribute; attribute texts contain no quote, '<' or the text 'value=' (and, inside the "
                   "layout, no '&': `TextOk`)",
                   "the `compressed` flag is not compared (the property does not list it; the two parsers always disagree on it)",
                   "file positions: `fast_parse_imzml` opens the file in text mode with the locale encoding; for UTF-8 (and any "
                   "ASCII-compatible single-byte encoding on ASCII content) the tell() cookie at a line end equals the byte offset, for LF "
                   "and CRLF line ends; the line lengths given to the model are byte lengths of the UTF-8 text. Non-ASCII text is only "
                   "generated (and only kept in a replayed case) when locale.getpreferredencoding(False) is UTF-8",
                   "the exact images are compared only when every TIC text is finite, intensities are integers and m/z values dyadic "
                   "(sums exact in float32/float64) and positions lie inside the image; otherwise only fast image == XML image",
                   "'a callback returning False' is read as: the returned object is False, numpy.False_ or the int 0 (all equal to False); "
                   "'not False' for certain: True, numpy.True_, 1.  For any other object (None, 2, 'x', 0.0, ...) the text demands neither "
                   "abort nor continuation: the unchanged code aborts on every falsy object, a code that aborts only on objects equal to "
                   "False is not reported (recorded only)",
                   "which binary a returned object reads is observed through `external_binary` (os.path.samefile) and through the images"]

    # ------------------------------------------------------------------ generation
    def noise(self, rng, avoid, n=None, refs_ok=True):
        out = []
        for _ in range(rng.choice([0, 0, 1, 1, 2, 3]) if n is None else n):
            r = rng.random()
            if r < 0.6:
                pool = [a for a in NOISE_ACCS + (ALL_READ if rng.random() < 0.5 else []) if a not in avoid]
                out.append(cv(rng.choice(pool), rng.choice(NOISE_VALUES), self.sty(rng), rng.choice(NAMES)))
            elif r < 0.85:
                out.append(user(rng.choice(["3DPositionX", "note", "accession"]), rng.choice(["2975.78", "a b", "1e+3"])))
            elif refs_ok:
                out.append(ref(rng.choice(["spectrum", "scan1", "mzArray"])))
            else:
                out.append(misc("<!-- note -->"))
        return out

    def mix(self, rng, required, extra):
        items = list(required) + list(extra)
        if rng.random() < 0.7:
            rng.shuffle(items)
        return items

    def sty(self, rng):
        return rng.randint(0, gen_imzml.NSTYLES + XSTYLES - 1)

    def num(self, rng, big=False):
        if big or rng.random() < 0.1:
            return str(rng.randint(10 ** 12, 10 ** 24))
        v = rng.randint(0, 5000)
        return ("%05d" % v) if rng.random() < 0.1 else str(v)

    def tic_text(self, rng):
        v = rng.choice([52676.0, 1.5e6, 0.0, 7.25, 1234567.875, 3e-3])
        if rng.random() < 0.04:          # texts float() turns into something that is not a finite number
            return rng.choice(["inf", "nan", "1e400", "-Infinity"])
        forms = [None, None, "%d" % int(v), "%.6f" % v, "%.6e" % v, "%E" % v, "-%.3e" % v, "+%d" % int(v), "%g" % v,
                 "%d." % int(v), "%.17g" % (v / 3), "%.3e" % (v * 1e-300)]      # (no blanks inside a read value: no exporter writes them)
        return rng.choice(forms)

    def generate(self, rng, tier):
        # the large-document class is decided on a fork of the case PRNG, so every other case is drawn exactly as before
        fork = random.Random()
        fork.setstate(rng.getstate())
        if fork.random() < LARGE_P[tier]:
            return self.decorate(self.gen_doc(fork, tier, large=fork.randint(LARGE_MIN, LARGE_MAX)), fork)
        return self.decorate(self.gen_doc(rng, tier), rng)

    def decorate(self, case, rng):
        """drawn after the document, so the document classes keep their distribution: non-ASCII names (in-layout noise), the
        hypothesis-excluded entity classes, the objects the callback hands back, and a history of further imports"""
        r = rng.random()
        large = len(case["doc"]["spectra"]) >= LARGE_MIN
        if r < NON_ASCII_P:
            if UTF8_LOCALE:
                case["non_ascii"] = rng.randint(0, 10 ** 6)
        elif r < NON_ASCII_P + ENTITY_P and not large:
            case["entity"] = {"kind": rng.choice(ENTITY_KINDS), "pick": rng.randint(0, 10 ** 6), "form": rng.choice(["dec", "hex", "dec0"])}
        more = random.Random(rng.getrandbits(64))          # (the draws above stay what they were)
        if more.random() < 0.1:
            case["text"] = {"bom": more.random() < 0.5, "no_final_newline": more.random() < 0.6}
        if more.random() < 0.05 and not large:
            case["long_lines"] = {"seed": more.randint(0, 10 ** 6), "len": more.choice([300, 5000, 9000, 70000])}
        cbv = self.gen_cbv(more, decided_only=large)
        if cbv is not None:
            case["cbv"] = cbv
        if not large and case.get("entity") is None and more.random() < (HIST_P * 1.5 if case["data"] is not None else HIST_P / 2):
            case["hist"] = self.gen_hist(more, case)
        return case

    def gen_cbv(self, rng, decided_only=False):
        """which objects the callback hands back; None = plain True / False"""
        r = rng.random()
        if r >= CBV_P:
            return None
        r /= CBV_P
        if r < 0.3:
            return {"t": PV_TRUE[1], "f": PV_FALSE[1]}                 # numpy.bool_, as `pos < np.int64(limit)` gives
        if r < 0.45:
            return {"t": PV_TRUE[2], "f": PV_FALSE[2]}                 # 1 / 0
        if r < 0.7 or decided_only:
            return {"t": rng.choice(PV_TRUE), "f": rng.choice(PV_FALSE)}
        if r < 0.85:                                                   # a truthy object that is not True
            return {"t": rng.choice(PV_TRUTHY_OTHER), "f": rng.choice(PV_FALSE)}
        return {"t": rng.choice(PV_TRUE), "f": rng.choice(PV_FALSY_OTHER)}      # None, "", 0.0 ... : falsy, not False

    def gen_edit(self, rng, kind, nspec):
        i = rng.randint(0, max(0, nspec - 1))
        arrays = [[rng.choice(["mzArray", "intensities", "extra"]), str(rng.randint(0, 64)), str(rng.choice([0, 4, 8, 16]))]
                  for _ in range(rng.randint(0, 2))]
        grp = {"id": rng.choice(["mzArray", "intensities", "x"]), "dtype": rng.choice(BIN_TYPES), "external": rng.random() < 0.5}
        return {"setSize": {"k": kind, "size": rng.choice([None, None, [str(rng.randint(1, 9)), str(rng.randint(1, 9))]])},
                "setPixel": {"k": kind, "pixel": [rng.choice(["1", "2.5"]), rng.choice(["1", "1e3"])]},
                "dropSpectrum": {"k": kind, "i": i}, "clearSpectra": {"k": kind},
                "addSpectrum": {"k": kind, "spec": {"x": str(rng.randint(1, 4)), "y": str(rng.randint(1, 4)),
                                                    "tic": rng.choice([None, "5.5"]), "arrays": arrays}},
                "setTic": {"k": kind, "i": i, "tic": rng.choice([None, "123.5", "0"])},
                "setPos": {"k": kind, "i": i, "x": str(rng.randint(1, 3)), "y": str(rng.randint(1, 3))},
                "setArrays": {"k": kind, "i": i, "arrays": arrays},
                "setMz": {"k": kind, "group": grp}, "setInten": {"k": kind, "group": grp},
                "setBin": {"k": kind, "bin": rng.randint(0, 1)}}[kind]

    def gen_edits(self, rng, nspec, nheld):
        """edits of the objects the caller holds: a few, or one of every kind ("every mutable place")"""
        r = rng.random()
        kinds = [] if r < 0.25 else list(EDIT_KINDS) if r < 0.5 else rng.sample(EDIT_KINDS, rng.randint(1, 4))
        if len(kinds) == len(EDIT_KINDS):
            rng.shuffle(kinds)
        # mostly the object returned last (index -1 = the newest), sometimes an older one
        return [{"obj": (nheld - 1) if rng.random() < 0.7 else rng.randint(0, max(0, nheld - 1)), "edit": self.gen_edit(rng, k, nspec)}
                for k in kinds]

    def gen_hist(self, rng, case):
        nspec = len(case["doc"]["spectra"])
        steps = []
        held = 3        # the three imports every case makes (the callback one may have been aborted: indices are taken modulo)
        pre = self.gen_edits(rng, nspec, 1) if rng.random() < 0.6 else []      # edits of the first object (fast parser, binary 0)
        for _ in range(rng.choice([1, 2, 2, 3])):
            st = {"parser": rng.choice(["fast", "fast", "fast", "xml"]), "ibd": rng.choice([0, 1, 1]), "explicit": rng.random() < 0.5,
                  "strpath": rng.random() < 0.3}
            if st["parser"] == "fast":
                r = rng.random()
                if r < 0.25:
                    st["cb"] = True
                    st["abort"] = rng.choice([None, 0, nspec - 1, rng.randint(0, nspec - 1)])
                    cbv = self.gen_cbv(rng, decided_only=True)
                    if cbv is not None:
                        st["cbv"] = cbv
                else:
                    st["api"] = "function" if r < 0.5 else "from_file"
            held += 1
            st["edits"] = self.gen_edits(rng, nspec, held)
            steps.append(st)
        return {"variant": rng.randint(0, 10 ** 6), "pre_edits": pre, "steps": steps}

    def gen_doc(self, rng, tier, large=None):
        """`large` = number of spectra of a large document (1000+ spectra of 1-2 peaks over a large image, light per-spectrum
        noise so the document stays a few MB); None = the small classes"""
        imageable = rng.random() < 0.5
        nspec = rng.choice([1, 1, 2, 2, 3, 4, 7])
        mzdt, itdt = rng.choice(["f4", "f8"]), rng.choice(["f4", "f8"])
        light = (lambda: rng.choice([0, 0, 0, 1])) if large is not None else (lambda: None)
        # ---- spectra
        if large is not None:
            nspec = large
            X = rng.randint(30, 90)
            Y = -(-nspec // X) + rng.randint(0, 4)
            cells = [(x, y) for y in range(1, Y + 1) for x in range(1, X + 1)]      # raster order
            order = rng.choice(["raster", "columns", "reverse", "shuffled"])
            pos = rng.sample(cells, nspec) if order == "shuffled" else sorted(rng.sample(cells, nspec), key=lambda c: (c[1], c[0]))
            if order == "columns":
                pos.sort()
            elif order == "reverse":
                pos.reverse()
            data = []
            for _ in pos:
                mz = sorted({rng.randint(6400, 9600) / 64 for _ in range(rng.randint(1, 2))})
                data.append({"mz": mz, "it": [float(rng.randint(0, 500)) for _ in mz]})
            mz_acc, it_acc = gen_imzml.DTYPE_ACC[mzdt], gen_imzml.DTYPE_ACC[itdt]
            size = [str(X), str(Y)] if rng.random() < 0.7 else None
            posn = [(str(x), str(y)) for x, y in pos]
        elif imageable:
            X, Y = rng.randint(1, 3), rng.randint(1, 3)
            cells = [(x, y) for x in range(1, X + 1) for y in range(1, Y + 1)]
            pos = [rng.choice(cells) for _ in range(nspec)] if rng.random() < 0.2 else rng.sample(cells, min(nspec, len(cells)))
            data = []
            for _ in pos:
                n = rng.choice([0, 1, 1, 2, 2, 3, 3, 4, 4, 5, 5, 5])        # (0: a spectrum without peaks, both array lengths 0)
                mz = sorted({rng.randint(6400, 9600) / 64 for _ in range(n)})
                data.append({"mz": mz, "it": [float(rng.randint(0, 500)) for _ in mz]})
            mz_acc, it_acc = gen_imzml.DTYPE_ACC[mzdt], gen_imzml.DTYPE_ACC[itdt]
            size = [str(X), str(Y)] if rng.random() < 0.7 else None
            posn = [(str(x), str(y)) for x, y in pos]
        else:
            data = None
            mz_acc, it_acc = rng.choice(BIN_TYPES), rng.choice(BIN_TYPES)
            size = [self.num(rng), self.num(rng)] if rng.random() < 0.6 else None
            posn = [(self.num(rng), self.num(rng)) for _ in range(nspec)]
            if nspec > 1 and rng.random() < 0.2:
                posn[-1] = posn[0]
        spectra = []
        for i, (x, y) in enumerate(posn):
            tic = self.tic_text(rng)
            avoid = READ_SPECTRUM
            direct = [] if tic is None else [cv(ACC["TIC"], tic, self.sty(rng), "total ion current")]
            tail_has_tic = tic is not None and rng.random() < 0.15
            scan0 = self.mix(rng, [cv(ACC["POS_X"], x, self.sty(rng), "position x"), cv(ACC["POS_Y"], y, self.sty(rng), "position y")],
                             self.noise(rng, avoid, n=light()))
            scans = [scan0] + [self.noise(rng, avoid, n=light()) for _ in range(rng.choice([0, 0, 0, 1, 2] if large is None else [0, 0, 0, 0, 1]))]
            arrays = []
            names = ["mzArray", "intensities"]
            if rng.random() < 0.3:
                names.reverse()
            if rng.random() < 0.1:
                names.append("extra")
            for nm in names:
                arrays.append({"name": nm, "offset": self.num(rng, big=rng.random() < 0.1), "length": self.num(rng),
                               "style": self.sty(rng), "extra": self.noise(rng, READ_ARRAY, n=light(), refs_ok=False),
                               "shuffle": rng.randint(0, 10 ** 6) if rng.random() < 0.6 else None})
            spectra.append({"items": self.mix(rng, [] if tail_has_tic else direct, self.noise(rng, avoid, n=light())),
                            "scanlist": self.noise(rng, avoid, n=light()), "scans": scans, "arrays": arrays,
                            "tail": self.mix(rng, direct if tail_has_tic else [], self.noise(rng, avoid, n=rng.choice([0, 0, 1])))})
        # ---- groups
        def group(gid, arr_acc, dt_acc):
            req = [cv(arr_acc, rng.choice([None, None, ""]), self.sty(rng), "array"), cv(dt_acc, None, self.sty(rng), "type")]
            if rng.random() < 0.8:
                req.append(cv(ACC["EXTERNAL_DATA"], rng.choice(["true", None]), self.sty(rng), "external data"))
            avoid = BIN_TYPES + ["MS:1000568", ACC["MZ_ARRAY"], ACC["INTENSITY_ARRAY"]]
            return {"id": gid, "items": self.mix(rng, req, self.noise(rng, avoid))}

        groups = [group("mzArray", ACC["MZ_ARRAY"], mz_acc), group("intensities", ACC["INTENSITY_ARRAY"], it_acc)]
        for _ in range(rng.choice([0, 1, 1, 2])):
            groups.append({"id": rng.choice(["spectrum", "scan1", "mzArray2", "", "intensitiesX"]),
                           "items": self.noise(rng, [ACC["MZ_ARRAY"], ACC["INTENSITY_ARRAY"]], n=rng.randint(0, 3))})
        rng.shuffle(groups)
        # ---- scan settings
        settings = []
        nset = rng.choice([1, 1, 1, 2, 3, 3, 6])
        same = rng.random() < 0.3          # all <scanSettings> say the same
        for k in range(nset):
            if same and k > 0:
                settings.append({"id": "scanSettings%d" % k, "items": copy.deepcopy(settings[0]["items"])})
                continue
            req = [cv(ACC["PIXEL_X"], rng.choice(["30", "100.5", "1e2", "2.5E+1", "0.5"]), self.sty(rng), "pixel size (x)"),
                   cv(ACC["PIXEL_Y"], rng.choice(["30", "100.5", "1e-2", "7"]), self.sty(rng), "pixel size y")]
            sz = size if k == 0 else ([self.num(rng), self.num(rng)] if rng.random() < 0.5 else None)
            if sz is not None:
                req += [cv(ACC["SIZE_X"], sz[0], self.sty(rng), "max count of pixels x"), cv(ACC["SIZE_Y"], sz[1], self.sty(rng), "max count of pixels y")]
            elif rng.random() < 0.3:  # only one of the two: both parsers must report no size
                req.append(cv(rng.choice([ACC["SIZE_X"], ACC["SIZE_Y"]]), "4", self.sty(rng), "max count"))
            settings.append({"id": "scanSettings%d" % k, "items": self.mix(rng, req, self.noise(rng, READ_SETTINGS))})

        def sects():
            return [{"tag": rng.choice(SECT_TAGS), "items": self.noise(rng, [], n=rng.randint(0, 4))} for _ in range(rng.choice([0, 0, 1, 2]))]

        abort = None
        nspec = len(spectra)
        if large is not None:     # False at the first, a middle, the last, a random spectrum, or never
            abort = rng.choice([None, 0, nspec // 2, nspec - 1, rng.randint(0, nspec - 1)])
        elif rng.random() < 0.4:
            abort = rng.choice([0, nspec - 1, rng.randint(0, nspec - 1)])
        indent, trail = rng.choice(["", "  ", "\t", "    ", " "]), rng.choice(["", "", "", " ", "\t ", "\r"])
        if large is not None and rng.random() < 0.5:     # half of the large documents use CRLF line ends
            trail = rng.choice(["\r", "\r", " \r"])
        return {"doc": {"decl": rng.random() < 0.8, "indent": indent,
                        "trail": trail,
                        "pre": sects(), "mid1": sects(), "mid2": sects(), "post": sects(),
                        "settings_first": rng.random() < 0.3, "groups": groups, "settings": settings, "spectra": spectra},
                "data": data, "mzdt": mzdt, "itdt": itdt, "abort": abort, "pad": rng.randint(0, 10 ** 6)}

    def targeted(self, tier):
        rng = random.Random(17)
        for tic in ("1.500000e+06", "-2.5E-3", "+7", "52676.000000", None):
            c = self.gen_doc(random.Random(5), tier)
            for s in c["doc"]["spectra"]:
                s["items"] = [] if tic is None else [cv(ACC["TIC"], tic, 1, "total ion current")]
                s["tail"] = []
            c["abort"] = None
            yield c
        for k in range(3):
            c = self.gen_doc(rng, tier)
            c["abort"] = k % max(1, len(c["doc"]["spectra"]))
            yield c
        # one large document, the callback returning False never / at the first / a middle / the last / a random spectrum
        c = self.gen_doc(random.Random(1017), tier, large=2048)
        c["doc"]["trail"] = c["doc"]["trail"].replace("\r", "")          # LF here, CRLF below
        # (the callback compares with a NumPy integer in the third, hands back 1 / 0 in the fourth)
        for ab, cbv in ((None, None), (0, None), (1024, {"t": PV_TRUE[1], "f": PV_FALSE[1]}), (2047, {"t": PV_TRUE[2], "f": PV_FALSE[2]}),
                        (random.Random(1018).randint(1, 2046), None)):
            yield {**c, "abort": ab, **({} if cbv is None else {"cbv": cbv})}
        # the same document with CRLF line ends (tell() across \r|\n chunk boundaries), and with non-ASCII names
        crlf = {**c, "doc": {**c["doc"], "trail": "\r"}}
        yield {**crlf, "abort": None}
        yield {**crlf, "abort": random.Random(1019).randint(1, 2046), **({"non_ascii": 7} if UTF8_LOCALE else {})}
        yield {**c, "abort": 1500, **({"non_ascii": 11} if UTF8_LOCALE else {})}
        # every pair of decided objects at the first / a middle / the last spectrum, and never; the undecided ones once each
        k = 0
        for tv in PV_TRUE:
            for fv in PV_FALSE:
                c2 = self.gen_doc(random.Random(500 + k), tier)
                n = len(c2["doc"]["spectra"])
                for ab in sorted({None, 0, n // 2, n - 1}, key=lambda v: -1 if v is None else v):
                    yield {**c2, "abort": ab, "cbv": {"t": tv, "f": fv}}
                k += 1
        for j, v in enumerate(PV_TRUTHY_OTHER):
            c2 = self.gen_doc(random.Random(600 + j), tier)
            yield {**c2, "abort": [None, len(c2["doc"]["spectra"]) - 1][j % 2], "cbv": {"t": v, "f": PV_FALSE[j % 3]}}
        for j, v in enumerate(PV_FALSY_OTHER):
            c2 = self.gen_doc(random.Random(700 + j), tier)
            yield {**c2, "abort": j % len(c2["doc"]["spectra"]), "cbv": {"t": PV_TRUE[j % 3], "f": v}}
        # histories: the document imported again by the fast parser with the other binary; after the caller removed the image size
        # and a spectrum from the first object; after an aborted import; through both parsers; every kind of edit
        for j in range(8):
            rj = random.Random(800 + j)
            c2 = self.gen_doc(rj, tier)
            while c2["data"] is None:
                c2 = self.gen_doc(rj, tier)
            c2["abort"] = [None, 0][j % 2]
            n = len(c2["doc"]["spectra"])
            every = [{"obj": 0, "edit": self.gen_edit(rj, kd, n)} for kd in EDIT_KINDS]
            some = [{"obj": 0, "edit": {"k": "setSize", "size": None}}, {"obj": 0, "edit": {"k": "dropSpectrum", "i": 0}}]
            steps = [[{"parser": "fast", "ibd": 1, "api": "from_file", "edits": []}],
                     [{"parser": "fast", "ibd": 0, "api": "from_file", "edits": []}],
                     [{"parser": "fast", "ibd": 1, "api": "function", "edits": every}, {"parser": "fast", "ibd": 0, "explicit": True, "edits": []}],
                     [{"parser": "fast", "ibd": 1, "cb": True, "abort": 0, "edits": []}, {"parser": "fast", "ibd": 1, "api": "function", "edits": []},
                      {"parser": "xml", "ibd": 1, "edits": []}],
                     [{"parser": "xml", "ibd": 1, "edits": some}, {"parser": "fast", "ibd": 1, "edits": some}, {"parser": "xml", "ibd": 0, "edits": []}],
                     [{"parser": "fast", "ibd": 0, "cb": True, "abort": None, "cbv": {"t": PV_TRUE[1], "f": PV_FALSE[1]}, "edits": every},
                      {"parser": "fast", "ibd": 0, "api": "function", "edits": []}],
                     [{"parser": "fast", "ibd": 1, "api": "from_file", "edits": some}, {"parser": "fast", "ibd": 1, "api": "from_file", "edits": []}],
                     [{"parser": "fast", "ibd": 0, "cb": True, "abort": n - 1, "edits": []}, {"parser": "fast", "ibd": 0, "api": "from_file", "edits": []}]][j]
            yield {**c2, "hist": {"variant": 900 + j, "pre_edits": [[], some, every, [], some, every, [], some][j], "steps": steps}}
        # small documents: non-ASCII names with LF and CRLF, each entity class in both forms
        for k, tr in enumerate(("", "\r", "\t ")):
            c2 = self.gen_doc(random.Random(300 + k), tier)
            yield {**c2, "doc": {**c2["doc"], "trail": tr}, **({"non_ascii": k} if UTF8_LOCALE else {})}
        for k, kind in enumerate(["value", "ref", "group-id"] * 4):
            c2 = self.gen_doc(random.Random(400 + k), tier)
            yield {**c2, "entity": {"kind": kind, "pick": 31 * k + 5, "form": ["dec", "hex", "dec0"][k % 3]},
                   "abort": [None, 0, len(c2["doc"]["spectra"]) - 1][k % 3]}

    # ------------------------------------------------------------------ evaluation
    @staticmethod
    def item_lists(doc):
        for k in ("pre", "mid1", "mid2", "post"):
            for sct in doc[k]:
                yield sct["items"]
        for g in doc["groups"]:
            yield g["items"]
        for st in doc["settings"]:
            yield st["items"]
        for sp in doc["spectra"]:
            yield sp["items"]
            yield sp["scanlist"]
            yield from sp["scans"]
            for a in sp["arrays"]:
                yield a["items"]
            yield sp["tail"]

    def with_non_ascii(self, doc, seed):
        """non-ASCII names on about a third of the cvParam/userParam lines (at least one)"""
        doc = copy.deepcopy(doc)
        rng = random.Random(seed)
        named = [it for items in self.item_lists(doc) for it in items if it["t"] in ("cv", "user")]
        hit = [it for it in named if rng.random() < 0.3] or named[:1]
        for it in hit:
            it["name"] = rng.choice(NAMES_NON_ASCII)
        return doc

    def with_long_lines(self, doc, ll):
        """very long lines (longer than the 8 KiB read-ahead chunk of the text layer): a long name attribute on a few
        cvParam / userParam lines, one of them inside a spectrum when there is one"""
        doc = copy.deepcopy(doc)
        rng = random.Random(ll["seed"])
        named = [it for items in self.item_lists(doc) for it in items if it["t"] in ("cv", "user")]
        inspec = [it for sp in doc["spectra"] for items in [sp["items"], sp["tail"]] + sp["scans"] for it in items if it["t"] in ("cv", "user")]
        for it in (rng.sample(named, min(2, len(named))) + (rng.sample(inspec, 1) if inspec else [])):
            block = "".join(rng.choice("abc xyz_.-()=") for _ in range(61))
            it["name"] = (it.get("name", "p") + " ") + (block * (ll["len"] // 61 + 1))[:ll["len"]]
        return doc

    def with_entity(self, doc, ent):
        """one character of a read value / a ref / a group id written as a character reference; returns (doc, feature or None)"""
        doc = copy.deepcopy(doc)
        kind = ent["kind"]
        slots = []          # (dict, key)
        if kind == "value":
            st0 = [it for it in doc["settings"][0]["items"] if it["t"] == "cv"]
            both = all(sum(1 for it in st0 if it["acc"] == a) == 1 for a in (ACC["SIZE_X"], ACC["SIZE_Y"]))
            for it in st0:
                if it["acc"] in (ACC["PIXEL_X"], ACC["PIXEL_Y"]) or (both and it["acc"] in (ACC["SIZE_X"], ACC["SIZE_Y"])):
                    slots.append((it, "value"))
            for sp in doc["spectra"]:
                for it in sp["scans"][0]:
                    if it["t"] == "cv" and it["acc"] in (ACC["POS_X"], ACC["POS_Y"]):
                        slots.append((it, "value"))
                for it in sp["items"] + sp["tail"]:
                    if it["t"] == "cv" and it["acc"] == ACC["TIC"]:
                        slots.append((it, "value"))
                for a in sp["arrays"]:
                    for it in a["items"]:
                        if it["t"] == "cv" and it["acc"] in READ_ARRAY:
                            slots.append((it, "value"))
        elif kind == "ref":
            for sp in doc["spectra"]:
                for items in [sp["items"], sp["scanlist"], sp["tail"]] + sp["scans"] + [a["items"] for a in sp["arrays"]]:
                    slots += [(it, "ref") for it in items if it["t"] == "ref"]
        elif kind == "group-id":
            slots = [(g, "id") for g in doc["groups"]]
        else:
            raise core.InternalError("bad entity kind %r" % (kind,))
        slots = [(o, k) for o, k in slots if o[k]]
        if not slots:
            return doc, None
        o, k = slots[ent["pick"] % len(slots)]
        text = o[k]
        i = (ent["pick"] // 101) % len(text)
        c = ord(text[i])
        r = {"dec": "&#%d;" % c, "hex": "&#x%x;" % c, "dec0": "&#%04d;" % c}[ent["form"]]
        o[k] = text[:i] + r + text[i + 1:]
        return doc, "entity:" + kind

    def materialise(self, case):
        """the concrete document: array items get their real offsets when the case carries binary data; then the non-ASCII
        names and the character reference of the hypothesis-excluded classes.  Returns (doc, ibd, entity feature or None)"""
        doc = {k: v for k, v in case["doc"].items() if k != "spectra"}
        ibd, metas = b"\x00" * 16, None
        if case["data"] is not None:
            ibd, metas = gen_imzml.layout_ibd(case["data"], case["mzdt"], case["itdt"], rng=random.Random(case["pad"]))
        spectra = []
        for i, s in enumerate(case["doc"]["spectra"]):
            arrays = []
            for a in s["arrays"]:
                off, length = a["offset"], a["length"]
                if metas is not None and a["name"] in ("mzArray", "intensities"):
                    m = metas[i]["mz" if a["name"] == "mzArray" else "it"]
                    off, length = str(m[0]), str(m[1])
                items = [ref(a["name"]), cv(ACC["ENCODED_LENGTH"], length, a["style"], "external encoded length"),
                         cv(ACC["OFFSET"], off, a["style"], "external offset"), misc("<binary/>")] + a["extra"]
                if a["shuffle"] is not None:
                    random.Random(a["shuffle"]).shuffle(items)
                arrays.append({"items": items})
            spectra.append({**s, "arrays": arrays})
        doc["spectra"] = spectra
        if case.get("non_ascii") is not None and UTF8_LOCALE:
            doc = self.with_non_ascii(doc, case["non_ascii"])
        elif not UTF8_LOCALE and has_non_ascii(doc):        # a replayed case under another locale: keep it decodable
            doc = copy.deepcopy(doc)
            for items in self.item_lists(doc):
                for it in items:
                    if "name" in it:
                        it["name"] = it["name"].encode("ascii", "replace").decode("ascii")
        if case.get("long_lines") is not None:
            doc = self.with_long_lines(doc, case["long_lines"])
        entity = None
        if case.get("entity") is not None:
            doc, entity = self.with_entity(doc, case["entity"])
        return doc, ibd, entity

    # ------------------------------------------------------------------ binaries
    @staticmethod
    def data_exact(data):
        """the exact image comparison applies to this binary content: integer intensities and dyadic m/z of moderate size, so
        that every float32/float64 sum NumPy forms is exact (the model sums rationals)"""
        if data is None:
            return False
        for sp in data:
            if any(v != int(v) or abs(v) > 2 ** 16 for v in sp["it"]) or any(v * 64 != int(v * 64) or not 0 < v < 2 ** 12 for v in sp["mz"]) \
                    or len(sp["mz"]) > 64:
                return False
        return True

    @staticmethod
    def variant_data(data, seed):
        """a second acquisition with the same layout (same number of peaks per spectrum, hence the same offsets and lengths)
        and other content: every m/z moved by a dyadic amount, every intensity replaced"""
        rng = random.Random(seed)
        out = []
        for sp in data:
            shift = rng.choice([0.5, 1.0, 2.25, 8.0])
            out.append({"mz": [m + shift for m in sp["mz"]], "it": [float((int(v) * 7 + 3 + rng.randint(0, 900)) % 60000) for v in sp["it"]]})
        return out

    def bin_req(self, data, ibd):
        """what the driver needs to realise the conversions of one external binary: its bytes.  None when the exact image
        comparison does not apply to this content"""
        if not self.data_exact(data):
            return None
        return {"ibd": ibd.hex(), "masses": [core.rat(m) for m in MASSES], "width_mz": core.rat(MASS_WIDTH)}

    # ------------------------------------------------------------------ callback objects
    @staticmethod
    def cb_values(case):
        """(object handed back at the invocations other than `abort`, object handed back at invocation `abort`) as
        descriptors; plain `True` / `False` when the case does not say"""
        cbv = case.get("cbv") or {}
        return cbv.get("t") or {"t": "bool", "v": True}, cbv.get("f") or {"t": "bool", "v": False}

    @staticmethod
    def py_obj(desc):
        """the Python object of a descriptor; its abstract form for the driver is (t, v)"""
        t = desc["t"]
        if t == "bool":
            obj = bool(desc["v"])
        elif t == "npbool":
            obj = np.bool_(desc["v"])
        elif t == "int":
            obj = int(desc["v"])
        elif t == "none":
            obj = None
        elif t == "other":
            v, py = bool(desc["v"]), desc.get("py", "str")
            obj = {"str": "go" if v else "", "list": [0] if v else [], "tuple": (0,) if v else (), "dict": {"a": 1} if v else {},
                   "float": 1.5 if v else 0.0, "npint": np.int64(3 if v else 0), "npfloat": np.float64(2.5 if v else 0.0),
                   "obj": object()}.get(py)
            if py not in ("str", "list", "tuple", "dict", "float", "npint", "npfloat", "obj") or bool(obj) != v:
                raise core.InternalError("bad callback object %r" % (desc,))
        else:
            raise core.InternalError("bad callback object %r" % (desc,))
        return obj

    @staticmethod
    def pv_abstract(desc):
        return {"t": desc["t"], "v": desc["v"]} if desc["t"] != "none" else {"t": "none"}

    def cb_req(self, case, abort):
        t, f = self.cb_values(case)
        return {"default": self.pv_abstract(t), "at": abort, "value": self.pv_abstract(f)}

    def make_callback(self, case, abort, calls):
        t, f = self.cb_values(case)
        tobj, fobj = self.py_obj(t), self.py_obj(f)

        def cb(pos):
            calls.append(int(pos))
            return fobj if abort is not None and len(calls) - 1 == abort else tobj
        return cb

    @staticmethod
    def allowed_callback(ok_outcomes, positions, want):
        """the behaviours the property allows: for outcome None the full model after every position, for outcome j the
        warning-type exception after positions 0..j"""
        return [{"result": want if a is None else {"raises": "Warning"}, "positions": positions if a is None else positions[:a + 1]}
                for a in ok_outcomes]

    # ------------------------------------------------------------------ extraction through the public functions
    @staticmethod
    def extraction(m, small):
        """every public extraction function of an ImzML object, bit-exact (NaN pixels as 'nan'); an exception as its class"""
        def run(f):
            try:
                with warnings.catch_warnings():
                    warnings.simplefilter("ignore")
                    r = f()
                if isinstance(r, tuple):
                    return [img_tokens(x) for x in r]
                return img_tokens(r)
            except Exception as e:
                return canon_exc(e)
        out = {"tic": run(m.extract_tic), "masses_mz": run(lambda: m.extract_masses(MASSES, mass_width_mz=MASS_WIDTH))}
        if small:       # (documents of a thousand spectra: the two above only, for time)
            out["masses_ppm"] = run(lambda: m.extract_masses(np.array(MASSES + [112.5]), mass_width_ppm=4e4))
            out["mass_range"] = run(lambda: np.array(m.mass_range(), dtype=np.float64))
            out["binned"] = run(lambda: m.binned_masses(mass_width_mz=2.5))
        return out

    @staticmethod
    def size_of(m):
        try:
            sz = m.image_size
            return [int(sz[0]), int(sz[1])]
        except Exception as e:
            return canon_exc(e)

    # ------------------------------------------------------------------ histories
    def apply_edit(self, imzml, o, e, ibd_paths):
        """the Python statement of one caller edit of a returned object"""
        k = e["k"]
        vals = list(o.spectra.values())
        if k == "setSize":
            o.scan_settings.image_size = None if e["size"] is None else (int(e["size"][0]), int(e["size"][1]))
        elif k == "setPixel":
            o.scan_settings.pixel_size = (float(e["pixel"][0]), float(e["pixel"][1]))
        elif k == "dropSpectrum":
            if e["i"] < len(o.spectra):
                del o.spectra[list(o.spectra)[e["i"]]]
        elif k == "clearSpectra":
            o.spectra.clear()
        elif k == "addSpectrum":
            sp = e["spec"]
            pos = (int(sp["x"]), int(sp["y"]))
            o.spectra[pos] = imzml.Spectrum(pos, None if sp["tic"] is None else float(sp["tic"]),
                                            {a[0]: int(a[1]) for a in sp["arrays"]}, {a[0]: int(a[2]) for a in sp["arrays"]})
        elif k == "setTic":
            if e["i"] < len(vals):
                vals[e["i"]].tic = None if e["tic"] is None else float(e["tic"])
        elif k == "setPos":
            if e["i"] < len(vals):
                vals[e["i"]].pos = (int(e["x"]), int(e["y"]))
        elif k == "setArrays":
            if e["i"] < len(vals):
                sp = vals[e["i"]]
                sp.offsets.clear()
                sp.lengths.clear()
                for a in e["arrays"]:
                    sp.offsets[a[0]] = int(a[1])
                    sp.lengths[a[0]] = int(a[2])
        elif k in ("setMz", "setInten"):
            g = o.mz_params if k == "setMz" else o.intensity_params
            g.id = e["group"]["id"]
            g.dtype = np.dtype(DTYPE_NAME[e["group"]["dtype"]]).type
            g.external = bool(e["group"]["external"])
        elif k == "setBin":
            o.external_binary = ibd_paths[e["bin"] % len(ibd_paths)]
        else:
            raise core.InternalError("bad edit %r" % (e,))

    def run_history(self, ctx, imzml, case, doc, path, ibd0, lens, texts, held, feats):
        """the imports of `case["hist"]` after the three imports every case makes (fast, XML, fast with callback: `held` are the
        objects those returned), in the same process on the same path.  Returns (impl, model, spec, ok) for the outcome"""
        hist = case["hist"]
        d = path.parent
        datas = [case["data"], None if case["data"] is None else self.variant_data(case["data"], hist.get("variant", 0))]
        ibds = [ibd0, b"\x01" * 16 + b"\x07" * 64]
        if datas[1] is not None:
            ibds[1], _ = gen_imzml.layout_ibd(datas[1], case["mzdt"], case["itdt"], rng=random.Random(case["pad"]))
        ibd_paths = [path.with_suffix(".ibd"), d / "rerun.ibd"]
        ibd_paths[1].write_bytes(ibds[1])
        bins = [self.bin_req(datas[k], ibds[k]) for k in (0, 1)]
        exact = all(b is not None for b in bins)
        nspec = len(doc["spectra"])
        # the history as the driver sees it: the three imports made so far, then the caller's edits and further imports
        ab0 = case["abort"] if case["abort"] is not None and 0 <= case["abort"] < nspec else None
        ops = [{"op": "import", "parser": "fast", "cb": None, "bin": 0}, {"op": "import", "parser": "xml", "bin": 0},
               {"op": "import", "parser": "fast", "cb": self.cb_req(case, ab0), "bin": 0}]
        objs = list(held)
        impl_steps = []

        def which_bin(o):
            for k, pth in enumerate(ibd_paths):
                try:
                    if os.path.samefile(o.external_binary, pth):
                        return k
                except OSError:
                    pass
            return str(o.external_binary)

        def edits(elist):
            for e in elist:
                if objs:
                    k = e["obj"] % len(objs)
                    ops.append({"op": "edit", "obj": k, "edit": e["edit"]})
                    self.apply_edit(imzml, objs[k], e["edit"], ibd_paths)

        edits(hist.get("pre_edits", []))
        step_cb = []
        for st in hist["steps"]:
            b = st["ibd"] % 2
            ab = st.get("abort")
            if ab is not None and not 0 <= ab < nspec:
                ab = None
            calls = None
            # the paths as pathlib.Path or as str (both are documented argument types)
            P = str if st.get("strpath") else (lambda x: x)
            try:
                with warnings.catch_warnings():
                    warnings.simplefilter("error")
                    if st["parser"] == "xml":
                        ops.append({"op": "import", "parser": "xml", "bin": b})
                        r = imzml.ImzML.from_file(P(path), external_binary=None if (b == 0 and not st.get("explicit")) else P(ibd_paths[b]))
                    elif st.get("cb"):
                        calls = []
                        ops.append({"op": "import", "parser": "fast", "cb": self.cb_req(st, ab), "bin": b})
                        r = imzml.fast_parse_imzml(P(path), P(ibd_paths[b]), callback=self.make_callback(st, ab, calls))
                    elif st.get("api") == "function":
                        ops.append({"op": "import", "parser": "fast", "cb": None, "bin": b})
                        r = imzml.fast_parse_imzml(P(path), P(ibd_paths[b]))
                    else:
                        ops.append({"op": "import", "parser": "fast", "cb": None, "bin": b})
                        r = imzml.ImzML.from_file(P(path), external_binary=None if (b == 0 and not st.get("explicit")) else P(ibd_paths[b]),
                                                  use_fast_parse=True)
            except Exception as e:
                r = e
            step_cb.append(calls)
            if isinstance(r, Exception):
                impl_steps.append({"result": canon_exc(r)})
            else:
                objs.append(r)
                one = {"result": canon_imz(r), "bin": which_bin(r)}
                if case["data"] is not None:
                    if exact:
                        try:
                            one["images"] = exact_images(r)
                        except Exception as e:
                            one["images"] = canon_exc(e)
                    else:
                        one["extraction"] = self.extraction(r, True)
                impl_steps.append(one)
            if calls is not None:
                impl_steps[-1]["positions"] = calls
            edits(st.get("edits", []))

        rep = ctx.driver.call("c17.history", doc=doc, lens=lens, texts=texts, cls="any", bins=bins if exact else [None, None], ops=ops)
        if not rep["tokens_ok"]:
            raise core.InternalError("history: tokenised text differs from the abstract lines")
        if not rep["layout"]:
            raise core.InternalError("history on a document outside the layout")
        results, specs, cbs = rep["results"][3:], rep["spec"][3:], rep["callbacks"][3:]
        if len(results) != len(impl_steps):
            raise core.InternalError("history: %d imports made, %d modelled" % (len(impl_steps), len(results)))
        # exact images only where the driver's hypotheses hold for the step's model and binary (e.g. not for a TIC `inf`)
        with_images = [exact and "ok" in sp and sp.get("images") is not None for sp in specs]
        for got, w in zip(impl_steps, with_images):
            if not w:
                got.pop("images", None)
        exact = exact and any(with_images)

        def side(res, k, positions=None):
            one = {"result": canon_model(res)}
            if "ok" in res:
                one["bin"] = res["bin"]
                if with_images[k]:
                    one["images"] = res["images"]
                elif "extraction" in impl_steps[k]:
                    # no exact images: all that is demanded is that imports given the same binary extract the same
                    same = [r2 for r2 in impl_steps if r2.get("bin") == res["bin"] and "extraction" in r2]
                    one["extraction"] = same[0]["extraction"] if same else None
            if positions is not None:
                one["positions"] = positions
            return one

        spec_steps, model_steps, ok = [], [], True
        for k, (res, sp, cbi, got) in enumerate(zip(results, specs, cbs, impl_steps)):
            if cbi is None:
                spec_steps.append(side(sp, k))
                model_steps.append(side(res, k))
                continue
            positions = rep["call_positions"]
            allowed = []
            for a in cbi["ok_outcomes"]:
                allowed.append(side(sp, k, positions) if a is None else {"result": {"raises": "Warning"}, "positions": positions[:a + 1]})
            mine = side(res, k, cbi["calls"])
            if len(allowed) != 1:
                feats.add("callback-value:unspecified (recorded only)")
            pick = next((x for x in allowed if core.canon(x) == core.canon(got)), None)
            if pick is None:
                ok = False
                pick = allowed[0] if allowed else {"result": "no outcome allowed"}
            spec_steps.append(pick)
            model_steps.append(pick if len(allowed) != 1 and core.canon(mine) != core.canon(got) and core.canon(pick) == core.canon(got) else mine)
        return impl_steps, model_steps, spec_steps, ok, exact

    def evaluate(self, case, ctx):
        from pewlib.io import imzml

        doc, ibd, entity = self.materialise(case)
        tdoc = text_doc(doc)
        d = ctx.tmpdir()
        # text-level variations no parser looks at: a byte-order mark before the first line, no line end after the last line
        text = gen_imzml.render(tdoc)
        ends = gen_imzml.line_end_positions(tdoc)
        tv = case.get("text") or {}
        if tv.get("bom") and UTF8_LOCALE:
            text = "\ufeff" + text
            ends = [e + 3 for e in ends]
        if tv.get("no_final_newline"):
            text = text[:-1]
            ends[-1] -= 1
        path = d / "t.imzML"
        path.write_text(text, encoding="utf-8", newline="\n")
        (d / "t.ibd").write_bytes(ibd)
        lens = [b - a for a, b in zip([0] + ends[:-1], ends)]
        nspec = len(doc["spectra"])
        abort = case["abort"]
        if abort is not None and not 0 <= abort < nspec:
            abort = None
        # the text of the file, line by line, for the model's tokeniser (`tokenise`: the code's string tests on characters)
        texts = text.split("\n")
        if not tv.get("no_final_newline"):
            texts = texts[:-1]
        if len(texts) > 20000:        # (documents of a thousand spectra: the check of the callback lines below only, for time)
            texts = None

        rep = ctx.driver.call("c17.parse", doc=doc, lens=lens, texts=texts, cls="any", cb=self.cb_req(case, abort),
                              bin=None if entity is not None else self.bin_req(case["data"], ibd))
        if not rep["tokens_ok"]:
            raise core.InternalError("the text lines, classified by the model's tokeniser, are not the abstract lines of the document")
        in_layout = bool(rep["layout"])
        if not in_layout and not (entity is not None and rep["layout_core_decoded"] and not rep["text_ok"]):
            raise core.InternalError("generated document is outside the layout predicate")
        # tokenisation contract: the lines the model names as the places of the callback are the <spectrumList>/<spectrum> lines
        kinds = render_kinds(tdoc)
        for k, li in enumerate(rep["call_lines"]):
            if not kinds[li].startswith("<spectrumList " if k == 0 else "<spectrum "):
                raise core.InternalError("line %d of the text is not the line the model invokes callback %d on" % (li, k))

        def parse(fast):
            try:
                with warnings.catch_warnings():
                    warnings.simplefilter("error")
                    return imzml.ImzML.from_file(path, use_fast_parse=fast)
            except Exception as e:
                return e

        fast, xml = parse(True), parse(False)
        cf = canon_exc(fast) if isinstance(fast, Exception) else canon_imz(fast)
        cx = canon_exc(xml) if isinstance(xml, Exception) else canon_imz(xml)
        impl = {"fast": cf, "xml": cx}

        # progress callback: the positions it receives; it hands back the object `f` at invocation `abort`, `t` otherwise
        calls = []
        try:
            with warnings.catch_warnings():
                warnings.simplefilter("error")
                r = imzml.fast_parse_imzml(path, path.with_suffix(".ibd"), callback=self.make_callback(case, abort, calls))
            cres = canon_imz(r)
        except Exception as e:
            r = e
            cres = canon_exc(e)
        impl["callback"] = {"result": cres, "positions": calls}

        feats = self.features(case, doc, nspec)
        if entity is not None:
            feats.add(entity)
        if nspec >= LARGE_MIN:
            feats.add("large-document")
            feats.add("large-document:" + next(f for f in feats if f.startswith("callback:")))
            if doc["trail"].endswith("\r"):
                feats.add("large-document:crlf")
            # a whole <spectrum> block is shorter than 1/1024 of the file (progress finer than 0.1 % per spectrum)
            starts = [i for i, t in enumerate(kinds) if t.startswith("<spectrum ")]
            closes = [i for i, t in enumerate(kinds) if t == "</spectrum>"]
            if min(ends[c] - ends[o - 1] for o, c in zip(starts, closes)) * 1024 < ends[-1]:
                feats.add("large-document:spectrum-block<size/1024")
        if ends[-1] > 65536:
            feats.add("file>64KiB" + (":crlf" if doc["trail"].endswith("\r") else ""))
        elif ends[-1] > 8192:
            feats.add("file>8KiB" + (":crlf" if doc["trail"].endswith("\r") else ""))

        want = canon_model(rep["xml"])
        cbrep = rep["callback"]
        mo = cbrep["mech_outcome"]
        if not in_layout:
            # hypothesis-excluded (a character reference in a read text): impl against the model only.  The fast parser sees the
            # raw text (`fastParse (render d)`), ElementTree the decoded document (`xmlView (xmlDoc d)`)
            free = rep["fast_free"]
            fail = first_conversion_failure(free["ok"]) if "ok" in free else None
            mfast = canon_model(free)
            if fail is not None and (mo is None or fail < mo):
                mcb = {"result": {"raises": "ValueError"}, "positions": rep["calls_free"][:fail + 1]}
            else:
                mcb = {"result": canon_model(cbrep["fast"]), "positions": cbrep["calls"]}
            if len(cbrep["ok_outcomes"]) != 1:
                # the callback handed back an object that is neither False nor True: nothing is demanded of what follows
                feats.add("callback-value:unspecified (recorded only)")
                mcb = impl["callback"]
            model = {"fast": mfast, "xml": want, "callback": mcb}
            return outcome(impl, model, model, hyp=False, spec_ok=True, features=feats)

        # the callback: what the property allows for the objects handed back (one behaviour when they all are True or False)
        allowed = self.allowed_callback(cbrep["ok_outcomes"], rep["call_positions"], want)
        mine = {"result": canon_model(cbrep["fast"]), "positions": cbrep["calls"]}
        pick = next((x for x in allowed if core.canon(x) == core.canon(impl["callback"])), None)
        cb_ok = pick is not None
        if len(allowed) != 1:
            feats.add("callback-value:unspecified (recorded only)")
            if cb_ok and core.canon(mine) != core.canon(pick):
                feats.add("callback-value:unspecified, impl differs from model (recorded only)")
                mine = pick
        if pick is None:
            pick = allowed[0] if allowed else {"result": "no outcome allowed"}

        # images through both objects: every public extraction function, fast == XML; against the model's image functions when
        # the binary qualifies
        both = not isinstance(fast, Exception) and not isinstance(xml, Exception)
        impl["image_size_equal"] = (self.size_of(fast) == self.size_of(xml)) if both else True
        small = nspec < LARGE_MIN
        if both and case["data"] is not None:
            ef, ex = self.extraction(fast, small), self.extraction(xml, small)
            impl["images_equal"] = True if ef == ex else {"fast": ef, "xml": ex}
            feats.add("extraction:both-parsers")
        elif both and self.size_of(xml) == self.size_of(fast) and isinstance(self.size_of(xml), list) \
                and 0 < self.size_of(xml)[0] * self.size_of(xml)[1] <= 4096:
            ef, ex = self.extraction(fast, small), self.extraction(xml, small)
            impl["images_equal"] = True if ef == ex else {"fast": ef, "xml": ex}
            feats.add("extraction:both-parsers:no-data")
        else:
            impl["images_equal"] = True
        spec = {"fast": want, "xml": want, "image_size_equal": True, "images_equal": True, "callback": pick}
        model = {"fast": canon_model(rep["fast_free"]), "xml": want, "image_size_equal": True, "images_equal": True, "callback": mine}
        im = rep["images"]
        if im is not None and im["xml"] is not None:
            def exact(m):
                if isinstance(m, Exception):
                    return canon_exc(m)
                try:
                    return exact_images(m)
                except Exception as e:
                    return canon_exc(e)
            impl["images"] = {"fast": exact(fast), "xml": exact(xml)}
            spec["images"] = {"fast": im["xml"], "xml": im["xml"]}
            model["images"] = {"fast": im["fast"], "xml": im["xml"]}
            feats.add("images-exact")
            if any(v is None for row in im["xml"]["tic"] for v in row):
                feats.add("images-exact:empty-pixel")

        # further imports of the same path in this process, with other binaries, callbacks, and caller edits in between
        hist_ok = True
        if case.get("hist") is not None:
            held = [o for o in (fast, xml, r) if not isinstance(o, Exception)]
            hi, hm, hs, hist_ok, hexact = self.run_history(ctx, imzml, case, doc, path, ibd, lens, texts, held, feats)
            impl["history"], model["history"], spec["history"] = hi, hm, hs
            self.history_features(case, feats, hexact)
        spec_ok = cb_ok and hist_ok and core.canon({k: v for k, v in impl.items()}) == core.canon(spec)
        return outcome(impl, model, spec, hyp=True, spec_ok=spec_ok, features=feats)

    def history_features(self, case, feats, exact):
        hist = case["hist"]
        feats.add("history")
        feats.add("history:%d-more-imports" % len(hist["steps"]))
        if exact:
            feats.add("history:images-exact")
        seen = {("fast", 0)}       # the fast parser without a callback has read the document with binary 0
        for st in hist["steps"]:
            key = ("xml" if st["parser"] == "xml" else "fast-callback" if st.get("cb") else "fast")
            feats.add("history:" + key)
            if key == "fast":
                if ("fast", 1 - st["ibd"] % 2) in seen:
                    feats.add("history:fast-again-other-binary")
                if ("fast", st["ibd"] % 2) in seen:
                    feats.add("history:fast-again-same-binary")
                seen.add(("fast", st["ibd"] % 2))
            if st.get("strpath"):
                feats.add("history:paths-as-str")
            if st.get("cb") and st.get("abort") is not None:
                feats.add("history:import-aborted-then-more" if st is not hist["steps"][-1] else "history:import-aborted-last")
        kinds = {e["edit"]["k"] for e in hist.get("pre_edits", [])} | {e["edit"]["k"] for st in hist["steps"] for e in st.get("edits", [])}
        for k in kinds:
            feats.add("history:edit:" + k)
        if len(kinds) >= len(EDIT_KINDS):
            feats.add("history:edit:every-mutable-place")

    def features(self, case, doc, nspec):
        f = {"spectra:%s" % ("1" if nspec == 1 else "2" if nspec == 2 else "many" if nspec < LARGE_MIN else "1000+"),
             "indent:%r" % doc["indent"], "trail:%r" % doc["trail"],
             "imageable" if case["data"] is not None else "parse-only"}
        tics = [it["value"] for s in doc["spectra"] for it in s["items"] + s["tail"] if it["t"] == "cv" and it["acc"] == ACC["TIC"]]
        if len(tics) < nspec:
            f.add("tic-absent")
        for t in tics:
            f.add("tic-exponent" if ("e" in t.lower() and t != "inf") else "tic-decimal" if "." in t else "tic-integer")
            if t[0] in "+-":
                f.add("tic-signed")
        st0 = [it["acc"] for it in doc["settings"][0]["items"] if it["t"] == "cv"]
        f.add("size-present" if ACC["SIZE_X"] in st0 and ACC["SIZE_Y"] in st0 else "size-absent")
        if len(doc["settings"]) > 1:
            f.add("several-scanSettings")
        if doc["settings_first"]:
            f.add("settings-before-groups")
        if len(doc["groups"]) > 2:
            f.add("extra-groups")
        if doc["groups"][0]["id"] not in ("mzArray", "intensities") or ([g["id"] for g in doc["groups"] if g["id"] in ("mzArray", "intensities")] + [""])[0] == "intensities":
            f.add("groups-reordered")
        if any(len(s["scans"]) > 1 for s in doc["spectra"]):
            f.add("several-scans")
        if any(len(s["arrays"]) > 2 for s in doc["spectra"]):
            f.add("extra-array")
        if any(it["t"] == "cv" and it["acc"] in ALL_READ for k in ("pre", "mid1", "mid2", "post") for sct in doc[k] for it in sct["items"]):
            f.add("read-accession-in-noise-section")
        pos = [tuple(it["value"] for it in s["scans"][0] if it["t"] == "cv" and it["acc"] in (ACC["POS_X"], ACC["POS_Y"])) for s in doc["spectra"]]
        pos = [tuple(int(v) for v in p) for p in pos if all(v.isdigit() for v in p)]      # (an entity case has one text that is not a number)
        if len(set(pos)) < len(pos):
            f.add("repeated-position")
        if any(max(p) >= 10 ** 12 for p in pos):
            f.add("many-digit-position")
        if not doc["decl"]:
            f.add("no-xml-declaration")
        gt = {g["id"]: [it["acc"] for it in g["items"] if it["t"] == "cv" and it["acc"] in BIN_TYPES] for g in doc["groups"]}
        if "mzArray" in gt and "intensities" in gt:
            f.add("types:%s/%s" % (DTYPE_NAME[gt["mzArray"][0]], DTYPE_NAME[gt["intensities"][0]]))
        if has_non_ascii(doc):
            f.add("non-ascii-text")
        tvar = case.get("text") or {}
        if tvar.get("bom") and UTF8_LOCALE:
            f.add("text:byte-order-mark")
        if tvar.get("no_final_newline"):
            f.add("text:no-final-line-end")
        if case.get("long_lines") is not None:
            f.add("long-lines:%d" % case["long_lines"]["len"])
        styles = {it.get("style", 0) for items in self.item_lists(doc) for it in items if it["t"] == "cv"}
        for st in styles:
            if st >= gen_imzml.NSTYLES:
                f.add("cv-style:%s" % ["unit-attributes-first", "accession-value-only", "end-tag-on-line", "tabs-between-attributes"][st - gen_imzml.NSTYLES])
        if case["data"] is not None and any(len(sp["mz"]) == 0 for sp in case["data"]):
            f.add("spectrum-without-peaks")
        have = [any(it["t"] == "cv" and it["acc"] == ACC["TIC"] for it in sp["items"] + sp["tail"]) for sp in doc["spectra"]]
        if any(a and not b for a, b in zip(have, have[1:])):
            f.add("tic-absent-after-stored")
        if len(doc["settings"]) > 3:
            f.add("scanSettings:6")
        if len(doc["settings"]) > 1:
            f.add("scanSettings:" + ("all-equal" if all(st["items"] == doc["settings"][0]["items"] for st in doc["settings"]) else "differing"))
        ab = case["abort"]
        if ab is not None and not 0 <= ab < nspec:
            ab = None
        where = "never-false" if ab is None else "false-first" if ab == 0 else "false-last" if ab == nspec - 1 else "false-middle"
        f.add("callback:" + where)
        # the objects the callback hands back
        tv, fv = self.cb_values(case)

        def nm(d):
            return "int:%d" % d["v"] if d["t"] == "int" else d["t"] if d["t"] != "other" else ("truthy-" if d["v"] else "falsy-") + d.get("py", "str")
        f.add("callback-object:" + nm(tv))
        if ab is not None:
            f.add("callback-object:%s@%s" % (nm(fv), where[6:]))
        return f

    # ------------------------------------------------------------------ shrinking
    def shrink(self, case):
        doc = case["doc"]
        sp = doc["spectra"]
        for k in ("entity", "non_ascii", "hist", "cbv", "text", "long_lines"):
            if case.get(k) is not None:
                yield {kk: v for kk, v in case.items() if kk != k}
        if case.get("hist") is not None:
            h = case["hist"]
            if h.get("pre_edits"):
                yield {**case, "hist": {**h, "pre_edits": []}}
                for i in range(len(h["pre_edits"])):
                    yield {**case, "hist": {**h, "pre_edits": h["pre_edits"][:i] + h["pre_edits"][i + 1:]}}
            for i, st in enumerate(h["steps"]):
                if len(h["steps"]) > 1:
                    yield {**case, "hist": {**h, "steps": h["steps"][:i] + h["steps"][i + 1:]}}
                if st.get("edits"):
                    yield {**case, "hist": {**h, "steps": h["steps"][:i] + [{**st, "edits": []}] + h["steps"][i + 1:]}}
        if len(sp) > 16:     # large documents: remove runs of spectra (halves, quarters, ... sixteenths) instead of single ones
            n = len(sp)
            for parts in (2, 4, 8, 16):
                for k in range(parts):
                    a, b = k * n // parts, (k + 1) * n // parts
                    data = None if case["data"] is None else case["data"][:a] + case["data"][b:]
                    m = n - (b - a)
                    ab = case["abort"]
                    yield {**case, "doc": {**doc, "spectra": sp[:a] + sp[b:]}, "data": data,
                           "abort": None if ab is None else (ab if ab < a else ab - (b - a) if ab >= b else min(a, m - 1))}
        elif len(sp) > 1:
            for i in range(len(sp)):
                data = None if case["data"] is None else case["data"][:i] + case["data"][i + 1:]
                yield {**case, "doc": {**doc, "spectra": sp[:i] + sp[i + 1:]}, "data": data,
                       "abort": None if case["abort"] is None else min(case["abort"], len(sp) - 2)}
        for k in ("pre", "mid1", "mid2", "post"):
            if doc[k]:
                yield {**case, "doc": {**doc, k: []}}
        if case["abort"] is not None:
            yield {**case, "abort": None}
        if doc["indent"] or doc["trail"]:
            yield {**case, "doc": {**doc, "indent": "", "trail": ""}}

        def drop_noise(items, keep):
            return [it for it in items if it["t"] == "cv" and it["acc"] in keep]

        def plain(s):
            return {**s, "items": drop_noise(s["items"], READ_SPECTRUM), "scanlist": [], "tail": drop_noise(s["tail"], READ_SPECTRUM),
                    "scans": [drop_noise(s["scans"][0], READ_SPECTRUM)], "arrays": [{**a, "extra": [], "shuffle": None} for a in s["arrays"]]}

        if len(sp) > 16:     # large documents: all spectra at once
            ts = [plain(s) for s in sp]
            if ts != sp:
                yield {**case, "doc": {**doc, "spectra": ts}}
        else:
            for i, s in enumerate(sp):
                t = plain(s)
                if t != s:
                    yield {**case, "doc": {**doc, "spectra": sp[:i] + [t] + sp[i + 1:]}}
        others = [g for g in doc["groups"] if g["id"] in ("mzArray", "intensities")]
        if len(others) < len(doc["groups"]):
            yield {**case, "doc": {**doc, "groups": others}}
        if len(doc["settings"]) > 1:
            yield {**case, "doc": {**doc, "settings": doc["settings"][:1]}}


PROP = C17()

if __name__ == "__main__":
    sys.exit(core.main(PROP, "harness.c17"))
