"""C14 — colocalisation coefficients and block shuffling: pewlib.process.colocal.{li_icq, pearsonr,
manders, pearsonr_probablity} and pewlib.process.calc.shuffle_blocks against PewModel/Colocal.lean (coefficients, 2-D
shuffle, the call and loop models with their memory) and PewModel/ColocalNd.lean (the shuffle for arrays of any
dimension; every shuffle case goes through it, 1-D and 2-D cases also through the 2-D model).

Observation points: the return values and the argument arrays (images, mask) before/after each call.
`numpy.random.permutation` is replaced inside `evaluate` by a recorded, seeded permutation (restored
in `finally`); the Lean mechanism model is parameterised by what it returned."""
import math
import random
import sys
import warnings
from fractions import Fraction

import numpy as np

from harness import core
from harness.core import Prop, outcome, unrat

EPS = 2.0 ** -52
REL = 1e-9
EPS32 = 2.0 ** -23  # images held as float32: NumPy computes means, products and standard deviations in float32
REL32 = 2e-5
DT = {"f8": np.float64, "f4": np.float32, "i8": np.int64, "u8": np.uint64, "i4": np.int32, "i2": np.int16, "u2": np.uint16, "u1": np.uint8}
# Behaviour the property text does not reach (the value returned as "probability" for n = 0 shuffles) is compared with
# the model and the outcome recorded as a feature; it is judged (impl-vs-model) only with this switch on.
JUDGE_OUTSIDE_PROPERTY = False


class PermRecorder:
    """stands in for numpy.random.permutation: seeded, records argument and result of every call"""

    def __init__(self, seed, style):
        self.rng = random.Random(seed)
        self.style = style
        self.calls = []

    def __call__(self, a):
        arr = np.arange(a) if isinstance(a, (int, np.integer)) else np.array(a)
        if arr.ndim != 1:
            raise core.InternalError("permutation called with a non 1-D argument")
        src = [int(v) for v in arr]
        out = list(src)
        if self.style == "reverse":
            out.reverse()
        elif self.style == "rotate":
            out = out[1:] + out[:1]
        elif self.style == "swap2" and len(out) >= 2:
            out[0], out[-1] = out[-1], out[0]
        elif self.style != "identity":
            self.rng.shuffle(out)
        self.calls.append((src, out))
        return np.array(out, dtype=arr.dtype)


def with_layout(a, layout, perm=None):
    """the same values in another memory layout: C-contiguous, Fortran-ordered, a strided view (last or first axis), a
    transposed view (2-D), or contiguous in an arbitrary axis order `perm` (neither C nor Fortran for >= 3 axes)"""
    if layout == "F":
        return np.asfortranarray(a)
    if layout == "strided":
        big = np.zeros(a.shape[:-1] + (a.shape[-1] * 2,), dtype=a.dtype)
        big[..., ::2] = a
        return big[..., ::2]
    if layout == "strided0":
        big = np.zeros((a.shape[0] * 2,) + a.shape[1:], dtype=a.dtype)
        big[::2] = a
        return big[::2]
    if layout == "transposed" and a.ndim == 2:
        return np.ascontiguousarray(a.T).T
    if layout == "perm" and perm is not None and sorted(perm) == list(range(a.ndim)):
        return np.array(a.transpose(perm), order="C", copy=True).transpose(np.argsort(perm))
    return a


# ---- large images: compact, lossless encodings (the abstract case and the driver request stay small)
BIG = 4096  # arrays with more elements than this are judged through the quasi-linear Lean forms (c14.shuffle_big)


def lin_image(form, shape):
    """the image of a formula [a, c, m]: a * p + c at flat position p (m = 0) or (a * p) % m + c (repeated values)"""
    a, c, m = form
    p = np.arange(int(np.prod(shape)), dtype=np.int64)
    v = a * p if m == 0 else (a * p) % m
    return (v + c).astype(np.float64).reshape(shape)


def rle_encode(flags):
    """run lengths of a flat 0/1 array, alternating, starting with the length of the leading run of zeros"""
    f = np.asarray(flags).ravel() != 0
    if f.size == 0:
        return []
    cuts = np.flatnonzero(f[1:] != f[:-1]) + 1
    runs = np.diff(np.concatenate(([0], cuts, [f.size]))).tolist()
    return ([0] + runs) if f[0] else runs


def rle_decode(runs, n):
    out = np.zeros(n, dtype=bool)
    pos, v = 0, False
    for r in runs:
        out[pos:pos + r] = v
        pos, v = pos + r, not v
    if pos != n:
        raise core.InternalError("mask runs do not add up to the image size")
    return out


def arange_runs(a):
    """[[start, count], ...]: runs of consecutive integers (lossless; short for the ascending index lists)"""
    a = np.asarray(a, dtype=np.int64).ravel()
    if a.size == 0:
        return []
    cuts = np.flatnonzero(np.diff(a) != 1) + 1
    starts = np.concatenate(([0], cuts))
    ends = np.concatenate((cuts, [a.size]))
    return [[int(a[s]), int(e - s)] for s, e in zip(starts, ends)]


def int_vals(arr):
    """exact values of a float array for the driver: plain integers when every value is one, else None"""
    a = np.asarray(arr, dtype=np.float64).ravel()
    if not (np.all(np.isfinite(a)) and np.all(a == np.rint(a)) and np.all(np.abs(a) < 2.0 ** 53)):
        return None
    return a.astype(np.int64).tolist()


class BigPermRecorder:
    """PermRecorder for long index lists (numpy throughout); seeded, records argument and result of every call"""

    def __init__(self, seed, style):
        self.gen = np.random.Generator(np.random.PCG64(seed))
        self.style = style
        self.calls = []

    def __call__(self, a):
        arr = np.arange(a) if isinstance(a, (int, np.integer)) else np.array(a)
        if arr.ndim != 1:
            raise core.InternalError("permutation called with a non 1-D argument")
        if self.style == "reverse":
            out = arr[::-1].copy()
        elif self.style == "rotate":
            out = np.roll(arr, -1)
        elif self.style == "identity":
            out = arr.copy()
        else:
            out = arr[self.gen.permutation(arr.size)]
        self.calls.append((arr.copy(), out.copy()))
        return out


class ShuffleObs:
    """one observed call of shuffle_blocks: the argument arrays before and after, the return value, and which calls of
    numpy.random.permutation happened inside it"""

    def __init__(self, fn, x, block, mask, mode, partial, rec, kwargs=None):
        self.block, self.mode, self.partial = [int(b) for b in block], mode, bool(partial)
        self.shape = list(x.shape)
        self.x0, self.m0 = x.copy(), None if mask is None else mask.copy()
        self.cC, self.fC = bool(x.flags.c_contiguous), bool(x.flags.f_contiguous)
        self.mask_obj, self.x_obj = mask, x
        k0 = len(rec.calls) if rec is not None else 0
        self.res, self.exc = None, None
        try:
            self.ret = fn(x, block, **(kwargs if kwargs is not None else dict(mask=mask, mode=mode, shuffle_partial=partial)))
            self.res = np.asarray(self.ret).copy()
        except core.InternalError:
            raise
        except Exception as e:  # the caller re-raises for a spied call
            self.ret, self.exc = None, e
        self.perm_calls = rec.calls[k0:] if rec is not None else []
        self.mask_unchanged = True if mask is None else bool(mask.dtype == self.m0.dtype and np.array_equal(mask, self.m0))
        self.mask_after = None if mask is None else mask.copy()
        self.x_after = x.copy() if x.size <= BIG else None
        self.x_unchanged = bool(np.array_equal(x, self.x0))
        self.x_is_result = self.res is not None and self.res.shape == x.shape and bool(np.array_equal(x, self.res))


class ShuffleSpy:
    """while active, every call that pewlib.process.colocal makes to shuffle_blocks is observed (return values of
    shuffle_blocks are observation points of the property, whoever calls it); the real function does the work"""

    def __init__(self, module, rec):
        self.module, self.rec, self.obs = module, rec, []
        self.real = getattr(module, "shuffle_blocks", None)

    def __enter__(self):
        if self.real is not None:
            spy = self

            def wrapper(x, block, mask=None, mode="pad", shuffle_partial=False):
                o = ShuffleObs(spy.real, x, block, mask, mode, shuffle_partial, spy.rec)
                spy.obs.append(o)
                if o.exc is not None:
                    raise o.exc
                return o.ret

            self.module.shuffle_blocks = wrapper
        return self

    def __exit__(self, *a):
        if self.real is not None:
            self.module.shuffle_blocks = self.real
        return False


def values(ints, den, off, spow):
    return [(Fraction(v, den) + off) * Fraction(2) ** spow for v in ints]


def to_arr(vals, shape):
    return np.array([float(v) for v in vals], dtype=np.float64).reshape(shape)


def exact(arr):
    return [Fraction(float(v)) for v in np.asarray(arr, dtype=np.float64).ravel()]


def r_tol(mean_xy, mx, my, vx, vy):
    """float tolerance of (mean(xy) - mean(x)mean(y)) / (std(x) std(y)): relative part plus the
    cancellation in the numerator"""
    s = math.sqrt(float(vx) * float(vy))
    return REL + 64 * EPS * (abs(float(mean_xy)) + abs(float(mx) * float(my))) / s


def r_exact(cov, vx, vy):
    return float(cov) / math.sqrt(float(vx) * float(vy))


# ---- extreme power-of-two scales ("data of any scale"): the implementation sees x * 2^ex and y * 2^ey, the Lean
# definitions are evaluated on the unscaled exact values (theorems pearson_affine / pearson_symm: r does not depend on
# the scales; ICQ and the Manders ratios are checked to be equal on scaled and unscaled values by a second driver call).
# A case is decided only while every intermediate of the textbook formula, evaluated the way the formula is written
# (the two means, the products and their mean, the squared deviations and the two variances inside the standard
# deviations, the product of the two standard deviations, the products of deviations of the ICQ, the Manders sums),
# stays between XS_LO and XS_HI for the scaled data: then scaling by powers of two commutes with every float operation
# up to absolute errors <= 2^-1074 against denominators >= 2^-960.  Everything beyond is undetermined.
XS_LO = Fraction(1, 2 ** 960)
XS_HI = Fraction(2 ** 1000)
XS_K = [150, -150, 250, -250, 300, -300, 330, -330]
XS_BEYOND = [[520, 520], [-520, -520], [-520, 520], [700, 0], [0, -700], [-1060, 0], [0, 1010], [-480, -480], [-470, -470],
             [495, 495]]


def xscale_guard(xs, ys, vx, vy, dx, dy, ex, ey):
    """exact: xs, ys unscaled values (dyadic), vx, vy their variances, dx, dy their smallest non-zero |deviation|"""
    px, py = Fraction(2) ** ex, Fraction(2) ** ey
    ux, uy = Fraction(1, max(v.denominator for v in xs)), Fraction(1, max(v.denominator for v in ys))  # every sum is a multiple
    ax, ay = sum(abs(v) for v in xs), sum(abs(v) for v in ys)
    lows = [ux * px, uy * py, ux * uy * px * py, vx * px * px, vy * py * py, dx * px, dy * py, dx * dy * px * py]
    highs = [ax * px, ay * py, 4 * ax * ay * px * py, sum(abs(a * b) for a, b in zip(xs, ys)) * px * py,
             sum(v * v for v in xs) * px * px, sum(v * v for v in ys) * py * py]
    return all(v >= XS_LO for v in lows) and all(v <= XS_HI for v in highs)


def xscale_class(ex, ey):
    if ex == 0 or ey == 0:
        return "one-image"
    if (ex > 0) != (ey > 0):
        return "opposite"
    return ("same" if ex == ey else "mixed") + ("+" if ex > 0 else "-")


class C14(Prop):
    id = "C14"
    anchored = ["src/pewlib/process/colocal.py", "src/pewlib/process/calc.py"]
    cases = {"quick": 420, "thorough": 9000}
    rule = ("three streams. coeff: dyadic image pairs (independent, correlated, anti-correlated, two-valued tiles, ties at the "
            "mean), scales 2^-10..2^20, offsets, thresholds None/0/min/data value/between; 30% of them (and 32 fixed ones) in extreme units: "
            "image x times 2^ex, image y times 2^ey with exponents +-150, +-250, +-300, +-330 in the same direction, in opposite "
            "directions, on one image only, mixed (e.g. -300/-230), and a few beyond what float64 can evaluate (undetermined); shuffle: 1-D to 4-D arrays "
            "(3-D/4-D at most 300 elements), blocks 1..5 per axis (1..3 beyond 2-D), shapes multiple of the block or not (also smaller than "
            "the block), masks full/partial/ragged/block-cutting/empty (bool or float), both modes, partial on/off, permutations "
            "identity/reverse/rotate/random, memory layouts C/Fortran/strided along the last or first axis/transposed/contiguous in a "
            "permuted axis order; every case through the n-D Lean model, 1-D and 2-D cases also through the 2-D model; "
            "prob: 2-D pairs, mask None/full/partial/ragged, blocks 1..5, n = 0..6 (n = 0: NaN, model only), all layouts. non-trivial = at least two blocks "
            "selected and moved, or a non-multiple shape, or a partial mask, or ties/threshold-on-value in coeff; distinct by "
            "canonical case hash. "
            "coeff also: float32 / int64 / int32 / int16 / uint16 / uint8 images (same or different types for x and y; used when the type holds "
            "the values exactly), Fortran-ordered / strided / transposed views independently for x and y, exact zeros as negative zeros, "
            "means that are pixel values in both images (deviation exactly zero in x, in y, in both at one pixel). "
            "shuffle also: mask None, image element types float32/int64/uint16, calls that leave out the arguments that have their default. "
            "big (1.4% of the cases + 4 targeted in quick, 10 in thorough): one call moves more than 2^15 (2^16) blocks - 1-D arrays of "
            "33000..270000 elements and 2-D images up to about 410 x 410 (quick) / 700 x 700 (thorough), blocks 1..3 per axis, both modes, "
            "partial on/off, masks full / frame switched off / sparse holes / rows, values distinct or repeated, float masks, Fortran layout; "
            "image, mask, permutation argument travel as formula / run lengths / index runs, result and recorded permutation as integer lists; "
            "judged by c14.shuffle_big (quasi-linear forms of the same Lean relations; every ordinary 1-D/2-D shuffle case goes through both forms, "
            "which must agree); also pearsonr_probablity with its default block on such images. "
            "history (11.6% + 10 targeted): 2-3 consecutive calls of shuffle_blocks / pearsonr_probablity that share the mask object (edited in place by "
            "the caller between the calls / unchanged / another object of equal or other content) and the image object, with the same or "
            "changed block / mode / partial; every call judged for the array contents at the time of that call. "
            "prob also: every call pearsonr_probablity makes to shuffle_blocks is observed and judged as a shuffle of its own, and against the "
            "mask the routine was given (no pixel outside its selected blocks moves); default block; default arguments left out")
    trusted = ["the contiguity flags of the argument array (x.flags.c_contiguous / f_contiguous) are read from NumPy and are part of the input "
               "description; from them the Lean model derives whether the block view aliases the array (np.pad keeps Fortran order only for "
               "arrays that are Fortran- and not C-contiguous; np.ascontiguousarray copies exactly when the array is not C-contiguous; "
               "ndarray.copy() is C-ordered) - checked for 1-D..4-D arrays in C, Fortran, strided and axis-permuted layouts",
               "np.pad(mode='edge'), np.nonzero, ravel_multi_index/unravel_index, fancy-index assignment, as_strided as documented; "
               "the harness's stand-in for numpy.random.permutation returns a permutation of its argument; Pearson's r compared "
               "at 1e-9 + 64*eps*(|E xy| + |Ex Ey|)/(sx sy); rs > r decisions closer than that may go either way",
               "extreme units (xscale:*): the Lean definitions are evaluated on the exact values in ordinary units (r does not depend "
               "on the units: theorems pearson_affine, pearson_symm) and, for ICQ, Manders, r^2 and the sign of r, also on the values as "
               "given, with exact agreement demanded; a case is decided only while the textbook formula as written can be "
               "evaluated in float64 for the given data: the data unit and the unit of the products (so every sum, mean and product), "
               "the two variances formed inside the standard deviations (so also their product), the smallest non-zero deviations and "
               "their product (ICQ) are >= 2^-960, and the sums of |x|, |y|, |xy|, x^2, y^2 and 4 sum|x| sum|y| are <= 2^1000 (exact "
               "rational test in evaluate, also for the two affine variants); otherwise undetermined",
               "float32 images: NumPy evaluates means, products and standard deviations in float32; an r that involves a float32 image is "
               "compared at 2e-5 + 64*2^-23*(E|xy| + E|x|E|y|)/(sx sy), a Manders ratio of a float32 image at 2e-5 relative, and the ICQ is "
               "undetermined when a non-zero deviation is below 1e-4 of the scale; integer images (8..64 bit, values up to 2^41: exactly "
               "representable in float64, and a common power-of-two unit commutes with every float operation, so the float64 tolerance of the "
               "unscaled values applies) are judged like float64 ones, also when a "
               "product x*y does not fit their integer type (feature dtype:integer-product-exceeds-the-type; fixed in 1c7bcd4)",
               "large shuffles: Python encodes (run lengths, integer lists) and snapshots; the relations are evaluated by the Lean driver in "
               "their quasi-linear forms, proved equal to the reference forms (spec_outside_fast, spec_blocks_fast) and re-checked against "
               "them on every small case; 'equal to the model's output for the recorded permutation' is the certificate specOutside + "
               "specApplied (applied_determines_output, model_satisfies_applied); Std.HashSet of the Lean toolchain is trusted as compiled",
               "calls of shuffle_blocks made by pearsonr_probablity are observed by replacing the name shuffle_blocks in pewlib.process.colocal "
               "with a recording wrapper around the real function for the duration of the call (restored afterwards); an implementation "
               "that does not go through that name is judged on r, p and the argument arrays only",
               "the default block of pearsonr_probablity is read from its signature (inspect) when the case leaves the argument out"]
    assumptions = ["float64 images with dyadic values (sums and products exact); images non-constant over the pixels used; "
                   "Manders only with a non-zero image sum; block sizes >= 1; the 'fraction in [0, 1]' clause for n >= 1 shuffles (n = 0 gives NaN = 0/0 in "
                   "the code and `none` in the model; compared impl-vs-model only)"]

    # ------------------------------------------------------------------ generation
    def gen_pair(self, rng, n):
        style = rng.choice(["indep", "corr", "anti", "tiles", "ties", "ties2", "smallrange"])
        if style == "indep":
            x = [rng.randint(0, 60) for _ in range(n)]
            y = [rng.randint(0, 60) for _ in range(n)]
        elif style in ("corr", "anti"):
            x = [rng.randint(0, 60) for _ in range(n)]
            s = 1 if style == "corr" else -1
            y = [s * v + rng.randint(-6, 6) + (0 if s == 1 else 70) for v in x]
        elif style == "tiles":
            pat = rng.choice([([0, 1], [0, 1]), ([0, 1], [1, 0]), ([0, 1, 0, 1], [0, 1, 1, 0]), ([1, 2, 3, 4], [1, 2, 4, 3])])
            x = [pat[0][i % len(pat[0])] for i in range(n)]
            y = [pat[1][i % len(pat[1])] for i in range(n)]
        elif style == "ties":  # the mean is one of the values: deviations exactly zero
            half = [rng.randint(1, 9) for _ in range(max(1, n // 2))]
            x = ([10 + v for v in half] + [10 - v for v in half] + [10] * n)[:n]
            y = [rng.choice([4, 5, 6]) for _ in range(n)]
            rng.shuffle(x)
        elif style == "ties2":  # both means are pixel values: deviations exactly zero in x, in y, in both at once, and a zero
            # deviation paired with either sign of the other ("do not have opposite signs" counts all of them)
            def sym(c):
                half = [rng.randint(1, 4) for _ in range(max(1, n // 3))]
                v = ([c + h for h in half] + [c - h for h in half] + [c] * n)[:n]
                rng.shuffle(v)
                return v
            x, y = sym(10), sym(7)
        else:
            x = [rng.randint(0, 2) for _ in range(n)]
            y = [rng.randint(0, 2) for _ in range(n)]
        if len(set(x)) == 1:
            x[0] += 1
        if len(set(y)) == 1:
            y[-1] += 1
        return x, y, style

    def generate(self, rng, tier):
        u = rng.random()
        if u < 0.014:
            return self.gen_big(rng, tier)
        if u < 0.13:
            return self.gen_history(rng)
        stream = rng.choice(["coeff", "coeff", "shuffle", "shuffle", "shuffle", "prob"])
        if stream == "coeff":
            ndim = rng.choice([1, 2])
            shape = [rng.randint(2, 40)] if ndim == 1 else [rng.randint(1, 8), rng.randint(2, 8)]
            n = int(np.prod(shape))
            x, y, style = self.gen_pair(rng, n)
            # element type of the two images (drawn first: integer types want integer values that fit)
            dtype = None
            if rng.random() < 0.4:
                d = rng.choice(["f4", "f4", "f4", "i8", "i8", "u8", "i4", "i2", "u2", "u1"])
                dtype = [d, d] if rng.random() < 0.6 else [d, rng.choice(["f8", "f4", "i8", "u8", "i4", "u2", "u1"])]
                if rng.random() < 0.5:
                    dtype.reverse()
            ints = dtype is not None and any(d[0] in "iu" for d in dtype)
            neg = rng.random() < 0.2 and not (dtype is not None and any(d[0] == "u" for d in dtype))
            offs = [0, 0, 0, 100] if ints else [0, 0, 0, 100, 4096]
            offx = rng.choice(offs) if not neg else -rng.choice([3, 30])
            offy = rng.choice(offs) if not neg else -rng.choice([3, 30])
            den = 1 if ints else rng.choice([1, 1, 4, 8])

            def thr(vals, off):
                k = rng.choice(["none", "none", "zero", "min", "value", "between", "above"])
                if k == "none":
                    return None
                if k == "zero":
                    return [0, 1]
                q = {"min": min(vals), "value": rng.choice(vals), "between": rng.choice(vals) + Fraction(1, 2),
                     "above": max(vals) + 1}[k]
                q = Fraction(q, den) + off
                return [q.numerator, q.denominator]

            case = {"kind": "coeff", "shape": shape, "x": x, "y": y, "den": den, "offx": offx, "offy": offy,
                    "spow": rng.choice([0, 0, 1, 7, 10] if ints else [0, 0, 0, -10, 7, 20]), "tx": thr(x, offx), "ty": thr(y, offy),
                    "a_pow": rng.choice([-3, 0, 1, 5]), "b": rng.choice([0, 1, -7, 1000]), "gen": [style]}
            if dtype is not None:
                case["dtype"] = dtype
                wide = [d in ("i8", "u8") for d in dtype]
                if ints and any(wide) and rng.random() < 0.7:
                    # 64-bit integer images with values 2^31 .. 2^41: the pixel products exceed 2^63 (2^64); with a narrower partner
                    # the two images get their own power-of-two unit so that each fits its type
                    if all(wide):
                        case["spow"] = rng.choice([26, 31, 34])
                    else:
                        case["spow"] = 0
                        case["xpow"] = [rng.choice([31, 34, 38]) if w else rng.choice([0, 10, 20] if d in ("i4", "f8", "f4") else [0, 7]) for w, d in zip(wide, dtype)]
            elif rng.random() < 0.4:  # extreme units: image x times 2^ex, image y times 2^ey
                case["xpow"] = self.gen_xpow(rng)
            # memory layout of the two images, independently; exact zeros as negative zeros
            lays = ["C", "C", "C", "F", "strided", "strided0", "transposed"]
            case["lay"] = [rng.choice(lays), rng.choice(lays)]
            case["negzero"] = rng.random() < 0.1
            return case
        if stream == "shuffle":
            ndim = rng.choice([1, 2, 2, 3, 3, 4])
            block = [rng.randint(1, 5 if ndim <= 2 else 3) for _ in range(ndim)]
            top = {1: 24, 2: 14, 3: 7, 4: 4}[ndim]
            shape = []
            for b in block:
                r = rng.random()
                if r < 0.45:
                    s = b * rng.randint(1, 6 if ndim <= 2 else max(1, top // b))
                elif r < 0.55:
                    s = rng.randint(1, b)  # not larger than the block
                else:
                    s = rng.randint(1, top)
                shape.append(s)
            while int(np.prod(shape)) > 300:  # keep 3-D / 4-D arrays small
                k = max(range(ndim), key=lambda a: shape[a])
                shape[k] -= 1
            n = int(np.prod(shape))
            xs = list(range(n))
            rng.shuffle(xs)
            if rng.random() < 0.2:
                xs = [v % 3 for v in xs]  # repeated values
            mask = self.gen_mask(rng, shape, block)
            if rng.random() < 0.06:  # no mask at all: everything may be shuffled
                mask = {"kind": "none", "data": None}
            return {"kind": "shuffle", "shape": shape, "block": block, "x": xs, "mask": mask["data"], "defaults": rng.random() < 0.2,
                    "xdtype": rng.choice(["f8", "f8", "f8", "f8", "i8", "f4", "u2"]),
                    "mask_float": rng.random() < 0.3, "mode": rng.choice(["pad", "inplace"]),
                    "partial": rng.random() < 0.5, "perm": rng.choice(["random", "random", "random", "identity", "reverse", "rotate", "swap2"]),
                    "pseed": rng.randrange(10 ** 9), "gen": ["mask:" + mask["kind"]],
                    "layout": rng.choice(["C", "C", "C", "F", "strided", "transposed" if ndim == 2 else "perm", "strided0"]),
                    "layout_perm": rng.sample(range(ndim), ndim), "mask_layout": rng.choice(["C", "C", "F"])}
        if rng.random() < 0.3:
            return self.gen_prob_separated(rng)
        b = rng.choice([1, 2, 2, 3, 3, 4, 5])
        shape = [rng.randint(max(2, b), 16), rng.randint(max(2, b), 16)]
        if rng.random() < 0.4:
            shape = [b * rng.randint(1, 4), b * rng.randint(1, 4)]
            if shape[0] * shape[1] < 4:
                shape = [max(2, shape[0]) * 2, max(2, shape[1]) * 2]
        n = shape[0] * shape[1]
        x, y, style = self.gen_pair(rng, n)
        ys = list(range(n))
        rng.shuffle(ys)
        if rng.random() < 0.7:
            y = [3 * a + b_ for a, b_ in zip(x, ys)] if rng.random() < 0.5 else ys  # distinct values
        mk = self.gen_mask(rng, shape, [b, b], allow_empty=False)
        return {"kind": "prob", "shape": shape, "x": x, "y": y, "den": rng.choice([1, 4]),
                "mask": None if rng.random() < 0.25 else mk["data"], "block": None if b == 3 and rng.random() < 0.5 else b,
                "defaults": rng.random() < 0.25, "partial": rng.random() < 0.5,
                "n": rng.choice([0] + [1, 2, 3, 4, 5, 6] * 5), "perm": rng.choice(["random"] * 14 + ["identity", "reverse"]),
                "pseed": rng.randrange(10 ** 9), "gen": [style, "mask:" + mk["kind"]],
                "layout": rng.choice(["C", "C", "F", "strided", "strided0", "transposed"]), "mask_layout": rng.choice(["C", "C", "F"])}

    # ---- images of ordinary size: more than 2^15 (2^16) blocks moved by one call
    def big_mask(self, rng, shape, block):
        kind = rng.choice(["full", "full", "rect", "rect", "rect-holes", "holes", "rows"])
        m = np.ones(shape, dtype=bool)
        if kind in ("rect", "rect-holes"):  # a frame of a few pixels is switched off (cuts blocks unless it is aligned)
            for ax in range(len(shape)):
                lo, hi = rng.randint(0, 9), shape[ax] - rng.randint(0, 19)
                sl = [slice(None)] * len(shape)
                sl[ax] = slice(0, lo)
                m[tuple(sl)] = False
                sl[ax] = slice(hi, None)
                m[tuple(sl)] = False
        if kind in ("holes", "rect-holes"):
            for _ in range(rng.randint(1, 40)):
                m.flat[rng.randrange(m.size)] = False
        if kind == "rows":
            m[rng.randint(shape[0] * 3 // 4, shape[0] - 1):] = False
        return kind, rle_encode(m)

    def big_shape(self, rng, tier, block, prob=False):
        """extents with more than 2^15 blocks (mostly), up to about 700 x 700 pixels in the thorough tier"""
        cap_px = 170000 if tier == "quick" else 500000
        cells = block[0] * block[1]
        lo_b, hi_b = 33000, max(34000, cap_px // cells)
        if rng.random() < 0.15:
            lo_b, hi_b = 20000, 32768  # just below the 2^15 blocks
        elif rng.random() < 0.45 and hi_b > 66000:
            lo_b = 66000
        nb = int(math.exp(rng.uniform(math.log(lo_b), math.log(hi_b))))
        nb0 = max(2, int(math.sqrt(nb) * rng.uniform(0.7, 1.4)))
        nb1 = max(2, nb // nb0 + 1)
        mult = rng.random() < 0.5
        return [nb0 * block[0] + (0 if mult else rng.randint(0, block[0] - 1)), nb1 * block[1] + (0 if mult else rng.randint(0, block[1] - 1))]

    def big_form(self, rng):
        return rng.choice([[1, 0, 0], [1, 0, 0], [1, 1000, 0], [3, -7, 0], [7, 0, 1000], [1, 0, 3], [11, 5, 65536]])

    def gen_big(self, rng, tier):
        if rng.random() < 0.2:
            block = rng.choice([None, None, 3, 2])
            b = 3 if block is None else block
            shape = self.big_shape(rng, tier, [b, b])
            mk, runs = self.big_mask(rng, shape, [b, b])
            return {"kind": "bigprob", "shape": shape, "x": self.big_form(rng), "y": rng.choice([[5, 3, 1000], [1, 0, 7], [2, 5, 0], [13, 0, 4099]]),
                    "mask_runs": None if rng.random() < 0.3 else runs, "block": block, "partial": rng.random() < 0.5,
                    "n": rng.choice([1, 1, 2, 3]), "perm": rng.choice(["random", "random", "reverse"]), "pseed": rng.randrange(10 ** 9),
                    "gen": ["mask:" + mk]}
        nd = rng.choice([1, 2, 2, 2, 2, 2])
        if nd == 1:
            block = [rng.choice([1, 1, 2, 3])]
            n = rng.randint(33000, 90000) * block[0] + rng.randint(0, block[0] - 1)
            shape = [n]
        else:
            block = [rng.choice([1, 1, 2, 3]), rng.choice([1, 1, 2, 3])]
            shape = self.big_shape(rng, tier, block)
        mk, runs = self.big_mask(rng, shape, block)
        return {"kind": "bigshuffle", "shape": shape, "block": block, "x": self.big_form(rng), "mask_runs": runs,
                "mask_float": rng.random() < 0.15, "mode": rng.choice(["pad", "inplace"]), "partial": rng.random() < 0.5,
                "perm": rng.choice(["random", "random", "random", "reverse", "rotate"]), "pseed": rng.randrange(10 ** 9),
                "layout": rng.choice(["C"] * 9 + ["F"]), "gen": ["mask:" + mk]}

    # ---- histories: 2-3 consecutive calls that share the mask object (edited in place in between, or not) and the image
    def gen_history(self, rng):
        nd = rng.choice([1, 2, 2, 2, 2, 3])
        shape = [rng.randint(4, 24)] if nd == 1 else [rng.randint(3, 14), rng.randint(3, 14)] if nd == 2 else \
            [rng.randint(2, 5), rng.randint(2, 6), rng.randint(2, 6)]
        n = int(np.prod(shape))
        xs = list(range(n))
        rng.shuffle(xs)
        x2, y2, _ = self.gen_pair(rng, n)
        use_prob = nd == 2 and rng.random() < 0.45
        mk = self.gen_mask(rng, shape, [2] * nd, allow_empty=False)
        a = mk["data"] if rng.random() < 0.6 else [1] * n
        masks = {"A": a, "B": list(a) if rng.random() < 0.6 else self.gen_mask(rng, shape, [2] * nd, allow_empty=False)["data"]}

        def options(fn):
            if fn == "prob":
                return {"block": rng.choice([1, 2, 2, 3]), "partial": rng.random() < 0.5, "n": rng.choice([1, 2, 3])}
            return {"block": [rng.randint(1, 3) for _ in range(nd)], "mode": rng.choice(["pad", "inplace"]), "partial": rng.random() < 0.5}

        def edit():
            ed = {}
            if rng.random() < 0.8:
                lo = [rng.randint(0, sz - 1) for sz in shape]
                ed = {"rect": [[l, rng.randint(l + 1, sz)] for l, sz in zip(lo, shape)], "value": int(rng.random() < 0.25)}
                if rng.random() < 0.5:  # a half plane along one axis, like `m[:k] = False`
                    ax = rng.randrange(nd)
                    ed["rect"] = [[0, sz] if a_ != ax else sorted(rng.choice([[0, rng.randint(1, sz)], [rng.randint(0, sz - 1), sz]])) for a_, sz in enumerate(shape)]
            if not ed or rng.random() < 0.3:
                ed["flip"] = [rng.randrange(n) for _ in range(rng.randint(1, 4))]
            return ed

        steps = []
        for k in range(rng.choice([2, 2, 3])):
            fn = "prob" if use_prob and rng.random() < 0.5 else "shuffle"
            st = {"fn": fn, "mask": "A", "edit": None, "perm": rng.choice(["random", "random", "reverse", "rotate"]), "pseed": rng.randrange(10 ** 9)}
            if k == 0 or rng.random() < 0.25 or steps[-1]["fn"] != fn:
                st.update(options(fn))
                if k > 0 and steps[-1]["fn"] != fn and rng.random() < 0.7:
                    # the options that reach shuffle_blocks are the same whichever of the two routines is called
                    pv = steps[-1]
                    if fn == "prob" and pv["mode"] == "inplace" and len(set(pv["block"])) == 1:
                        st.update(block=pv["block"][0], partial=pv["partial"])
                    elif fn == "shuffle":
                        st.update(block=[pv["block"]] * nd, mode="inplace", partial=pv["partial"])
            else:  # the same options as the call before
                st.update({kk: steps[-1][kk] for kk in ("block", "mode", "partial", "n") if kk in steps[-1]})
            if fn == "shuffle":
                st["img"] = rng.choice(["same", "same", "fresh"])
            if k > 0:
                r = rng.random()
                if r < 0.55:
                    st["edit"] = edit()  # same mask object, edited in place by the caller
                elif r < 0.75:
                    st["mask"] = "B"  # another object (of equal or other content)
                elif r < 0.8 and fn == "prob":
                    st["mask"] = None
            steps.append(st)
        return {"kind": "history", "shape": shape, "x": xs if not use_prob else x2, "y": y2 if rng.random() < 0.5 else xs, "masks": masks,
                "steps": steps}

    def gen_prob_separated(self, rng, b=None, shape=None, n=None, pseed=None, kind=None):
        """pearsonr_probablity where p is determined exactly: the two images agree (up to a positive affine map / small noise) on the
        mask, so r is 1 or close to it; the mask is a rectangle that cuts the blocks on every side and partly masked blocks are
        shuffled, so every round carries pixels from outside the mask - which lie on a very different level (+-1000 x) - into it:
        each r_i (over the pixels of the mask) is far below r"""
        b = b or rng.choice([2, 2, 3, 3, 4])
        shape = shape or [b * rng.randint(2, 4) + rng.choice([0, 0, 1]), b * rng.randint(2, 4) + rng.choice([0, 0, 1])]
        m = np.zeros(shape, dtype=int)
        m[tuple(slice(rng.randint(1, b - 1), sz - rng.randint(1, b - 1)) for sz in shape)] = 1
        N = shape[0] * shape[1]
        x = list(range(64, 64 + N))
        rng.shuffle(x)
        kind = kind or rng.choice(["equal", "equal", "affine", "noise"])
        sign = [rng.choice([1, -1]) for _ in range(N)]
        y = [(v if kind == "equal" else 2 * v + 5 if kind == "affine" else v + rng.randint(-1, 1)) if mk else sg * 1000 * v
             for v, mk, sg in zip(x, m.ravel(), sign)]
        return {"kind": "prob", "shape": shape, "x": x, "y": y, "den": 1, "mask": [int(v) for v in m.ravel()], "block": b, "defaults": False,
                "partial": True, "n": n or rng.choice([3, 4, 5, 6]), "perm": "random", "pseed": rng.randrange(10 ** 9) if pseed is None else pseed,
                "gen": ["separated:" + kind, "mask:cut"], "layout": "C", "mask_layout": "C"}

    def gen_xpow(self, rng):
        kind = rng.choice(["same", "same", "same", "opposite", "one", "mixed", "mixed", "beyond"])
        k = rng.choice(XS_K)
        if kind == "same":
            return [k, k]
        if kind == "opposite":
            return [k, -k]
        if kind == "beyond":  # mostly outside the guard of evaluate (undetermined there), some just inside
            return list(rng.choice(XS_BEYOND))
        other = 0 if kind == "one" else (1 if k > 0 else -1) * rng.choice([40, 100, 200, 230, 270, 310])
        return [k, other] if rng.random() < 0.5 else [other, k]

    def gen_mask(self, rng, shape, block, allow_empty=True):
        kinds = ["full"] * 4 + ["partial"] * 3 + ["ragged"] * 2 + ["cut"] * 2 + ["rows"] * 2 + (["empty"] if allow_empty else [])
        kind = rng.choice(kinds)
        m = np.ones(shape, dtype=int)
        if kind == "partial":  # a rectangle aligned to the blocks is switched off
            for ax, (s, b) in enumerate(zip(shape, block)):
                if rng.random() < 0.7:
                    cut = (rng.randint(0, max(0, s // b)) * b)
                    sl = [slice(None)] * len(shape)
                    sl[ax] = slice(cut, None) if rng.random() < 0.5 else slice(0, cut)
                    m[tuple(sl)] = 0
        elif kind == "ragged":
            m = np.array([1 if rng.random() < 0.8 else 0 for _ in range(m.size)]).reshape(shape)
        elif kind == "cut":  # a rectangle that cuts through blocks
            lo = [rng.randint(0, s - 1) for s in shape]
            hi = [rng.randint(l + 1, s) for l, s in zip(lo, shape)]
            m[:] = 0
            m[tuple(slice(l, h) for l, h in zip(lo, hi))] = 1
        elif kind == "rows":  # like the repo's test: the first part of axis 0, not aligned
            m[:] = 0
            m[: rng.randint(1, shape[0])] = 1
        elif kind == "empty":
            m[:] = 0
        if not allow_empty and m.sum() < 3:
            m[:] = 1
            kind = "full"
        return {"kind": kind, "data": [int(v) for v in m.ravel()]}

    def targeted(self, tier):
        # the repository's tiled patterns
        a = [[0, 1], [0, 1]]
        pats = {"a": a, "b": [[0, 1], [1, 0]], "c": [[1, 0], [1, 0]], "d": [[1, 2], [3, 4]], "e": [[1, 2], [4, 3]]}
        tile = lambda p: [int(v) for v in np.tile(np.array(p), (3, 3)).ravel()]
        for k in "abcde":
            for tx, ty in ((None, None), ([0, 1], None), ([0, 1], [0, 1])):
                yield {"kind": "coeff", "shape": [6, 6], "x": tile(a), "y": tile(pats[k]),
                       "den": 1, "offx": 0, "offy": 0, "spow": 0, "tx": tx, "ty": ty, "a_pow": 1, "b": 3, "gen": ["repo-pattern"]}
        # extreme units on one fixed correlated pair: same direction, opposite, one image only, mixed, beyond the guard
        xs_pairs = [[k, k] for k in XS_K] + [[k, -k] for k in XS_K] + [[k, 0] for k in (300, -300, 330, -330)]
        xs_pairs += [[0, k] for k in (300, -300, 330, -330)] + [[-300, -230], [-230, -300], [300, 230], [-330, -150], [330, 250]]
        xs_pairs += [[520, 520], [-520, -520], [-1060, 0]]
        for i, xp in enumerate(xs_pairs):
            yield {"kind": "coeff", "shape": [8] if i % 2 else [2, 4], "x": [3, 17, 41, 8, 55, 23, 30, 12], "y": [5, 20, 38, 11, 60, 19, 33, 9],
                   "den": [1, 8][i % 2], "offx": 0, "offy": [0, 100][i % 3 == 0], "spow": [0, -10, 7][i % 3],
                   "tx": [None, [17, 1], [0, 1]][i % 3], "ty": [None, [0, 1]][i % 2], "a_pow": [1, -3, 5][i % 3], "b": [3, 0, -7][i % 3],
                   "xpow": xp, "gen": ["corr"]}
        # shuffling: the 20x20 / block 3 case of the repaired defect, and small boundary shapes
        for mode in ("pad", "inplace"):
            for part in (False, True):
                yield {"kind": "shuffle", "shape": [20, 20], "block": [3, 3], "x": list(range(400)), "mask": [1] * 400,
                       "mask_float": False, "mode": mode, "partial": part, "perm": "random", "pseed": 1, "gen": ["mask:full"]}
                yield {"kind": "shuffle", "shape": [7], "block": [3], "x": list(range(7)), "mask": [1] * 7,
                       "mask_float": False, "mode": mode, "partial": part, "perm": "reverse", "pseed": 2, "gen": ["mask:full"]}
                yield {"kind": "shuffle", "shape": [1, 1], "block": [1, 1], "x": [5], "mask": [1],
                       "mask_float": False, "mode": mode, "partial": part, "perm": "random", "pseed": 3, "gen": ["mask:full"]}
                yield {"kind": "shuffle", "shape": [4, 6], "block": [2, 3], "x": list(range(24)), "mask": [1] * 12 + [0] * 12,
                       "mask_float": True, "mode": mode, "partial": part, "perm": "rotate", "pseed": 4, "gen": ["mask:partial"]}
                yield {"kind": "shuffle", "shape": [2, 5], "block": [3, 2], "x": list(range(10)), "mask": [1] * 10,
                       "mask_float": False, "mode": mode, "partial": part, "perm": "reverse", "pseed": 5, "gen": ["mask:full"]}
        # 3-D and 4-D: multiples, non-multiples, smaller than the block, unit blocks, a mask cutting blocks
        for mode in ("pad", "inplace"):
            for part in (False, True):
                for shape, block, perm, lay in (([2, 4, 4], [1, 2, 2], "reverse", "C"), ([3, 3, 3], [2, 2, 2], "rotate", "C"),
                                                ([3, 5, 4], [2, 2, 3], "random", "F"), ([1, 2, 1, 3], [2, 1, 3, 2], "reverse", "C"),
                                                ([2, 2, 2, 2], [1, 1, 1, 1], "random", "perm"), ([2, 3, 2, 4], [1, 2, 2, 2], "reverse", "strided"),
                                                ([4, 2, 6], [2, 2, 3], "swap2", "perm")):
                    n = int(np.prod(shape))
                    m = np.ones(shape, dtype=int)
                    m[tuple(slice(0, 1) if a == len(shape) - 1 else slice(None) for a in range(len(shape)))] = part  # cuts the first blocks
                    yield {"kind": "shuffle", "shape": shape, "block": block, "x": [(7 * i) % n for i in range(n)] if n % 7 else list(range(n)),
                           "mask": [int(v) for v in m.ravel()], "mask_float": False, "mode": mode, "partial": part, "perm": perm,
                           "pseed": 11, "gen": ["mask:full" if part else "mask:cut"], "layout": lay,
                           "layout_perm": list(range(len(shape)))[1:] + [0], "mask_layout": "F" if lay == "F" else "C"}
        # pearsonr_probablity takes one block size for both axes: images that are not 2-D (compared with the model only)
        for shape in ([12], [2, 3, 4]):
            n = int(np.prod(shape))
            yield {"kind": "prob", "shape": shape, "x": [(7 * i * i) % 23 for i in range(n)], "y": list(range(n)), "den": 1,
                   "mask": None, "block": 2, "partial": False, "n": 2, "perm": "random", "pseed": 9, "gen": ["mask:none"]}
        for part in (False, True):
            yield {"kind": "prob", "shape": [20, 20], "x": [(7 * i * i) % 23 for i in range(400)], "y": [(5 * i * i * i) % 29 for i in range(400)],
                   "den": 1, "mask": [1] * 400, "block": 3, "partial": part, "n": 3, "perm": "random", "pseed": 6, "gen": ["mask:full"]}
            yield {"kind": "prob", "shape": [5, 7], "x": [(7 * i * i) % 23 for i in range(35)], "y": list(range(35)),
                   "den": 1, "mask": None, "block": 2, "partial": part, "n": 2, "perm": "random", "pseed": 7, "gen": ["mask:none"]}
            # zero shuffles: the probability is NaN (compared with the model only)
            yield {"kind": "prob", "shape": [5, 7], "x": [(7 * i * i) % 23 for i in range(35)], "y": list(range(35)),
                   "den": 1, "mask": None if part else [1] * 30 + [0] * 5, "block": 2, "partial": part, "n": 0, "perm": "random",
                   "pseed": 8, "gen": ["mask:none" if part else "mask:rows"]}

        # images of ordinary size: one call moves more than 2^15 / 2^16 blocks (both modes, full and partial masks, 1-D and
        # 2-D, single-pixel and larger blocks), also through pearsonr_probablity with its default block
        frame = lambda sh, lo, hi: rle_encode(np.pad(np.ones([sh[0] - lo - hi, sh[1] - lo - hi], dtype=bool), ((lo, hi), (lo, hi))))
        bigs = [([240, 200], [1, 1], "pad", False, rle_encode(np.ones(48000)), [1, 0, 0], "random", "mask:full"),
                ([262, 271], [1, 1], "inplace", True, frame([262, 271], 2, 3), [1, 0, 0], "random", "mask:rect"),
                ([381, 364], [2, 1], "pad", True, frame([381, 364], 5, 7), [7, 0, 1000], "random", "mask:rect")]
        if tier == "thorough":
            bigs += [([700, 700], [1, 1], "inplace", False, rle_encode(np.ones(490000)), [1, 0, 0], "random", "mask:full"),
                     ([600, 630], [3, 3], "inplace", True, frame([600, 630], 7, 19), [1, 0, 0], "reverse", "mask:rect"),
                     ([601, 632], [3, 3], "pad", False, frame([601, 632], 7, 19), [1, 5, 0], "random", "mask:rect"),
                     ([70001], [1], "inplace", False, rle_encode(np.ones(70001)), [1, 0, 0], "random", "mask:full"),
                     ([100001], [2], "pad", True, rle_encode(np.ones(100001)), [1, 0, 3], "rotate", "mask:full")]
        for i, (shape, block, mode, part, runs, form, perm, mk) in enumerate(bigs):
            yield {"kind": "bigshuffle", "shape": shape, "block": block, "x": form, "mask_runs": runs, "mask_float": False, "mode": mode,
                   "partial": part, "perm": perm, "pseed": 40 + i, "layout": "C", "gen": [mk]}
        yield {"kind": "bigprob", "shape": [600, 630], "x": [1, 0, 0], "y": [5, 3, 1000], "mask_runs": frame([600, 630], 7, 19), "block": None,
               "partial": False, "n": 1, "perm": "random", "pseed": 50, "gen": ["mask:rect"]}
        if tier == "thorough":
            yield {"kind": "bigprob", "shape": [561, 640], "x": [3, -7, 0], "y": [13, 0, 4099], "mask_runs": None, "block": None,
                   "partial": True, "n": 2, "perm": "random", "pseed": 51, "gen": ["mask:none"]}
        # histories: the same mask object is used again after the caller edited it in place (and the same options), through
        # shuffle_blocks and through pearsonr_probablity
        n = 12 * 18
        for mode in ("inplace", "pad"):
            for part in (False, True):
                st = {"fn": "shuffle", "mask": "A", "edit": None, "block": [2, 3], "mode": mode, "partial": part, "perm": "random", "pseed": 60, "img": "fresh"}
                yield {"kind": "history", "shape": [12, 18], "x": list(range(n)), "y": list(range(n)), "masks": {"A": [1] * n, "B": [1] * n},
                       "steps": [st, dict(st, edit={"rect": [[0, 6], [0, 18]], "value": 0}, pseed=61),
                                 dict(st, edit={"rect": [[0, 12], [0, 9]], "value": 0}, pseed=62, img="same")]}
        for part in (False, True):
            pr = {"fn": "prob", "mask": "A", "edit": None, "block": 2, "partial": part, "n": 2, "perm": "random", "pseed": 63}
            sh = {"fn": "shuffle", "mask": "A", "edit": {"rect": [[0, 5], [0, 10]], "value": 0}, "block": [2, 2], "mode": "inplace", "partial": part,
                  "perm": "random", "pseed": 64, "img": "same"}
            yield {"kind": "history", "shape": [10, 10], "x": [(7 * i * i) % 23 for i in range(100)], "y": list(range(100)),
                   "masks": {"A": [1] * 100, "B": [1] * 100}, "steps": [pr, sh]}
            yield {"kind": "history", "shape": [10, 10], "x": [(7 * i * i) % 23 for i in range(100)], "y": list(range(100)),
                   "masks": {"A": [1] * 100, "B": [1] * 100}, "steps": [pr, dict(pr, edit={"rect": [[0, 10], [0, 5]], "value": 0}, pseed=65)]}
            yield {"kind": "history", "shape": [10, 10], "x": [(7 * i * i) % 23 for i in range(100)], "y": list(range(100)),
                   "masks": {"A": [1] * 100, "B": [1] * 100}, "steps": [dict(sh, edit=None), dict(pr, edit={"rect": [[4, 10], [0, 10]], "value": 0})]}

        # p determined exactly: r = 1 on the mask, partly masked blocks shuffled, out-of-mask pixels at +-1000 x
        for i, (b, shape, kind) in enumerate(((3, [6, 9], "equal"), (2, [8, 8], "affine"), (3, [10, 10], "equal"), (4, [9, 12], "noise"),
                                              (2, [6, 7], "equal"), (3, [9, 9], "affine"))):
            yield self.gen_prob_separated(random.Random(1400 + i), b=b, shape=shape, n=6, pseed=70 + i, kind=kind)

        # 64-bit integer images whose pixel products exceed 2^63 / 2^64, alone and with a narrower partner
        for i, (dt, spow, xpow) in enumerate(((["i8", "i8"], 31, None), (["u8", "u8"], 34, None), (["i8", "u8"], 26, None),
                                              (["i8", "i4"], 0, [38, 20]), (["u2", "u8"], 0, [7, 34]), (["u8", "f8"], 0, [31, 10]))):
            c = {"kind": "coeff", "shape": [8] if i % 2 else [2, 4], "x": [3, 17, 41, 8, 55, 23, 30, 12], "y": [5, 20, 38, 11, 60, 19, 33, 9],
                 "den": 1, "offx": 0, "offy": [0, 100][i % 2], "spow": spow, "tx": [None, [17, 1]][i % 2], "ty": None, "a_pow": [1, 0, -3][i % 3],
                 "b": [3, 0, -7][i % 3], "dtype": dt, "lay": ["C", "C"], "negzero": False, "gen": ["corr"]}
            if xpow:
                c["xpow"] = xpow
            yield c

    # ------------------------------------------------------------------ evaluation
    def evaluate(self, case, ctx):
        with warnings.catch_warnings(), np.errstate(all="ignore"):
            warnings.simplefilter("ignore")
            return getattr(self, "eval_" + case["kind"])(case, ctx)

    # ---- coefficients
    def eval_coeff(self, case, ctx):
        from pewlib.process import colocal

        shape = case["shape"]
        ex, ey = case.get("xpow") or [0, 0]  # extreme units: the implementation sees x * 2^ex, y * 2^ey
        extreme = bool(ex or ey)
        px, py = Fraction(2) ** ex, Fraction(2) ** ey
        sc = Fraction(2) ** case["spow"]
        beyond = lambda: outcome(None, None, None, spec_ok=True, model_ok=True, undetermined=True,
                                 features=["xscale:beyond-guard(undetermined)"])
        try:
            x = to_arr(values(case["x"], case["den"], case["offx"], case["spow"] + ex), shape)
            y = to_arr(values(case["y"], case["den"], case["offy"], case["spow"] + ey), shape)
            tx = None if case["tx"] is None else float(Fraction(*case["tx"]) * sc * px)
            ty = None if case["ty"] is None else float(Fraction(*case["ty"]) * sc * py)
            a, bx, by = 2.0 ** case["a_pow"], float(case["b"] * sc * px), float(case["b"] * sc * py)
        except OverflowError:  # data not representable in float64 (only with extreme units)
            if not extreme:
                raise
            return beyond()
        # the exact values the implementation is given, and the same in ordinary units (what the Lean side evaluates)
        xs, ys = exact(x), exact(y)
        xq, yq = [v / px for v in xs], [v / py for v in ys]
        txq, tyq = None if tx is None else Fraction(tx) / px, None if ty is None else Fraction(ty) / py
        x2, y2 = a * x + bx, a * y + by  # exact for the generated dyadic values
        af, bfx, bfy = Fraction(a), Fraction(bx) / px, Fraction(by) / py
        if not np.all(np.isfinite(x2)) or not np.all(np.isfinite(y2)):
            if not extreme:
                raise core.InternalError("affine image not finite")
            return beyond()
        x2q, y2q = [v / px for v in exact(x2)], [v / py for v in exact(y2)]
        if x2q != [af * v + bfx for v in xq] or y2q != [af * v + bfy for v in yq]:
            if not extreme:
                raise core.InternalError("affine image not exact")
            return beyond()
        # element type and memory layout ("all image pairs"): the same exact values as float32 or integer arrays and as
        # Fortran-ordered, strided or transposed views.  A type is used only when it holds the values exactly (float32: also the
        # threshold its image is compared with); otherwise the image stays float64
        dts = list(case.get("dtype") or ["f8", "f8"])

        def holds(arr, d, thr):
            t = np.dtype(DT.get(d, np.float64))
            if t == np.float64:
                return True
            if t.kind == "f":
                c = arr.astype(t)
                return bool(np.all(np.isfinite(c)) and np.array_equal(c.astype(np.float64), arr) and
                            (thr is None or float(np.float32(thr)) == thr))
            info = np.iinfo(t)
            return bool(np.all(np.isfinite(arr)) and np.all(arr == np.rint(arr)) and int(arr.min()) >= info.min and int(arr.max()) <= info.max)

        far = extreme and max(abs(ex), abs(ey)) > 64  # units beyond 2^+-64 are the float64 range classes; small ones scale integer images
        dts = ["f8" if far or not holds(v, d, t) else d for v, d, t in ((x, dts[0], tx), (y, dts[1], ty))]
        xa, ya = x.astype(DT[dts[0]]), y.astype(DT[dts[1]])
        negzero = bool(case.get("negzero")) and not extreme
        if negzero:  # exact zeros as negative zeros (images and thresholds)
            for v in (xa, ya):
                if v.dtype.kind == "f":
                    v[v == 0] = -0.0
            tx, ty = (-0.0 if tx == 0 else tx), (-0.0 if ty == 0 else ty)
        lays = list(case.get("lay") or ["C", "C"])
        xa, ya = with_layout(xa, lays[0]), with_layout(ya, lays[1])
        if not (np.array_equal(xa.astype(np.float64), x) and np.array_equal(ya.astype(np.float64), y)):
            raise core.InternalError("typed / laid out image differs from the exact values")
        f4x, f4y = dts[0] == "f4", dts[1] == "f4"
        # integer images whose products do not fit the integer type of the pair (a product formed in that type would wrap around
        # silently: the defect repaired in 1c7bcd4): an ordinary judged class
        rt = np.result_type(xa.dtype, ya.dtype)
        wraps = rt.kind in "iu" and any(not (np.iinfo(rt).min <= int(u) * int(v) <= np.iinfo(rt).max) for u, v in zip(x.ravel(), y.ravel()))
        snap = [v.copy() for v in (xa, ya, x2, y2)]
        try:
            impl = {"icq": float(colocal.li_icq(xa, ya)), "r": float(colocal.pearsonr(xa, ya)), "r_yx": float(colocal.pearsonr(ya, xa)),
                    "r_ax": float(colocal.pearsonr(x2, ya)), "r_ay": float(colocal.pearsonr(xa, y2))}
            m = colocal.manders(xa, ya, tx, ty)
            impl["m1"], impl["m2"] = float(m[0]), float(m[1])
        except Exception as e:
            impl = {"raises": type(e).__name__, "msg": str(e)[:200]}
        impl["args_unchanged"] = all(np.array_equal(u, v) and u.dtype == v.dtype for u, v in zip((xa, ya, x2, y2), snap))
        orat = lambda v: None if v is None else core.rat(v)
        rep = ctx.driver.call("c14.coeff", x=[core.rat(v) for v in xq], y=[core.rat(v) for v in yq], tx=orat(txq), ty=orat(tyq))
        if extreme:
            # the Lean definitions on the values as given: every scale-free output must be the one of the ordinary units
            rep_s = ctx.driver.call("c14.coeff", x=[core.rat(v) for v in xs], y=[core.rat(v) for v in ys],
                                    tx=orat(None if tx is None else Fraction(tx)), ty=orat(None if ty is None else Fraction(ty)))
            for k in ("r_sq", "r_sign", "icq", "icq_spec", "m1", "m2", "m1_spec", "m2_spec"):
                if rep_s[k] != rep[k]:
                    raise core.InternalError(f"Lean {k} differs between the given and the ordinary units: {rep_s[k]} / {rep[k]}")
        g = lambda k: unrat(rep[k])
        vx, vy, cov = g("var_x"), g("var_y"), g("cov")
        feats = {"coeff", f"ndim{len(shape)}"} | set(case.get("gen", []))
        if vx == 0 or vy == 0:  # constant images are outside the property
            return outcome(impl, None, None, spec_ok=True, model_ok=True, hyp=False, features=[])
        r = r_exact(cov, vx, vy)
        tol = r_tol(g("mean_xy"), g("mean_x"), g("mean_y"), vx, vy)
        tol_ax = r_tol(af * g("mean_xy") + bfx * g("mean_y"), af * g("mean_x") + bfx, g("mean_y"), af * af * vx, vy)
        tol_ay = r_tol(af * g("mean_xy") + bfy * g("mean_x"), g("mean_x"), af * g("mean_y") + bfy, vx, af * af * vy)
        if f4x or f4y:
            # float32 arithmetic inside NumPy: the same bound with the float32 unit roundoff, on the absolute values
            # (E|xy| + E|x| E|y|): an r that involves a float32 image is compared at this tolerance
            n_ = len(xq)
            exy, eax, eay = sum(abs(u * v) for u, v in zip(xq, yq)) / n_, sum(abs(u) for u in xq) / n_, sum(abs(v) for v in yq) / n_
            t32 = lambda axy, ax_, ay_, wx, wy: REL32 + 64 * EPS32 * (float(axy) + float(ax_) * float(ay_)) / math.sqrt(float(wx) * float(wy))
            tol = t32(exy, eax, eay, vx, vy)
            if f4y:
                tol_ax = t32(af * exy + abs(bfx) * eay, af * eax + abs(bfx), eay, af * af * vx, vy)
            if f4x:
                tol_ay = t32(af * exy + abs(bfy) * eax, eax, af * eay + abs(bfy), vx, af * af * vy)
        sums_ok = g("sum_x") != 0 and g("sum_y") != 0
        nonneg = min(xq) >= 0 and min(yq) >= 0
        scale = max(max(abs(v) for v in xq), max(abs(v) for v in yq))
        devs = [unrat(rep[k]) for k in ("min_dev_x", "min_dev_y") if rep[k] is not None]
        icq_und = any(d < (Fraction(1, 10 ** 4) if f4x or f4y else Fraction(1, 10 ** 9)) * scale for d in devs)
        xs_und = False
        if extreme:
            dx, dy = g("min_dev_x"), g("min_dev_y")  # present: neither image is constant
            xs_und = not all(xscale_guard(u, v, wu, wv, du, dv, ex, ey) for u, v, wu, wv, du, dv in (
                (xq, yq, vx, vy, dx, dy), (x2q, yq, af * af * vx, vy, af * dx, dy), (xq, y2q, vx, af * af * vy, dx, af * dy)))
            if not xs_und:
                feats |= {"xscale", "xscale:" + xscale_class(ex, ey)}
                lg = math.log2(float(vx) * float(vy)) / 2 + ex + ey  # log2 of the product of the two standard deviations
                feats.add("xscale:std-product-" + ("beyond" if abs(lg) >= 511 else "within") + "-2^+-511")
        model = {"icq": float(g("icq")), "r": r, "r_yx": r_exact(g("cov_yx"), vy, vx), "r_ax": r, "r_ay": r,
                 "m1": float(g("m1")) if sums_ok else None, "m2": float(g("m2")) if sums_ok else None, "args_unchanged": True}
        spec = {"icq": float(g("icq_spec")), "r": r_exact(g("cov_centred"), vx, vy), "r_symmetric": True, "r_affine": True,
                "r_in_range": True, "m1": float(g("m1_spec")) if sums_ok else None, "m2": float(g("m2_spec")) if sums_ok else None,
                "m_in_range": True if nonneg else None, "args_unchanged": True}

        def cmp(ref):
            if "raises" in impl or not impl["args_unchanged"]:
                return False
            ok = core.close(impl["icq"], ref["icq"], rel=0.0, abs_=1e-12)
            ok = ok and abs(impl["r"] - ref["r"]) <= tol and abs(impl["r_yx"] - ref["r"]) <= tol
            ok = ok and abs(impl["r_ax"] - ref["r"]) <= tol_ax and abs(impl["r_ay"] - ref["r"]) <= tol_ay
            ok = ok and all(abs(impl[k]) <= 1 + t for k, t in (("r", tol), ("r_yx", tol), ("r_ax", tol_ax), ("r_ay", tol_ay)))
            if sums_ok:
                ok = ok and core.close(impl["m1"], ref["m1"], rel=REL32 if f4x else REL, abs_=1e-15)
                ok = ok and core.close(impl["m2"], ref["m2"], rel=REL32 if f4y else REL, abs_=1e-15)
                if nonneg:
                    ok = ok and all(-1e-12 <= impl[k] <= 1 + 1e-12 for k in ("m1", "m2"))
            return ok

        mxq, myq = sum(xq) / len(xq), sum(yq) / len(yq)
        if mxq in xq or myq in yq:
            feats.add("deviation-exactly-zero")
            zz = {(u == mxq, v == myq) for u, v in zip(xq, yq)}
            if (True, True) in zz:
                feats.add("deviation-exactly-zero:both-at-one-pixel")
            if (True, False) in zz and (False, True) in zz:
                feats.add("deviation-exactly-zero:in-each-image")
        if case["tx"] is not None or case["ty"] is not None:
            feats.add("explicit-threshold")
        if (tyq is not None and tyq in yq) or (txq is not None and txq in xq):
            feats.add("threshold-on-value")
        if not nonneg:
            feats.add("negative-values")
        if not sums_ok:
            feats.add("zero-sum(no manders)")
        if case["spow"]:
            feats.add("scaled")
        feats.add("dtype:" + (dts[0] if dts[0] == dts[1] else "mixed(" + "/".join(dts) + ")"))
        eff = [("C" if (l == "transposed" and len(shape) != 2) or l not in ("F", "strided", "strided0", "transposed") else l) for l in lays]
        feats.add("coeff-layout:" + ("C" if eff == ["C", "C"] else "/".join(eff)))
        if eff[0] != eff[1]:
            feats.add("coeff-layouts-differ")
        if negzero and ((0 in xq and xa.dtype.kind == "f") or (0 in yq and ya.dtype.kind == "f") or tx == 0 or ty == 0):
            feats.add("negative-zero")
        if wraps:
            feats.add("dtype:integer-product-exceeds-the-type(" + rt.name + ")")
        if case["offx"] or case["offy"]:
            feats.add("offset")
        feats.add("r:" + ("+1" if abs(r - 1) < 1e-12 else "-1" if abs(r + 1) < 1e-12 else "0" if cov == 0 else "other"))
        if xs_und:
            feats = {"xscale:beyond-guard(undetermined)"}
        return outcome(impl, model, spec, spec_ok=cmp(spec), model_ok=cmp(model), undetermined=icq_und or xs_und, features=feats)

    # ---- shuffle_blocks
    def observe(self, fn, x, block, mask, mode, partial, rec, defaults=False):
        """one call of shuffle_blocks with numpy.random.permutation replaced by the recorder; `defaults`: keyword arguments that
        have their default value (mask None, mode "pad", shuffle_partial False) are left out of the call"""
        kwargs = None
        if defaults:
            kwargs = {k: v for k, v, dflt in (("mask", mask, mask is None), ("mode", mode, mode == "pad"),
                                              ("shuffle_partial", partial, partial is False)) if not dflt}
        saved = np.random.permutation
        np.random.permutation = rec
        try:
            return ShuffleObs(fn, x, tuple(block), mask, mode, partial, rec, kwargs)
        finally:
            np.random.permutation = saved

    def judge(self, o, ctx, form=None, other=None, ref=None):
        """an observed call of shuffle_blocks against the Lean model and the Lean specification relations, for the
        contents the argument arrays had when the call was made.  Returns impl / model / spec and the two verdicts."""
        shape, block, nd, pad = o.shape, o.block, len(o.shape), o.mode == "pad"
        if o.mode not in ("pad", "inplace") or len(block) != nd or any(b < 1 for b in block) or \
                (o.m0 is not None and list(o.m0.shape) != shape):
            return None  # not a call the model describes (the harness never makes one; a spied call might)
        big = o.x0.size > BIG
        impl = {"shape": None if o.res is None else list(o.res.shape), "mask_unchanged": o.mask_unchanged}
        if o.exc is not None:
            impl.update(raises=type(o.exc).__name__, msg=str(o.exc)[:200])
        good = o.exc is None and impl["shape"] == shape
        m0 = np.ones(shape, dtype=bool) if o.m0 is None else (o.m0 != 0)
        one = len(o.perm_calls) == 1
        impl["n_perm_calls"] = len(o.perm_calls)
        spec = {"outside_fixed": True, "blocks_from_input": True, "conserved": True, "mask_unchanged": True, "shape": shape}
        if big and nd > 2:
            return None
        if big:
            xv, ov = int_vals(o.x0), int_vals(o.res) if good else None
            if xv is None:
                return None  # the large classes use integer-valued images
            if good and ov is None:
                good = False
                impl["values"] = "not all finite integers (no rearrangement of the input)"
            n0, n1 = (1, shape[0]) if nd == 1 else shape
            b0, b1 = (1, block[0]) if nd == 1 else block
            rep = ctx.driver.call("c14.shuffle_big", n0=n0, n1=n1, b0=b0, b1=b1, pad=pad, partial=o.partial, c_contig=o.cC, f_contig=o.fC,
                                  reference=False, x={"lin": form} if form is not None else {"vals": xv},
                                  mask_runs=rle_encode(m0), nidx=[int(v) for v in o.perm_calls[0][1]] if one else None,
                                  arg_runs=arange_runs(o.perm_calls[0][0]) if one else None,
                                  out={"vals": ov} if good else None, other=other, ref=ref)
            same_rng_use = bool(one and rep["arg_is_idx"])
            if one and not rep["nidx_is_perm"] and same_rng_use:
                raise core.InternalError("the harness's permutation stand-in did not return a permutation of its argument")
            spec_rel = dict(rep["spec"] or {})
            impl.update(out_sha1=None if o.res is None else __import__("hashlib").sha1(np.ascontiguousarray(o.res).tobytes()).hexdigest(),
                        perm_arg_is_block_index_list=same_rng_use, equals_model_output=rep["applied"],
                        x_unchanged=o.x_unchanged if pad else None, x_is_result=None if pad else o.x_is_result)
            model = {"shape": shape, "mask_unchanged": True, "perm_arg_is_block_index_list": True, "equals_model_output": True,
                     "x_unchanged": True if pad else None, "x_is_result": None if pad else True, "n_perm_calls": 1}
            keys = list(model) if same_rng_use else ["shape", "mask_unchanged", "x_unchanged"]
            n_sel, aliases = rep["n_selected"], rep["aliases"]
            moved = bool(one and same_rng_use and aliases and not rep["nidx_is_idx"])
        else:
            xr, mr = [core.rat(float(v)) for v in o.x0.ravel()], [bool(v) for v in m0.ravel()]
            if good:
                impl["out"] = [float(v) for v in o.res.ravel()]
                if not np.all(np.isfinite(o.res)):
                    good = False
            impl["mask_after"] = mr if o.mask_after is None else [bool(v) for v in o.mask_after.ravel()]
            if pad:
                impl["x_unchanged"] = o.x_unchanged
            else:  # in-place mode hands back the argument itself: the argument array afterwards is the result
                impl["x_after"] = [float(v) for v in o.x_after.ravel()]
            nidx = [int(v) for v in o.perm_calls[0][1]] if one else None
            outr = [core.rat(v) for v in impl["out"]] if good else None
            # the dimension-generic model (PewModel/ColocalNd.lean), on every case
            rep = ctx.driver.call("c14.shuffle_nd", shape=shape, block=block, x=xr, mask=mr, pad=pad, partial=o.partial,
                                  nidx=nidx, c_contig=o.cC, f_contig=o.fC, out=outr)
            idx, aliases = rep["idx"], rep["aliases"]
            fl = lambda r, k: None if r[k] is None else [float(unrat(v)) for v in r[k]]
            model = {"shape": shape, "out": fl(rep, "model"), "mask_after": rep["mask_after"],
                     "mask_unchanged": rep["mask_after"] == mr, "perm_arg": idx}
            if pad:
                model["x_unchanged"] = fl(rep, "x_after") in (None, [float(v) for v in o.x0.ravel()])
            else:
                model["x_after"] = fl(rep, "x_after")
            spec_rel = dict(rep["spec"] or {})
            if nd <= 2:
                # the 2-D model (the theorems of the 2-D section are about it; a 1-D array is one row with block height 1) on the
                # same case: both Lean models must say the same (theorem nd_coincides_2d)
                n0, n1 = (1, shape[0]) if nd == 1 else shape
                b0, b1 = (1, block[0]) if nd == 1 else block
                rep2 = ctx.driver.call("c14.shuffle", n0=n0, n1=n1, x=xr, mask=mr, b0=b0, b1=b1, pad=pad, partial=o.partial,
                                       nidx=nidx, c_contig=o.cC, f_contig=o.fC, out=outr)
                for k in ("idx", "aliases", "model", "x_after", "mask_after"):
                    if rep2[k] != rep[k]:
                        raise core.InternalError(f"the 2-D and the n-D Lean model differ in {k} (contradicts theorem nd_coincides_2d)")
                for k, v in (rep2["spec"] or {}).items():
                    spec_rel[k] = (spec_rel[k] and v) if k in spec_rel else v  # both specification relations are demanded
                spec["blocks_permuted"] = True  # the selected blocks as a multiset of whole blocks (2-D model, theorem model_block_multiset)
                # the quasi-linear forms used for large images, on the same case: the same verdicts (theorems spec_outside_fast,
                # spec_blocks_fast), and the certificate says "equal to the model's output" exactly when it is
                rep3 = ctx.driver.call("c14.shuffle_big", n0=n0, n1=n1, b0=b0, b1=b1, pad=pad, partial=o.partial, c_contig=o.cC,
                                       f_contig=o.fC, reference=True, x={"vals": xr}, mask_runs=rle_encode(m0), nidx=nidx,
                                       arg_runs=arange_runs(idx), out={"vals": outr} if good else None, other=None, ref=None)
                if rep3["n_selected"] != len(idx) or not rep3["arg_is_idx"]:
                    raise core.InternalError("c14.shuffle_big selects other blocks than c14.shuffle")
                if good:
                    for k in ("outside_fixed", "blocks_from_input"):
                        if not (rep3["spec"][k] == rep3["reference"][k] == rep2["spec"][k]):
                            raise core.InternalError(f"quasi-linear form of {k} differs from the reference form (contradicts theorem spec_*_fast)")
                    if rep3["spec"]["conserved"] != rep2["spec"]["conserved"]:
                        raise core.InternalError("c14.shuffle_big: conserved differs")
                    if nidx is not None and len(nidx) == len(idx) and rep3["applied"] != (outr == rep["model"]):
                        raise core.InternalError("certificate specApplied disagrees with equality to the model output "
                                                 "(contradicts theorem applied_determines_output)")
            impl["perm_arg"] = [int(v) for v in o.perm_calls[0][0]] if one else [[int(v) for v in c[0]] for c in o.perm_calls]
            same_rng_use = impl["perm_arg"] == idx
            keys = list(model) if same_rng_use else [k for k in model if k not in ("out", "perm_arg", "x_after")]
            n_sel = len(idx)
            moved = nidx is not None and nidx != idx and aliases
        impl_spec = dict(spec_rel, mask_unchanged=impl["mask_unchanged"], shape=impl.get("shape"))
        spec_ok = good and all(impl_spec.get(k) == v for k, v in spec.items())
        # when the implementation draws its randomness differently (e.g. permutation(k) of positions instead of the flat
        # block indices) the recorded array cannot be interpreted by the model, so only the parts of the model that do not
        # depend on it are compared (`keys`); the specification relation (Lean, on the implementation's own output) is
        # still demanded in full
        model_ok = good and core.canon({k: impl.get(k) for k in keys}) == core.canon({k: model[k] for k in keys})
        impl["spec_verdicts"] = spec_rel
        return {"impl": impl, "model": model, "spec": spec, "spec_ok": bool(spec_ok), "model_ok": bool(model_ok), "n_selected": n_sel,
                "aliases": aliases, "moved": bool(moved), "same_rng_use": bool(same_rng_use) or not good, "good": good, "rep": rep if big else None}

    def shuffle_features(self, case, j, shape, block):
        nd = len(shape)
        feats = {"shuffle", f"ndim{nd}", "mode:" + case["mode"], "partial:" + str(case["partial"]), "perm:" + case["perm"],
                 "maskdtype:" + ("none" if case.get("mask", 1) is None else "float" if case.get("mask_float") else "bool")} | set(case.get("gen", []))
        feats.add("selected:" + (str(j["n_selected"]) if j["n_selected"] < 3 else "3+"))
        lay = case.get("layout", "C")
        lay_eff = "C" if (lay == "transposed" and nd != 2) or (lay == "perm" and sorted(case.get("layout_perm") or []) != list(range(nd))) else lay
        feats.add("layout:" + lay_eff + ("" if j["aliases"] else "(block view is a copy: result unshuffled)"))
        mult = [s % b == 0 for s, b in zip(shape, block)]
        feats.add("shape:" + ("multiple" if all(mult) else "non-multiple"))
        if any(s < b for s, b in zip(shape, block)):
            feats.add("shape<block")
        if any(b == 1 for b in block):
            feats.add("block1")
        if not j["same_rng_use"]:
            feats.add("rng-used-differently(model output not compared)")
        if j["moved"]:
            feats.add("moved")
        return feats, mult

    def eval_shuffle(self, case, ctx):
        from pewlib.process import calc

        shape, block = case["shape"], case["block"]
        nd = len(shape)
        x = np.array(case["x"], dtype=np.float64).reshape(shape)
        xd = DT.get(case.get("xdtype", "f8"), np.float64)  # the element type of the image does not matter to a shuffle
        if xd is not np.float64 and np.array_equal(x.astype(xd).astype(np.float64), x):
            x = x.astype(xd)
        x = with_layout(x, case.get("layout", "C"), case.get("layout_perm"))
        mask = None if case["mask"] is None else \
            with_layout(np.array(case["mask"], dtype=np.float64 if case["mask_float"] else bool).reshape(shape), case.get("mask_layout", "C"))
        # memory layout is part of the input: view_as_blocks copies a working array that is not C-contiguous (np.pad keeps
        # Fortran order), and then the block assignment is lost; the model derives this (`layoutAliases`) from the two
        # contiguity flags of the argument
        o = self.observe(calc.shuffle_blocks, x, block, mask, case["mode"], case["partial"], PermRecorder(case["pseed"], case["perm"]),
                         defaults=bool(case.get("defaults")))
        j = self.judge(o, ctx)
        if j is None:
            raise core.InternalError("shuffle case outside the model's domain")
        feats, mult = self.shuffle_features(case, j, shape, block)
        if x.dtype != np.float64:
            feats.add("image-dtype:" + x.dtype.name)
        if case.get("defaults"):
            feats.add("call:default-arguments-left-out")
        if nd >= 3:  # the classes again for arrays beyond 2-D
            feats |= {f"ndim{nd}:" + f for f in feats if f.split(":")[0] in ("mode", "partial", "layout", "shape", "shape<block", "moved")
                      or f.startswith("mask:")}
        nontrivial = j["moved"] or not all(mult) or case.get("gen", [""])[0] not in ("mask:full",)
        return outcome(j["impl"], j["model"], j["spec"], spec_ok=j["spec_ok"], model_ok=j["model_ok"], features=feats if nontrivial else [])

    # ---- shuffle_blocks on images of ordinary size (10^4 .. 10^6 blocks in one call)
    def eval_bigshuffle(self, case, ctx):
        from pewlib.process import calc

        shape, block = case["shape"], case["block"]
        n = int(np.prod(shape))
        x = lin_image(case["x"], shape)
        m = rle_decode(case["mask_runs"], n).reshape(shape)
        mask = m.astype(np.float64) if case.get("mask_float") else m
        if case.get("layout", "C") == "F":
            x = np.asfortranarray(x)
        o = self.observe(calc.shuffle_blocks, x, block, mask, case["mode"], case["partial"], BigPermRecorder(case["pseed"], case["perm"]))
        j = self.judge(o, ctx, form=case["x"])
        if j is None:
            raise core.InternalError("large shuffle case outside the model's domain")
        feats, mult = self.shuffle_features(case, j, shape, block)
        feats = {"big:" + f for f in feats if f != "shuffle" and not f.startswith("selected:")} | {"big", "shuffle"}
        ns = j["n_selected"]
        feats.add("big:blocks-moved-in-one-call:" + ("<=2^15" if ns <= 2 ** 15 else "2^15..2^16" if ns <= 2 ** 16 else ">2^16"))
        feats.add("big:values:" + ("distinct" if case["x"][2] == 0 and case["x"][0] != 0 else "repeated"))
        return outcome(j["impl"], j["model"], j["spec"], spec_ok=j["spec_ok"], model_ok=j["model_ok"], features=feats)

    # ---- pearsonr_probablity
    def eval_prob(self, case, ctx):
        shape = case["shape"]
        x = to_arr(values(case["x"], case["den"], 0, 0), shape)
        y = to_arr(values(case["y"], case["den"], 0, 0), shape)
        mask = None if case["mask"] is None else np.array(case["mask"], dtype=bool).reshape(shape)
        x, y = with_layout(x, case.get("layout", "C")), with_layout(y, case.get("layout", "C"))  # y.copy() is C-ordered again
        if mask is not None:
            mask = with_layout(mask, case.get("mask_layout", "C"))
        feats = {"prob", "partial:" + str(case["partial"]), f"n{case['n']}", "block:default" if case["block"] is None else f"block{case['block']}"} | \
            set(case.get("gen", []))
        if case["mask"] is None:
            feats.add("mask:none")
        if case.get("defaults"):
            feats.add("call:default-arguments-left-out")
        j = self.judge_prob(ctx, x, y, mask, case["block"], case["partial"], case["n"], PermRecorder(case["pseed"], case["perm"]), feats,
                            defaults=bool(case.get("defaults")))
        return outcome(j["impl"], j["model"], j["spec"], spec_ok=j["spec_ok"], model_ok=j["model_ok"], undetermined=j["undetermined"],
                       hyp=j["hyp"], features=j["features"])

    def judge_inner(self, spy, ctx, given_mask, y0, n, **kw):
        """the calls pearsonr_probablity made to shuffle_blocks (each an observation point of its own): every one against
        the shuffle specification, for the array contents at the time of that call; how they hang together; and - "obtained
        over the same pixels as the reported r" - that no call moves a pixel outside the blocks selected by the mask the
        routine was GIVEN (a call that is handed another mask, e.g. a stale copy, is judged against the given one as well)"""
        import copy

        js = [self.judge(o, ctx, **kw) for o in spy.obs]
        judged = [j for j in js if j is not None]
        ones = np.ones(y0.shape, dtype=bool) if given_mask is None else (given_mask != 0)
        chain = len(spy.obs) == n and len(judged) == n
        prev, inside = y0, True
        for o, j in zip(spy.obs, js):
            same_mask = o.m0 is not None and o.m0.shape == ones.shape and bool(np.array_equal(o.m0 != 0, ones))
            chain = chain and o.res is not None and o.x0.shape == prev.shape and bool(np.array_equal(o.x0, prev)) and same_mask
            prev = o.res
            if j is not None and j["good"] and not same_mask and list(ones.shape) == o.shape:
                o2 = copy.copy(o)
                o2.m0 = ones
                j2 = self.judge(o2, ctx)
                inside = inside and (j2 is None or bool(j2["impl"]["spec_verdicts"].get("outside_fixed")))
        return {"judged": judged, "spec_ok": all(j["spec_ok"] for j in judged) and inside, "model_ok": all(j["model_ok"] for j in judged),
                "chain": bool(chain), "inside_given_mask": inside,
                "first_bad": next((j["impl"] for j in judged if not j["spec_ok"]), None if inside else "a shuffle moved pixels outside the blocks "
                                  "selected by the mask given to pearsonr_probablity")}

    def judge_prob(self, ctx, x, y, mask, block, partial, n, rec, feats, defaults=False):
        """one call of pearsonr_probablity on the given array objects, against the Lean model and specification"""
        from pewlib.process import colocal

        shape = list(x.shape)
        feats = set(feats)
        x0, y0, m0 = x.copy(), y.copy(), None if mask is None else mask.copy()
        # `block is None`: the routine's own default block (which value that is, is not the property's business: it is read
        # from the signature and is part of the input); `defaults`: keyword arguments with their default value are left out
        kwargs = {k: v for k, v, d in (("block", block, None), ("mask", mask, None), ("shuffle_partial", partial, False))
                  if not ((defaults or k == "block") and v is d)}
        kwargs["n"] = n
        if block is None:
            import inspect

            block = inspect.signature(colocal.pearsonr_probablity).parameters["block"].default
            if not isinstance(block, int) or block < 1:
                raise core.InternalError("pearsonr_probablity has no usable default block")
        saved = np.random.permutation
        np.random.permutation = rec
        try:
            with ShuffleSpy(colocal, rec) as spy:
                try:
                    r, p = colocal.pearsonr_probablity(x, y, **kwargs)
                    impl = {"r": float(r), "p": None if math.isnan(float(p)) else float(p)}  # NaN = None, as in the driver protocol
                except core.InternalError:
                    raise
                except Exception as e:
                    impl = {"raises": type(e).__name__, "msg": str(e)[:200]}
        finally:
            np.random.permutation = saved
        impl["images_unchanged"] = bool(np.array_equal(x, x0) and np.array_equal(y, y0))
        impl["mask_unchanged"] = True if mask is None else bool(np.array_equal(mask, m0))
        res = lambda impl_, model, spec, spec_ok, model_ok, undetermined=False, hyp=True, features=(): {
            "impl": impl_, "model": model, "spec": spec, "spec_ok": bool(spec_ok), "model_ok": bool(model_ok),
            "undetermined": bool(undetermined), "hyp": bool(hyp), "features": set(features)}
        if len(shape) != 2:
            # the routine takes ONE block size and hands (block, block) to shuffle_blocks: its domain is 2-D images.  Outside it
            # nothing of the property is demanded; that it raises is compared with the model (probRaises) when it does
            rep = ctx.driver.call("c14.prob_domain", shape=shape, n=n)
            raised = "raises" in impl
            return res({"raises": raised, "images_unchanged": impl["images_unchanged"], "mask_unchanged": impl["mask_unchanged"]},
                       {"raises": rep["raises"]}, None, True, (not raised) or rep["raises"], hyp=False,
                       features=["prob:not-2-D(" + ("raises, as modelled" if raised else "accepted") + ")"])
        mlist = [True] * (shape[0] * shape[1]) if m0 is None else [bool(v) for v in m0.ravel()]
        sig_ok = len(rec.calls) == n
        rep = ctx.driver.call("c14.prob", n0=shape[0], n1=shape[1], x=[core.rat(v) for v in x0.ravel()],
                              y=[core.rat(v) for v in y0.ravel()], mask=mlist, block=block, partial=partial,
                              y_c_contig=bool(y.flags.c_contiguous), y_f_contig=bool(y.flags.f_contiguous),
                              sigmas=[c[1] for c in rec.calls] if sig_ok else [])
        g = lambda k: unrat(rep[k])
        vx, vy, cov = g("var_x"), g("var_y"), g("cov")
        if vx == 0 or vy == 0 or rep["n_masked"] < 2:
            return res(impl, None, None, True, True, hyp=False)
        # the calls of shuffle_blocks the routine made, each judged as a shuffle of its own
        inner = self.judge_inner(spy, ctx, m0, y0, n)
        if inner["judged"]:
            feats.add("prob:inner-shuffle-calls-judged")
        impl["inner_shuffles_satisfy_spec"] = inner["spec_ok"]
        if not inner["spec_ok"]:
            impl["inner_shuffle_violating"] = inner["first_bad"]
        r = r_exact(cov, vx, vy)
        tol = r_tol(g("mean_xy"), g("mean_x"), g("mean_y"), vx, vy)
        bound = float(np.abs(x0).max() * np.abs(y0).max())
        sure = near = below = 0
        for st in rep["steps"] if sig_ok else []:
            vyi, ci = unrat(st["var_y"]), unrat(st["cov"])
            if st["same"]:  # identical operands: r_i is r bit for bit, never counted by rs > r
                continue
            if vyi == 0:
                near += 1
                continue
            ri = r_exact(ci, vx, vyi)
            toli = REL + 64 * EPS * 2 * bound / math.sqrt(float(vx) * float(vyi))
            if abs(ri - r) <= tol + toli:
                near += 1
            elif st["gt"]:
                sure += 1
            else:
                below += 1  # exactly decided (Lean rGt) and separated from r by more than the float tolerance: r_i < r
        same_idx = sig_ok and all(c[0] == rep["idx"] for c in rec.calls)
        # the property fixes r, "a fraction in [0, 1]" of the n shuffles and the untouched arguments; which side of r is
        # counted is the mechanism's choice (rs > r) and is compared with the model only
        # the model's loop state after the run (Lean: probRun, the mask copied inside every call, shuffled = y.copy())
        model = {"r": r, "p_count_in": [sure, sure + near], "perm_args_equal_idx": True, "n_perm_calls": n,
                 "images_unchanged": rep["y_unchanged"], "mask_unchanged": rep["mask_unchanged"], "p_is_nan": rep["p"] is None and sig_ok}
        if sig_ok and any(st["n"] != rep["n_masked"] for st in rep["steps"]):
            raise core.InternalError("model: a round reads another number of pixels than r (contradicts theorem same_pixels)")
        if n == 0:
            # zero shuffles: (rs > r).sum() / 0 is NaN.  "A fraction in [0, 1]" of no shuffles is not defined, so this part of
            # the text does not apply (n = 0 is taken to be outside "any number of shuffles"); r and the untouched arguments
            # are still demanded, and the NaN is compared with the model (probability [] = none)
            spec = {"r": r, "images_unchanged": True, "mask_unchanged": True}
            ok = "raises" not in impl and impl["images_unchanged"] and impl["mask_unchanged"] and abs(impl["r"] - r) <= tol
            impl["n_perm_calls"], impl["p_is_nan"] = len(rec.calls), "raises" not in impl and impl["p"] is None
            agrees = impl["p_is_nan"] and sig_ok
            return res(impl, model, spec, ok, ok and model["p_is_nan"] and (agrees or not JUDGE_OUTSIDE_PROPERTY), hyp=False,
                       features=feats | {"n0(fraction clause not applicable): p is NaN, " + ("as modelled" if agrees else "DIFFERS(recorded only)")})
        spec = {"r": r, "p_is_fraction_of_n_in_[0,1]": True, "images_unchanged": True, "mask_unchanged": True,
                "inner_shuffles_satisfy_spec": True}
        ok = "raises" not in impl and impl["images_unchanged"] and impl["mask_unchanged"] and impl["p"] is not None
        if ok:
            k = impl["p"] * n
            ok = abs(impl["r"] - r) <= tol and 0.0 <= impl["p"] <= 1.0 and abs(k - round(k)) < 1e-9
        if ok and same_idx:
            # "obtained over the same pixels as the reported r": the n coefficients r_i of the rounds, each over the pixels of the
            # mask given (exact, Lean: probStepsOf on the recorded permutations - which the inner shuffles are checked to have
            # applied), compared with r.  p * n must be the number of rounds on ONE side of r: above (what the code counts) or
            # below (what its docstring says) - the text does not choose; rounds within the float tolerance of r may count or not
            spec["p_count_in(rounds above r | rounds below r)"] = [[sure, sure + near], [below, below + near]]
            impl["p_count"] = int(round(impl["p"] * n))
            ok = ok and (sure <= impl["p_count"] <= sure + near or below <= impl["p_count"] <= below + near)
            if not near and sure != below:
                feats.add("prob:p-determined-exactly")
        spec_ok = ok and inner["spec_ok"]
        model_ok = (ok and sig_ok and same_idx and sure <= round(impl["p"] * n) <= sure + near and inner["model_ok"]
                    and model["images_unchanged"] and model["mask_unchanged"] and not model["p_is_nan"])
        if ok and not same_idx:
            # the implementation draws its randomness differently: the recorded permutations cannot be replayed by the
            # model, so the count of shuffled r above r is not compared; r, the [0, 1] fraction of n and the untouched
            # arguments (the specification) still are
            model_ok = True
            feats.add("rng-used-differently(model count not compared)")
        impl["n_perm_calls"] = len(rec.calls)
        impl["perm_args_equal_idx"] = same_idx
        if len(rep["idx"]) >= 2:
            feats.add("selected>=2")
        if any(c[0] != c[1] for c in rec.calls):
            feats.add("moved")
        if any(sz % block for sz in shape):
            feats.add("shape:non-multiple")
        if near:
            feats.add("near-tie-r")
        return res(impl, model, spec, spec_ok, model_ok, undetermined=bool(near) and spec_ok and model_ok, features=feats)

    # ---- pearsonr_probablity on images of ordinary size: its calls of shuffle_blocks move 10^4 .. 10^5 blocks each
    def eval_bigprob(self, case, ctx):
        from pewlib.process import colocal

        shape, n = case["shape"], case["n"]
        N = int(np.prod(shape))
        x, y = lin_image(case["x"], shape), lin_image(case["y"], shape)
        mask = None if case["mask_runs"] is None else rle_decode(case["mask_runs"], N).reshape(shape)
        x0, y0, m0 = x.copy(), y.copy(), None if mask is None else mask.copy()
        rec = BigPermRecorder(case["pseed"], case["perm"])
        kwargs = dict(mask=mask, shuffle_partial=case["partial"], n=n)
        if case["block"] is not None:  # None: the routine's own default
            kwargs["block"] = case["block"]
        saved = np.random.permutation
        np.random.permutation = rec
        try:
            with ShuffleSpy(colocal, rec) as spy:
                try:
                    r, p = colocal.pearsonr_probablity(x, y, **kwargs)
                    impl = {"r": float(r), "p": None if math.isnan(float(p)) else float(p)}
                except core.InternalError:
                    raise
                except Exception as e:
                    impl = {"raises": type(e).__name__, "msg": str(e)[:200]}
        finally:
            np.random.permutation = saved
        impl["images_unchanged"] = bool(np.array_equal(x, x0) and np.array_equal(y, y0))
        impl["mask_unchanged"] = True if mask is None else bool(np.array_equal(mask, m0))
        feats = {"big", "big:prob", "big:prob:partial:" + str(case["partial"]), f"big:prob:n{n}",
                 "big:prob:block:" + ("default" if case["block"] is None else str(case["block"])),
                 "big:prob:mask:" + ("none" if mask is None else "given")} | {"big:prob:" + f for f in case.get("gen", [])}
        inner = self.judge_inner(spy, ctx, m0, y0, n, other={"lin": case["x"]}, ref={"lin": case["y"]})
        reps = [j["rep"] for j in inner["judged"]]
        if reps:
            st = reps[0]["stats_ref"]
            ns = max(j["n_selected"] for j in inner["judged"])
            feats.add("big:prob:inner-shuffle-calls-judged")
            feats.add("big:blocks-moved-in-one-call:" + ("<=2^15" if ns <= 2 ** 15 else "2^15..2^16" if ns <= 2 ** 16 else ">2^16"))
        else:  # the routine did not go through shuffle_blocks: only r, the fraction and the untouched arguments can be judged
            ones = np.ones(shape, dtype=bool) if m0 is None else m0
            st = ctx.driver.call("c14.shuffle_big", n0=shape[0], n1=shape[1], b0=1, b1=1, pad=False, partial=False, c_contig=True,
                                 f_contig=False, reference=False, x={"lin": case["y"]}, mask_runs=rle_encode(ones), nidx=None,
                                 arg_runs=None, out=None, other={"lin": case["x"]}, ref={"lin": case["y"]})["stats_ref"]
        g = lambda d, k: unrat(d[k])
        vx, vy, cov = g(st, "var_x"), g(st, "var_y"), g(st, "cov")
        if vx == 0 or vy == 0 or st["n"] < 2:
            return outcome(impl, None, None, spec_ok=True, model_ok=True, hyp=False, features=[])
        r = r_exact(cov, vx, vy)
        tol = r_tol(g(st, "mean_xy"), g(st, "mean_x"), g(st, "mean_y"), vx, vy)
        bound = float(np.abs(x0).max() * np.abs(y0).max())
        sure = near = 0
        for rp in reps if inner["chain"] else []:
            so = rp.get("stats_out")
            if so is None or rp["out_same_as_ref"]:
                continue
            vyi, ci = g(so, "var_y"), g(so, "cov")
            if vyi == 0:
                near += 1
                continue
            ri = r_exact(ci, vx, vyi)
            toli = REL + 64 * EPS * 2 * bound / math.sqrt(float(vx) * float(vyi))
            if abs(ri - r) <= tol + toli:
                near += 1
            elif rp["out_gt_ref"]:
                sure += 1
        impl["inner_shuffles_satisfy_spec"] = inner["spec_ok"]
        if not inner["spec_ok"]:
            impl["inner_shuffle_violating"] = inner["first_bad"]
        spec = {"r": r, "p_is_fraction_of_n_in_[0,1]": True, "images_unchanged": True, "mask_unchanged": True,
                "inner_shuffles_satisfy_spec": True}
        model = {"r": r, "p_count_in": [sure, sure + near] if inner["chain"] else None, "images_unchanged": True, "mask_unchanged": True,
                 "inner_shuffles_equal_model": True}
        ok = "raises" not in impl and impl["images_unchanged"] and impl["mask_unchanged"] and impl["p"] is not None and n >= 1
        if ok:
            k = impl["p"] * n
            ok = abs(impl["r"] - r) <= tol and 0.0 <= impl["p"] <= 1.0 and abs(k - round(k)) < 1e-9
        spec_ok = ok and inner["spec_ok"]
        model_ok = ok and inner["model_ok"] and (not inner["chain"] or sure <= round(impl["p"] * n) <= sure + near)
        impl["inner_shuffles_equal_model"] = inner["model_ok"]
        if near:
            feats.add("big:prob:near-tie-r")
        return outcome(impl, model, spec, spec_ok=spec_ok, model_ok=model_ok, undetermined=bool(near) and spec_ok and model_ok, features=feats)

    # ---- histories: consecutive calls in one process that share argument objects
    def eval_history(self, case, ctx):
        from pewlib.process import calc

        shape = case["shape"]
        x = np.array(case["x"], dtype=np.float64).reshape(shape)
        y = np.array(case["y"], dtype=np.float64).reshape(shape)
        x_first = x.copy()
        masks = {k: np.array(v, dtype=bool).reshape(shape) for k, v in case["masks"].items()}
        impls, models, specs, feats = [], [], [], {"history", f"history:steps{len(case['steps'])}"}
        spec_ok = model_ok = True
        prev = None
        for k, st in enumerate(case["steps"]):
            m = None if st["mask"] is None else masks[st["mask"]]
            ed = st.get("edit")
            if ed is not None and m is not None:  # the caller edits the mask object in place between the calls
                if "rect" in ed:
                    m[tuple(slice(lo, hi) for lo, hi in ed["rect"])] = bool(ed["value"])
                for f in ed.get("flip", []):
                    m.flat[f % m.size] = not m.flat[f % m.size]
            opts = (st["fn"], tuple(st["block"]) if st["fn"] == "shuffle" else (st["block"], st["block"]),
                    st.get("mode", "inplace"), st["partial"])
            if st["fn"] == "shuffle":
                img = x if st.get("img", "same") == "same" else x_first.copy()
                o = self.observe(calc.shuffle_blocks, img, st["block"], m if m is not None else np.ones(shape, dtype=bool), st["mode"],
                                 st["partial"], PermRecorder(st["pseed"], st["perm"]))
                j = self.judge(o, ctx)
                if j is None:
                    raise core.InternalError("history: shuffle step outside the model's domain")
                if j["moved"]:
                    feats.add("history:moved")
            else:
                j = self.judge_prob(ctx, x, y, m, st["block"], st["partial"], st["n"], PermRecorder(st["pseed"], st["perm"]), set())
                if j["undetermined"] or not j["hyp"]:  # this step is not judged; the others are
                    j = dict(j, spec_ok=True, model_ok=True)
                    feats.add("history:step-not-judged(near tie / outside the hypotheses)")
            impls.append(j["impl"]), models.append(j["model"]), specs.append(j["spec"])
            spec_ok, model_ok = spec_ok and j["spec_ok"], model_ok and j["model_ok"]
            if prev is not None:
                same_obj = st["mask"] is not None and st["mask"] == prev["mask"]
                same_opts = opts[1:] == prev["opts"][1:]
                feats.add("history:" + prev["opts"][0] + ">" + st["fn"])
                feats.add("history:mask:" + ("none" if st["mask"] is None or prev["mask"] is None else
                                             ("same-object-" + ("edited" if ed else "unchanged")) if same_obj else
                                             "other-object-" + ("equal-content" if np.array_equal(masks[st["mask"]], masks[prev["mask"]]) else "other-content")))
                feats.add("history:options:" + ("same" if same_opts else "changed"))
                if same_obj and ed and same_opts:
                    feats.add("history:same-mask-object-edited-in-place+same-options")
                if st["fn"] == "shuffle" and prev["opts"][0] == "shuffle":
                    feats.add("history:image:" + st.get("img", "same") + "-object")
            prev = {"mask": st["mask"], "opts": opts}
        return outcome({"steps": impls}, {"steps": models}, {"steps": specs}, spec_ok=spec_ok, model_ok=model_ok, features=feats)

    # ------------------------------------------------------------------ shrinking
    def shrink(self, case):
        if case["kind"] == "shuffle":
            shape, block = case["shape"], case["block"]
            arr = np.array(case["x"], dtype=object).reshape(shape)
            msk = None if case["mask"] is None else np.array(case["mask"], dtype=object).reshape(shape)
            for ax in range(len(shape)):
                if shape[ax] > 1:
                    s = [slice(None)] * len(shape)
                    s[ax] = slice(0, shape[ax] - 1)
                    sub = arr[tuple(s)]
                    yield {**case, "shape": list(sub.shape), "x": [int(v) for v in sub.ravel()],
                           "mask": None if msk is None else [int(v) for v in msk[tuple(s)].ravel()]}
            for ax in range(len(shape)):
                if shape[ax] == 1 and len(shape) > 1:  # drop an axis of extent one (the layout is reset: it names axes)
                    yield {**case, "shape": shape[:ax] + shape[ax + 1:], "block": block[:ax] + block[ax + 1:],
                           "layout": "C" if case.get("layout") in ("perm", "transposed") else case.get("layout", "C"),
                           "layout_perm": list(range(len(shape) - 1))}
            if case.get("layout", "C") != "C":
                yield {**case, "layout": "C"}
            if case.get("mask_layout", "C") != "C":
                yield {**case, "mask_layout": "C"}
            if case["mask_float"]:
                yield {**case, "mask_float": False}
            if case["perm"] not in ("reverse", "identity"):
                yield {**case, "perm": "reverse"}
            if case["mask"] is not None and any(v == 0 for v in case["mask"]):
                yield {**case, "mask": [1] * len(case["mask"])}
            for k, dflt in (("defaults", False), ("xdtype", "f8")):
                if case.get(k, dflt) != dflt:
                    yield {**case, k: dflt}
        elif case["kind"] == "bigshuffle":
            shape = case["shape"]
            m = rle_decode(case["mask_runs"], int(np.prod(shape))).reshape(shape)
            for ax in range(len(shape)):
                for cut in (shape[ax] // 2, shape[ax] * 7 // 8, shape[ax] - 1):
                    if 1 <= cut < shape[ax]:
                        sl = [slice(None)] * len(shape)
                        sl[ax] = slice(0, cut)
                        yield {**case, "shape": [cut if a == ax else v for a, v in enumerate(shape)], "mask_runs": rle_encode(m[tuple(sl)])}
            if not m.all():
                yield {**case, "mask_runs": rle_encode(np.ones(shape))}
            for k, v in (("mask_float", False), ("layout", "C"), ("perm", "reverse"), ("x", [1, 0, 0])):
                if case.get(k, v) != v:
                    yield {**case, k: v}
        elif case["kind"] == "bigprob":
            if case["n"] > 1:
                yield {**case, "n": case["n"] - 1}
            if case["mask_runs"] is not None:
                yield {**case, "mask_runs": None}
        elif case["kind"] == "history":
            steps = case["steps"]
            if len(steps) > 1:
                yield {**case, "steps": steps[1:]}
                yield {**case, "steps": steps[:-1]}
            for k, st in enumerate(steps):
                if st.get("edit") is not None and k > 0:
                    yield {**case, "steps": steps[:k] + [dict(st, edit=None)] + steps[k + 1:]}
                if st["fn"] == "prob" and st["n"] > 1:
                    yield {**case, "steps": steps[:k] + [dict(st, n=st["n"] - 1)] + steps[k + 1:]}
                if st["perm"] != "reverse":
                    yield {**case, "steps": steps[:k] + [dict(st, perm="reverse")] + steps[k + 1:]}
        elif case["kind"] == "prob":
            if case["n"] > 1:
                yield {**case, "n": case["n"] - 1}
            if case["mask"] is not None:
                yield {**case, "mask": None}
            shape = case["shape"]
            for ax in range(2 if len(shape) == 2 else 0):
                if shape[ax] > 2:
                    s = [slice(None)] * 2
                    s[ax] = slice(0, shape[ax] - 1)
                    sub = lambda k: [int(v) for v in np.array(case[k], dtype=object).reshape(shape)[tuple(s)].ravel()]
                    c = {**case, "shape": [shape[0] - (ax == 0), shape[1] - (ax == 1)], "x": sub("x"), "y": sub("y")}
                    if case["mask"] is not None:
                        c["mask"] = sub("mask")
                    yield c
        else:
            n = len(case["x"])
            if len(case["shape"]) == 2:
                yield {**case, "shape": [n]}
            if n > 2:
                yield {**case, "shape": [n - 1], "x": case["x"][:-1], "y": case["y"][:-1]}
            for k in ("offx", "offy", "spow", "b"):
                if case[k]:
                    yield {**case, k: 0}
            for k in ("tx", "ty"):
                if case[k] is not None:
                    yield {**case, k: None}
            for k, dflt in (("dtype", ["f8", "f8"]), ("lay", ["C", "C"]), ("negzero", False)):
                if case.get(k, dflt) != dflt:
                    yield {**case, k: dflt}
            if case.get("xpow"):
                yield {k: v for k, v in case.items() if k != "xpow"}
                for i in (0, 1):
                    if case["xpow"][i] and case["xpow"][1 - i]:
                        yield {**case, "xpow": [0 if j == i else v for j, v in enumerate(case["xpow"])]}


PROP = C14()

if __name__ == "__main__":
    sys.exit(core.main(PROP, "harness.c14"))
